"""Reference model for property C20: rise/fall hysteresis of a health-checked announcement.

Written from the property statement and the option help texts of `exabgp healthcheck`
(`--rise N  check N times before considering the service up`, `--fall N ... down`,
`--disable FILE  if FILE exists, the service is considered disabled`,
`--withdraw-on-down  instead of increasing the metric on health failure, withdraw the route`).
It is a pair of run-length counters, nothing else; it shares no code with ExaBGP and does not
import it.

Vocabulary
----------
result   one per round: OK (check succeeded), FAIL (check failed), DIS (disable file exists; the
         check result is then irrelevant).
posture  what a BGP peer currently holds for one route because of what the helper wrote:
         UP / DOWN / DISABLED  the announcement carrying the attributes configured for that state,
         WITHDRAWN             the helper withdrew it,
         NONE                  the helper never mentioned it.

What the statement fixes, and so what this model enforces
---------------------------------------------------------
S1  a route *changes to* UP in a round only if that round ends a run of >= rise consecutive OK.
S2  a route changes to DOWN (or, with withdraw-on-down, to WITHDRAWN because of failures) only if
    the round ends a run of >= fall consecutive FAIL.
S3  therefore one contrary result never changes the posture when rise, fall > 1 (reported with its
    own tag because the statement names it).
S4  at exit every route that is announced in any state ends WITHDRAWN, and the exit phase
    announces nothing.
P   promptness (the natural reading of "switches ... after `rise` consecutive successes", and
    what `--rise N` promises): once the run reaches the threshold the route *is* in that posture
    at the end of the round.  Without P an implementation that never announces would pass.

Tolerances (everything the statement leaves open is accepted)
-------------------------------------------------------------
T1  re-announcing the posture a route already has, in any round, any number of times, or saying
    nothing at all in a round, is never a change.
T2  before anything was announced (NONE) the helper may stay silent for as long as no threshold is
    reached, and may start conservatively with DOWN / WITHDRAWN at any time; it may never start
    with UP before `rise` successes.
T3  DIS: the statement only asks for "the attributes configured for that state".  Accepted: the
    disabled announcement, or a withdrawal when withdraw-on-down is set, in the very round the
    file is seen.  A change to DISABLED is accepted only in a DIS round.  After P, in a DIS round
    the route must be DISABLED (or WITHDRAWN / still NONE with withdraw-on-down).
T4  noticing that the disable file went away may cost one round: a run of OK (or FAIL) that
    directly follows a DIS round has to be one longer before P applies (S1/S2 are unaffected).
T5  with withdraw-on-down, withdrawing a route that was never announced (NONE -> WITHDRAWN) or
    not bothering to (staying NONE) are both fine.
T6  rise / fall below 1 behave as 1.
"""

from __future__ import annotations

OK, FAIL, DIS = 'ok', 'fail', 'disabled'
RESULTS = (OK, FAIL, DIS)

UP, DOWN, DISABLED, WITHDRAWN, NONE = 'U', 'D', 'X', 'W', 'N'
ANNOUNCED = (UP, DOWN, DISABLED)


class Hysteresis:
    """Feed one result per round with step(); then ask may_change()/must_be() for that round."""

    def __init__(self, rise: int, fall: int, withdraw_on_down: bool) -> None:
        self.rise = max(1, rise)
        self.fall = max(1, fall)
        self.wod = bool(withdraw_on_down)
        self.ok_run = 0  # consecutive OK ending at the current round
        self.fail_run = 0  # consecutive FAIL ending at the current round
        self.after_dis = False  # the current run directly follows a DIS round (T4)
        self.last = None  # result of the current round
        self.prev = None  # result of the round before

    # ---- input --------------------------------------------------------------------------------
    def step(self, result: str) -> None:
        if result not in RESULTS:
            raise ValueError(result)
        self.prev, self.last = self.last, result
        if result == OK:
            if self.ok_run == 0:
                self.after_dis = self.prev == DIS
            self.ok_run += 1
            self.fail_run = 0
        elif result == FAIL:
            if self.fail_run == 0:
                self.after_dis = self.prev == DIS
            self.fail_run += 1
            self.ok_run = 0
        else:
            self.ok_run = self.fail_run = 0
            self.after_dis = False

    # ---- safety: which *changes* are justified in the current round ----------------------------
    def may_change(self, current: str, new: str) -> tuple[bool, str]:
        """Is changing a route from posture `current` to `new` in this round allowed?
        Returns (allowed, tag); tag names the broken clause when not allowed."""
        if new == current:
            return True, ''  # T1
        if new == UP:
            if self.ok_run >= self.rise:
                return True, ''
            return False, 'early-up' + self._contrary(current)
        if new == DOWN:
            if self.wod:
                # with withdraw-on-down the down state is a withdrawal, not an announcement;
                # a conservative DOWN announcement before anything else is still T2
                if current == NONE:
                    return True, ''
                return False, 'down-announced-despite-withdraw-on-down'
            if self.fail_run >= self.fall or current == NONE:  # S2, T2
                return True, ''
            return False, 'early-down' + self._contrary(current)
        if new == WITHDRAWN:
            if not self.wod:
                return False, 'withdraw-without-withdraw-on-down'
            if self.fail_run >= self.fall or self.last == DIS or current == NONE:  # S2, T3, T5
                return True, ''
            return False, 'early-withdraw' + self._contrary(current)
        if new == DISABLED:
            if self.last == DIS:
                return True, ''  # T3
            return False, 'disabled-announced-while-enabled'
        raise ValueError(new)

    def _contrary(self, current: str) -> str:
        """S3 tag: the change happened on one contrary result although the threshold is > 1."""
        if current == UP and self.last == FAIL and self.fail_run == 1 and self.fall > 1:
            return ':single-contrary'
        if current in (DOWN, WITHDRAWN) and self.last == OK and self.ok_run == 1 and self.rise > 1:
            return ':single-contrary'
        return ''

    # ---- promptness: where a route has to be at the end of the current round -----------------------
    def must_be(self) -> tuple[frozenset | None, str]:
        """(set of acceptable postures at the end of this round, tag) or (None, '') if the round
        does not force anything."""
        slack = 1 if self.after_dis else 0  # T4
        if self.last == DIS:
            if self.wod:
                return frozenset((DISABLED, WITHDRAWN, NONE)), 'disabled-not-honoured'  # T3, T5
            return frozenset((DISABLED,)), 'disabled-not-honoured'
        if self.ok_run >= self.rise + slack:
            return frozenset((UP,)), 'late-up'
        if self.fail_run >= self.fall + slack:
            if self.wod:
                return frozenset((WITHDRAWN, NONE)), 'late-withdraw'  # T5
            return frozenset((DOWN,)), 'late-down'
        return None, ''

    # ---- exit -----------------------------------------------------------------------------------------
    @staticmethod
    def exit_may_change(current: str, new: str) -> tuple[bool, str]:
        if new == current or new == WITHDRAWN:
            # re-sending the standing announcement while leaving is T1 only if a withdraw follows;
            # exit_must_be() decides that
            return True, ''
        return False, 'announce-at-exit'

    @staticmethod
    def exit_must_be(before_exit: str) -> frozenset:
        """S4.  `before_exit` is the posture when the helper was told to stop."""
        if before_exit in ANNOUNCED:
            return frozenset((WITHDRAWN,))
        return frozenset((WITHDRAWN, before_exit))


def selftest() -> None:
    """Hand-worked traces of the clauses above (rise=2, fall=3 unless said)."""
    h = Hysteresis(2, 3, False)
    h.step(OK)
    assert h.may_change(NONE, UP) == (False, 'early-up') and h.must_be() == (None, '')
    assert h.may_change(NONE, DOWN)[0]  # T2
    h.step(OK)
    assert h.may_change(NONE, UP)[0] and h.must_be() == (frozenset('U'), 'late-up')
    h.step(FAIL)
    assert h.may_change(UP, DOWN) == (False, 'early-down:single-contrary')
    assert h.may_change(UP, UP)[0] and h.must_be() == (None, '')
    h.step(FAIL)
    assert h.may_change(UP, DOWN) == (False, 'early-down')
    h.step(OK)  # run of failures broken: counter starts again
    h.step(FAIL)
    h.step(FAIL)
    assert not h.may_change(UP, DOWN)[0]
    h.step(FAIL)
    assert h.may_change(UP, DOWN)[0] and h.must_be() == (frozenset('D'), 'late-down')
    assert h.may_change(UP, WITHDRAWN) == (False, 'withdraw-without-withdraw-on-down')
    h.step(OK)
    assert h.may_change(DOWN, UP) == (False, 'early-up:single-contrary')
    h.step(DIS)
    assert h.may_change(DOWN, DISABLED)[0] and h.must_be()[0] == frozenset('X')
    assert not h.may_change(DOWN, UP)[0]
    h.step(OK)
    assert h.may_change(DISABLED, DISABLED)[0]
    assert h.may_change(DOWN, DISABLED) == (False, 'disabled-announced-while-enabled')
    h.step(OK)
    assert h.may_change(DISABLED, UP)[0] and h.must_be() == (None, '')  # T4: allowed, not yet due
    h.step(OK)
    assert h.must_be() == (frozenset('U'), 'late-up')
    w = Hysteresis(1, 1, True)
    w.step(FAIL)
    assert w.may_change(UP, WITHDRAWN)[0] and w.must_be()[0] == frozenset('WN')
    assert not w.may_change(UP, DOWN)[0]
    w.step(OK)
    assert w.may_change(WITHDRAWN, UP)[0] and w.must_be()[0] == frozenset('U')
    w.step(DIS)
    assert w.may_change(UP, WITHDRAWN)[0] and w.may_change(UP, DISABLED)[0]
    assert Hysteresis.exit_must_be(UP) == frozenset('W') and Hysteresis.exit_must_be(NONE) == frozenset('WN')
    assert Hysteresis.exit_may_change(WITHDRAWN, UP) == (False, 'announce-at-exit')


if __name__ == '__main__':
    selftest()
    print('hysteresis selftest ok')
