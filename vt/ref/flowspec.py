"""Reference FlowSpec codec and text renderer, written from the RFC texts.  Does not import exabgp.

RFC 8955 (IPv4 FlowSpec, section 4 NLRI, section 7 traffic actions, section 8 flow-vpn), RFC 8956
(IPv6: prefix components carry length + offset + left-aligned pattern, type 13 flow label),
draft-simpson-idr-flowspec-redirect (0x0800 redirect to next hop, low bit = copy),
draft-ietf-idr-flowspec-redirect-ip (0x010c / IPv6-specific 0x000c).

Abstract rule (plain JSON-able data, so it can be stored in a replay file):

    {'afi': 1|2,
     'rd': None | '65000:1' | '1.2.3.4:5' | '4200000000:5',
     'comps': [[type, payload], ...]         in the order the TEXT lists them
     'actions': [[name, arg...], ...]}

    payload of type 1/2, afi 1 : [address, length]
    payload of type 1/2, afi 2 : [address, length, offset]
    payload of numeric types   : [[and(0|1), op, value], ...]   op in = > < >= <= != true false
    payload of bitmask types   : [[and(0|1), op, value], ...]   op in '' ! = !=   ('' = any bit, '=' match, '!' not)

Wire (RFC 8955 4.2.1.1 / 4.2.1.2):
    numeric_op  : e(0x80) a(0x40) len(0x30: 1<<len octets) 0(0x08) lt(0x04) gt(0x02) eq(0x01)
    bitmask_op  : e(0x80) a(0x40) len(0x30)                0 0(0x0c) not(0x02) m(0x01)
    NLRI length : one octet below 240, else two octets 0xf000 | length (max 4095)   (RFC 8955 4.1)
"""

from __future__ import annotations

import ipaddress
import struct

DEST, SRC, PROTO, PORT, DPORT, SPORT, ICMP_TYPE, ICMP_CODE, TCP_FLAGS, PKT_LEN, DSCP, FRAGMENT, FLOW_LABEL = range(1, 14)

PREFIX = frozenset((DEST, SRC))
NUMERIC = frozenset((PROTO, PORT, DPORT, SPORT, ICMP_TYPE, ICMP_CODE, PKT_LEN, DSCP, FLOW_LABEL))
BITMASK = frozenset((TCP_FLAGS, FRAGMENT))

# component types each family defines (RFC 8955 4.2.2: 1-12, RFC 8956 3: 1-13)
DEFINED = {1: frozenset(range(1, 13)), 2: frozenset(range(1, 14))}

# value widths in octets a component may use (RFC 8955 4.2.2.3-4.2.2.12, RFC 8956 3.7)
WIDTHS = {
    PROTO: (1,),
    PORT: (1, 2),
    DPORT: (1, 2),
    SPORT: (1, 2),
    ICMP_TYPE: (1,),
    ICMP_CODE: (1,),
    TCP_FLAGS: (1, 2),
    PKT_LEN: (1, 2),
    DSCP: (1,),
    FRAGMENT: (1,),
    FLOW_LABEL: (1, 2, 4),
}

# text keyword of a component in ExaBGP's flow grammar, per family (the vocabulary is ExaBGP's
# documented syntax; the numbers behind it are the RFC's)
KEYWORD = {
    1: {DEST: 'destination', SRC: 'source', PROTO: 'protocol', PORT: 'port', DPORT: 'destination-port',
        SPORT: 'source-port', ICMP_TYPE: 'icmp-type', ICMP_CODE: 'icmp-code', TCP_FLAGS: 'tcp-flags',
        PKT_LEN: 'packet-length', DSCP: 'dscp', FRAGMENT: 'fragment', FLOW_LABEL: 'flow-label'},
    2: {DEST: 'destination', SRC: 'source', PROTO: 'next-header', PORT: 'port', DPORT: 'destination-port',
        SPORT: 'source-port', ICMP_TYPE: 'icmp-type', ICMP_CODE: 'icmp-code', TCP_FLAGS: 'tcp-flags',
        PKT_LEN: 'packet-length', DSCP: 'traffic-class', FRAGMENT: 'fragment', FLOW_LABEL: 'flow-label'},
}

# largest value a component can carry.  Type 11 in an IPv6 flow is written `traffic-class` by ExaBGP
# and RFC 8956 keeps it a single octet; the 6-bit DSCP limit is enforced for the IPv4 keyword only.
def max_value(ctype: int, afi: int) -> int:
    if ctype == DSCP:
        return 63 if afi == 1 else 255
    if ctype == FLOW_LABEL:
        return (1 << 20) - 1
    if ctype == FRAGMENT:
        return 0x0F
    if ctype == TCP_FLAGS:
        return 0x0FFF
    return (1 << (8 * max(WIDTHS[ctype]))) - 1


# names -> numbers (IANA protocol numbers, ICMP / ICMPv6 parameters, TCP header flags, RFC 8955 4.2.2.12)
PROTO_NAMES = {'icmp': 1, 'igmp': 2, 'tcp': 6, 'egp': 8, 'udp': 17, 'rsvp': 46, 'gre': 47, 'esp': 50, 'ah': 51,
               'ospf': 89, 'ipip': 94, 'pim': 103, 'sctp': 132}
ICMP4_TYPE_NAMES = {'echo-reply': 0, 'unreachable': 3, 'redirect': 5, 'echo-request': 8, 'router-advertisement': 9,
                    'router-solicit': 10, 'time-exceeded': 11, 'parameter-problem': 12, 'timestamp': 13,
                    'timestamp-reply': 14, 'photuris': 40, 'experimental-mobility': 41, 'extended-echo-request': 42,
                    'extended-echo-reply': 43, 'experimental-one': 253, 'experimental-two': 254}
# RFC 4443 / RFC 4861 (an IPv6 flow matches the ICMPv6 type field, RFC 8956 3.4)
ICMP6_TYPE_NAMES = {'unreachable': 1, 'time-exceeded': 3, 'parameter-problem': 4, 'echo-request': 128,
                    'echo-reply': 129, 'router-solicit': 133, 'router-advertisement': 134, 'redirect': 137}
ICMP4_CODE_NAMES = {'network-unreachable': 0, 'host-unreachable': 1, 'protocol-unreachable': 2, 'port-unreachable': 3,
                    'fragmentation-needed': 4, 'source-route-failed': 5}
ICMP6_CODE_NAMES = {'port-unreachable': 4}  # RFC 4443 3.1
TCP_FLAG_NAMES = {'fin': 1, 'syn': 2, 'rst': 4, 'push': 8, 'ack': 16, 'urg': 32, 'urgent': 32, 'ece': 64, 'cwr': 128, 'ns': 256}
FRAGMENT_NAMES = {'dont-fragment': 1, 'is-fragment': 2, 'first-fragment': 4, 'last-fragment': 8}


def name_table(ctype: int, afi: int) -> dict:
    if ctype == PROTO:
        return PROTO_NAMES
    if ctype == ICMP_TYPE:
        return ICMP4_TYPE_NAMES if afi == 1 else ICMP6_TYPE_NAMES
    if ctype == ICMP_CODE:
        return ICMP4_CODE_NAMES if afi == 1 else ICMP6_CODE_NAMES
    if ctype == TCP_FLAGS:
        return TCP_FLAG_NAMES
    if ctype == FRAGMENT:
        return FRAGMENT_NAMES
    return {}


NUM_BITS = {'false': 0, '=': 1, '>': 2, '>=': 3, '<': 4, '<=': 5, '!=': 6, 'true': 7}
NUM_NAME = {v: k for k, v in NUM_BITS.items()}
BIT_BITS = {'': 0, '=': 1, '!': 2, '!=': 3}
BIT_NAME = {v: k for k, v in BIT_BITS.items()}

E_BIT, A_BIT = 0x80, 0x40


class Malformed(Exception):
    """The bytes are not a FlowSpec NLRI as RFC 8955/8956 define it."""

    def __init__(self, reason: str, detail: str = '') -> None:
        Exception.__init__(self, f'{reason} {detail}'.strip())
        self.reason = reason


class Unencodable(Exception):
    """The abstract rule has no RFC encoding (value out of range, NLRI longer than 4095, mixed families)."""

    def __init__(self, reason: str) -> None:
        Exception.__init__(self, reason)
        self.reason = reason


# --------------------------------------------------------------------------------------------
# encoding
# --------------------------------------------------------------------------------------------


def shortest_width(ctype: int, value: int) -> int:
    for w in WIDTHS[ctype]:
        if value < (1 << (8 * w)):
            return w
    raise Unencodable(f'value-too-wide:type{ctype}')


def encode_ops(ctype: int, ops, afi: int, width_policy: str = 'shortest', widths=None) -> bytes:
    """ops: [[and, op, value]].  EOL on exactly the last operator, AND as written (never on the first),
    value in the shortest width the component allows (or `widths[i]` when the caller forces one)."""
    out = b''
    if not ops:
        raise Unencodable('empty-operator-list')
    table = NUM_BITS if ctype in NUMERIC else BIT_BITS
    for i, (and_, op, value) in enumerate(ops):
        if value < 0 or value > max_value(ctype, afi):
            raise Unencodable(f'value-out-of-range:type{ctype}')
        if widths is not None and widths[i] is not None:
            w = widths[i]
        elif width_policy == 'widest':
            w = max(WIDTHS[ctype])
        else:
            w = shortest_width(ctype, value)
        byte = table[op] | ({1: 0, 2: 1, 4: 2, 8: 3}[w] << 4)
        if and_ and i:
            byte |= A_BIT
        if i == len(ops) - 1:
            byte |= E_BIT
        out += bytes([byte]) + value.to_bytes(w, 'big')
    return out


def prefix4_bytes(addr: str, length: int) -> bytes:
    if not 0 <= length <= 32:
        raise Unencodable('prefix-length')
    raw = bytearray(ipaddress.IPv4Address(addr).packed[: (length + 7) // 8])
    if length % 8 and raw:
        raw[-1] &= (0xFF << (8 - length % 8)) & 0xFF
    return bytes([length]) + bytes(raw)


def prefix6_bytes(addr: str, length: int, offset: int) -> bytes:
    """RFC 8956 3.1: <length, offset, pattern, padding>; the pattern is the (length - offset) address bits
    starting at bit `offset`, left-aligned, zero padded to an octet boundary."""
    if not 0 <= length <= 128 or offset < 0 or (offset >= length and not (offset == 0 and length == 0)):
        raise Unencodable('prefix6-length-offset')
    value = int(ipaddress.IPv6Address(addr))
    nbits = length - offset
    # bits [offset, length) of the 128-bit address
    pattern = (value >> (128 - length)) & ((1 << nbits) - 1) if nbits else 0
    nbytes = (nbits + 7) // 8
    pattern <<= nbytes * 8 - nbits
    return bytes([length, offset]) + pattern.to_bytes(nbytes, 'big')


def encode_component(afi: int, ctype: int, payload, width_policy: str = 'shortest') -> bytes:
    if ctype not in DEFINED[afi]:
        raise Unencodable(f'type{ctype}-not-defined-for-afi{afi}')
    if ctype in PREFIX:
        if afi == 1:
            if len(payload) != 2 or ':' in payload[0]:
                raise Unencodable('mixed-family-prefix')
            return bytes([ctype]) + prefix4_bytes(payload[0], payload[1])
        if len(payload) != 3 or ':' not in payload[0]:
            raise Unencodable('mixed-family-prefix')
        return bytes([ctype]) + prefix6_bytes(payload[0], payload[1], payload[2])
    return bytes([ctype]) + encode_ops(ctype, payload, afi, width_policy)


def rd_bytes(rd: str) -> bytes:
    """RFC 4364 4.2: type 0 = 2-octet AS : 4-octet number, type 1 = IPv4 : 2-octet, type 2 = 4-octet AS : 2-octet."""
    admin, num = rd.rsplit(':', 1)
    n = int(num)
    if '.' in admin:
        return struct.pack('!H', 1) + ipaddress.IPv4Address(admin).packed + struct.pack('!H', n)
    a = int(admin)
    if a > 0xFFFF:
        return struct.pack('!HLH', 2, a, n)
    return struct.pack('!HHL', 0, a, n)


def rule_afi(rule) -> int:
    return rule['afi']


def encode_value(rule, width_policy: str = 'shortest') -> bytes:
    """RD (flow-vpn) followed by the components in ascending type order (RFC 8955 4.2, 8)."""
    afi = rule['afi']
    seen = set()
    parts = []
    for ctype, payload in rule['comps']:
        if ctype in seen:
            raise Unencodable('component-type-twice')
        seen.add(ctype)
        parts.append((ctype, encode_component(afi, ctype, payload, width_policy)))
    parts.sort(key=lambda p: p[0])
    body = b''.join(p[1] for p in parts)
    if rule.get('rd'):
        body = rd_bytes(rule['rd']) + body
    return body


def encode_length(n: int) -> bytes:
    if n < 240:
        return bytes([n])
    if n <= 4095:
        return struct.pack('!H', 0xF000 | n)
    raise Unencodable('nlri-longer-than-4095')


def encode_nlri(rule, width_policy: str = 'shortest') -> bytes:
    body = encode_value(rule, width_policy)
    return encode_length(len(body)) + body


def valid_encodings(rule) -> list[bytes]:
    """Every encoding the RFCs allow for the rule.  The only freedom left to a sender: RFC 8956 3.7 says
    flow-label values SHOULD use four octets while the general rule is the shortest width, so both the
    all-shortest and the flow-label-in-four-octets forms are accepted."""
    out = [encode_nlri(rule)]
    if any(c == FLOW_LABEL for c, _ in rule['comps']):
        comps = []
        for ctype, payload in sorted(rule['comps'], key=lambda c: c[0]):
            if ctype == FLOW_LABEL:
                comps.append(bytes([ctype]) + encode_ops(ctype, payload, rule['afi'], 'widest'))
            else:
                comps.append(encode_component(rule['afi'], ctype, payload))
        body = (rd_bytes(rule['rd']) if rule.get('rd') else b'') + b''.join(comps)
        alt = encode_length(len(body)) + body
        if alt not in out:
            out.append(alt)
    return out


# --------------------------------------------------------------------------------------------
# decoding
# --------------------------------------------------------------------------------------------


def decode_length(data: bytes):
    """-> (length, header size)."""
    if not data:
        raise Malformed('no-length')
    if data[0] >= 0xF0:
        if len(data) < 2:
            raise Malformed('length-truncated')
        return ((data[0] & 0x0F) << 8) | data[1], 2
    return data[0], 1


def decode_value(body: bytes, afi: int, vpn: bool, trace=None):
    """Strict decode of the NLRI value (after the length).  Returns (rd hex|None, comps in wire order, flags)
    where flags names everything the RFC frowns upon but that still has one unambiguous reading:
      'order'      components not in strictly ascending type order (RFC 8955 4.2 calls that malformed)
      'width'      a value width the component does not define
      'reserved'   reserved operator bits set (MUST be ignored on decoding: the rule is the one without them)
      'and-first'  AND bit on the first operator (MUST be treated as unset)
      'offset'     IPv6 prefix with offset >= length
      'host-bits'  prefix bits set beyond the length (irrelevant, RFC 4271 4.3)
    `trace` (a dict) is told what was met before a Malformed is raised: trace['offset6'] = an IPv6 prefix
    with a non-zero offset octet was read.
    """
    flags = set()
    rd = None
    pos = 0
    if vpn:
        if len(body) < 8:
            raise Malformed('rd-truncated')
        rd = body[:8].hex()
        pos = 8
    comps = []
    last = 0
    while pos < len(body):
        ctype = body[pos]
        pos += 1
        if ctype not in DEFINED[afi]:
            raise Malformed('unknown-type', str(ctype))
        if ctype <= last:
            flags.add('order')
        last = max(last, ctype)
        if ctype in PREFIX:
            if pos >= len(body):
                raise Malformed('prefix-truncated')
            length = body[pos]
            pos += 1
            if afi == 1:
                if length > 32:
                    raise Malformed('prefix-length', str(length))
                nb = (length + 7) // 8
                raw = body[pos : pos + nb]
                if len(raw) != nb:
                    raise Malformed('prefix-truncated')
                pos += nb
                if length % 8 and raw and raw[-1] & (0xFF >> (length % 8)):
                    flags.add('host-bits')
                    raw = raw[:-1] + bytes([raw[-1] & (0xFF << (8 - length % 8)) & 0xFF])
                addr = str(ipaddress.IPv4Address(raw + bytes(4 - nb)))
                comps.append([ctype, [addr, length]])
            else:
                if pos >= len(body):
                    raise Malformed('prefix-truncated')
                offset = body[pos]
                pos += 1
                if offset and trace is not None:
                    trace['offset6'] = True
                if length > 128:
                    raise Malformed('prefix-length', str(length))
                if offset >= length and not (offset == 0 and length == 0):
                    # RFC 8956 3.1: malformed.  Nothing to extract: refuse.
                    raise Malformed('prefix6-offset', f'{offset}>={length}')
                nbits = length - offset
                nb = (nbits + 7) // 8
                raw = body[pos : pos + nb]
                if len(raw) != nb:
                    raise Malformed('prefix-truncated')
                pos += nb
                pattern = int.from_bytes(raw, 'big') >> (nb * 8 - nbits) if nb else 0
                if nb and int.from_bytes(raw, 'big') & ((1 << (nb * 8 - nbits)) - 1):
                    flags.add('host-bits')
                value = pattern << (128 - length) if nbits else 0
                comps.append([ctype, [str(ipaddress.IPv6Address(value)), length, offset]])
            continue
        ops = []
        while True:
            if pos >= len(body):
                raise Malformed('no-end-of-list', f'type {ctype}')
            byte = body[pos]
            pos += 1
            w = 1 << ((byte >> 4) & 3)
            raw = body[pos : pos + w]
            if len(raw) != w:
                raise Malformed('value-truncated', f'type {ctype}')
            pos += w
            if w not in WIDTHS[ctype]:
                flags.add('width')
            and_ = 1 if byte & A_BIT else 0
            if and_ and not ops:
                flags.add('and-first')
                and_ = 0
            if ctype in NUMERIC:
                if byte & 0x08:
                    flags.add('reserved')
                op = NUM_NAME[byte & 0x07]
            else:
                if byte & 0x0C:
                    flags.add('reserved')
                op = BIT_NAME[byte & 0x03]
            ops.append([and_, op, int.from_bytes(raw, 'big')])
            if byte & E_BIT:
                break
        comps.append([ctype, ops])
    return rd, comps, flags


def decode_nlri(data: bytes, afi: int, vpn: bool, trace=None):
    """One NLRI from the front of `data` -> (rd, comps, flags, rest)."""
    length, hdr = decode_length(data)
    if len(data) - hdr < length:
        raise Malformed('nlri-overruns', f'{length}>{len(data) - hdr}')
    if hdr == 2 and length < 240:
        # allowed ("can be encoded as a single octet"), just not canonical
        pass
    rd, comps, flags = decode_value(data[hdr : hdr + length], afi, vpn, trace)
    return rd, comps, flags, data[hdr + length :]


def merge_repeated(comps):
    """Components of the same type folded into one (operator lists concatenated in wire order): the only
    sensible comparison form for input that repeats a type, which RFC 8955 4.2 calls malformed."""
    out = []
    index = {}
    for ctype, payload in comps:
        if ctype in PREFIX or ctype not in index:
            index.setdefault(ctype, len(out))
            out.append([ctype, list(payload) if ctype not in PREFIX else payload])
        else:
            out[index[ctype]][1].extend(payload)
    return out


def canonical(comps, afi: int, keep_first_and: bool = False):
    """Comparison form of a component list: ascending type order, prefix host bits cleared, the value of a
    `true`/`false` numeric operator dropped (it does not take part in the match), AND of the first operator
    unset (unless keep_first_and, used on the implementation's side to see whether it ignored the bit)."""
    out = []
    for ctype, payload in sorted(comps, key=lambda c: c[0]):
        if ctype in PREFIX:
            if len(payload) == 2:
                net = ipaddress.ip_network(f'{payload[0]}/{payload[1]}', strict=False)
                out.append((ctype, (str(net.network_address), payload[1])))
            else:
                addr, length, offset = payload
                v = int(ipaddress.IPv6Address(addr))
                keep = ((1 << (length - offset)) - 1) << (128 - length) if length > offset else 0
                out.append((ctype, (str(ipaddress.IPv6Address(v & keep)), length, offset)))
        else:
            ops = []
            for i, (and_, op, value) in enumerate(payload):
                if ctype in NUMERIC and op in ('true', 'false'):
                    value = None
                ops.append((1 if (and_ and (i or keep_first_and)) else 0, op, value))
            out.append((ctype, tuple(ops)))
    return tuple(out)


# --------------------------------------------------------------------------------------------
# traffic actions (RFC 8955 7, RFC 7674, redirect drafts)
# --------------------------------------------------------------------------------------------


def action_communities(actions):
    """-> (sorted list of 8-octet extended communities (hex), sorted list of 20-octet IPv6 ones (hex),
    next hop the text implies or None)."""
    ext, ext6, nh = [], [], None
    for act in actions:
        name = act[0]
        if name == 'accept':
            continue
        if name == 'discard':
            ext.append(struct.pack('!HHf', 0x8006, 0, 0.0))
        elif name == 'rate-limit':
            ext.append(struct.pack('!HHf', 0x8006, 0, float(act[1])))
        elif name == 'rate-limit-packets':
            ext.append(struct.pack('!HHf', 0x800C, 0, float(act[1])))
        elif name == 'action':
            bits = (2 if 'sample' in act[1] else 0) | (1 if 'terminal' in act[1] else 0)
            ext.append(struct.pack('!H', 0x8007) + bytes(5) + bytes([bits]))
        elif name == 'redirect-as':
            asn, num = act[1], act[2]
            if asn > 0xFFFFFFFF:
                raise Unencodable('redirect-as-number')
            if asn > 0xFFFF:
                if num > 0xFFFF:
                    raise Unencodable('redirect-as4-local-admin')
                ext.append(struct.pack('!HLH', 0x8208, asn, num))
            else:
                if num > 0xFFFFFFFF:
                    raise Unencodable('redirect-as2-local-admin')
                ext.append(struct.pack('!HHL', 0x8008, asn, num))
        elif name == 'redirect-ip':
            ext.append(struct.pack('!H', 0x8108) + ipaddress.IPv4Address(act[1]).packed + struct.pack('!H', act[2]))
        elif name == 'mark':
            if not 0 <= act[1] <= 63:
                raise Unencodable('dscp-out-of-range')
            ext.append(struct.pack('!H', 0x8009) + bytes(5) + bytes([act[1]]))
        elif name == 'redirect-to-nexthop':
            ext.append(struct.pack('!H', 0x0800) + bytes(6))
        elif name == 'redirect-nh':
            ext.append(struct.pack('!H', 0x0800) + bytes(6))
            nh = act[1]
        elif name == 'copy':
            ext.append(struct.pack('!H', 0x0800) + bytes(5) + b'\x01')
            nh = act[1]
        elif name == 'redirect-ietf':
            ip = ipaddress.ip_address(act[1])
            if ip.version == 4:
                ext.append(struct.pack('!H', 0x010C) + ip.packed + bytes(2))
            else:
                ext6.append(struct.pack('!H', 0x000C) + ip.packed + bytes(2))
        else:
            raise ValueError(f'unknown action {name}')
    return sorted(c.hex() for c in ext), sorted(c.hex() for c in ext6), nh


def action_text(act) -> str:
    name = act[0]
    if name in ('accept', 'discard', 'redirect-to-nexthop'):
        return name
    if name == 'rate-limit':
        return f'rate-limit {act[1]}'
    if name == 'rate-limit-packets':
        return f'rate-limit {act[1]} packets'
    if name == 'action':
        return f'action {act[1]}'
    if name == 'redirect-as':
        return f'redirect {act[1]}:{act[2]}'
    if name == 'redirect-ip':
        return f'redirect {act[1]}:{act[2]}'
    if name == 'redirect-nh':
        return f'redirect {act[1]}'
    if name == 'copy':
        return f'copy {act[1]}'
    if name == 'mark':
        return f'mark {act[1]}'
    if name == 'redirect-ietf':
        return f'redirect-to-nexthop-ietf {act[1]}'
    raise ValueError(name)


# --------------------------------------------------------------------------------------------
# text rendering (ExaBGP flow grammar)
# --------------------------------------------------------------------------------------------


def value_text(ctype: int, afi: int, value: int, names: bool) -> str:
    if ctype in BITMASK:
        table = name_table(ctype, afi)
        if names:
            parts = [n for n, bit in table.items() if value & bit and n != 'urgent']
            if parts and sum(table[p] for p in parts) == value:
                return '+'.join(parts)
        return hex(value)
    if names:
        for n, v in name_table(ctype, afi).items():
            if v == value:
                return n
    return str(value)


def ops_tokens(ctype: int, afi: int, ops, names: bool = False, bare_eq: bool = False):
    """Operator list -> the whitespace separated tokens of the text grammar: `&` joins an AND group
    inside one token, a new token is an OR."""
    tokens = []
    for i, (and_, op, value) in enumerate(ops):
        v = value_text(ctype, afi, value, names)
        if ctype in NUMERIC:
            piece = ('' if (bare_eq and op == '=') else op) + v
        else:
            piece = op + v
        if and_ and i:
            tokens[-1] += '&' + piece
        else:
            tokens.append(piece)
    return tokens


def component_text(afi: int, ctype: int, payload, style=None) -> str:
    """One `keyword value` item of a match block.  style: {'bracket': 'always'|'min'|'never', 'names': bool,
    'bare_eq': bool}.  'min' uses brackets only when there is more than one token; 'never' writes the
    tokens bare after the keyword whatever their number."""
    style = style or {}
    kw = KEYWORD[afi if ctype not in PREFIX else (2 if len(payload) == 3 else 1)][ctype]
    if ctype in PREFIX:
        if len(payload) == 2:
            return f'{kw} {payload[0]}/{payload[1]}'
        return f'{kw} {payload[0]}/{payload[1]}/{payload[2]}'
    tokens = ops_tokens(ctype, afi, payload, style.get('names', False), style.get('bare_eq', False))
    bracket = style.get('bracket', 'min')
    if bracket == 'always' or (bracket == 'min' and len(tokens) > 1):
        return f'{kw} [ {" ".join(tokens)} ]'
    return f'{kw} {" ".join(tokens)}'


def render(rule, path: str, style=None):
    """-> text for one of ExaBGP's three entry points.
    'api'  : `flow route { [rd X;] match { a; b; } then { x; } }`       (API.api_flow, action 'announce')
    'conf' : `flow { route r { [rd X;] match { a; b; } then { x; } } }` (neighbor section of a configuration)
    'line' : `announce ipv4 flow [rd X] a b x`                          (API.api_announce_v4/v6)
    """
    afi = rule['afi']
    items = [component_text(afi, c, p, style) for c, p in rule['comps']]
    acts = [action_text(a) for a in (rule.get('actions') or [['accept']])]
    rd = rule.get('rd')
    if path == 'line':
        fam = 'ipv4' if afi == 1 else 'ipv6'
        safi = 'flow-vpn' if rd else 'flow'
        words = [f'announce {fam} {safi}'] + ([f'rd {rd}'] if rd else []) + items + acts
        return ' '.join(words)
    match = ' '.join(i + ';' for i in items)
    then = ' '.join(a + ';' for a in acts)
    inner = (f'rd {rd}; ' if rd else '') + f'match {{ {match} }} then {{ {then} }}'
    if path == 'api':
        return f'flow route {{ {inner} }}'
    if path == 'conf':
        return f'flow {{ route verif {{ {inner} }} }}'
    raise ValueError(path)


# --------------------------------------------------------------------------------------------
# golden vectors
# --------------------------------------------------------------------------------------------


def selftest() -> int:
    """Hand-transcribed vectors (RFC 8955 4.3 examples 1-3, RFC 8956 3.8 examples 2-3, RFC 8955 4.1 length
    rule, RFC 8955 7 action layouts); each is checked in both directions.  Returns the number checked."""
    n = 0

    def both(rule, hexes, vpn=False):
        nonlocal n
        want = bytes.fromhex(hexes.replace(' ', ''))
        got = encode_nlri(rule)
        assert got == want, (rule, got.hex(), want.hex())
        rd, comps, flags, rest = decode_nlri(want, rule['afi'], vpn)
        assert rest == b'' and not flags, (rule, flags)
        assert canonical(comps, rule['afi']) == canonical(rule['comps'], rule['afi']), (comps, rule)
        n += 1

    # RFC 8955 4.3.1: "all packets to 192.0.2.0/24 and TCP port 25"
    both({'afi': 1, 'comps': [[DEST, ['192.0.2.0', 24]], [PROTO, [[0, '=', 6]]], [PORT, [[0, '=', 25]]]]},
         '0b  01 18 c0 00 02  03 81 06  04 81 19')
    # RFC 8955 4.3.2: "all packets to 192.0.2.0/24 from 203.0.113.0/24 and port {range [137, 139] or 8080}"
    both({'afi': 1, 'comps': [[DEST, ['192.0.2.0', 24]], [SRC, ['203.0.113.0', 24]],
                              [PORT, [[0, '>=', 137], [1, '<=', 139], [0, '=', 8080]]]]},
         '12  01 18 c0 00 02  02 18 cb 00 71  04 03 89 45 8b 91 1f 90')
    # RFC 8955 4.3.3: "all packets to 192.0.2.1/32 and fragment { DF or FF }"
    both({'afi': 1, 'comps': [[DEST, ['192.0.2.1', 32]], [FRAGMENT, [[0, '', 5]]]]},
         '09  01 20 c0 00 02 01  0c 80 05')
    # the brief's own vector: destination + source + port =25, given in the text out of order
    both({'afi': 1, 'comps': [[PORT, [[0, '=', 25]]], [SRC, ['203.0.113.0', 24]], [DEST, ['192.0.2.0', 24]]]},
         '0d  01 18 c0 00 02  02 18 cb 00 71  04 81 19')
    # RFC 8956 3.8.2: "all packets to ::1234:5678:9a00:0/64-104 from 2001:db8::/32"
    both({'afi': 2, 'comps': [[DEST, ['::1234:5678:9a00:0', 104, 64]], [SRC, ['2001:db8::', 32, 0]]]},
         '0f  01 68 40 12 34 56 78 9a  02 20 00 20 01 0d b8')
    # RFC 8956 3.8.3: "all packets to ::1234:5678:9a00:0/65-104": the pattern starts at bit 65, so it is the
    # 39 bits 0x123456789a without its leading 0 bit, left-aligned = 24 68 ac f1 34
    both({'afi': 2, 'comps': [[DEST, ['::1234:5678:9a00:0', 104, 65]]]},
         '08  01 68 41 24 68 ac f1 34')
    # RFC 8955 4.2.1.1: len field 0..3 -> 1, 2, 4 octets; flow label 2^20-1 takes four octets
    both({'afi': 2, 'comps': [[FLOW_LABEL, [[0, '=', 0xFFFFF]]]]}, '06  0d a1 00 0f ff ff')
    both({'afi': 1, 'comps': [[DPORT, [[0, '=', 255]]]]}, '03  05 81 ff')
    both({'afi': 1, 'comps': [[DPORT, [[0, '=', 256]]]]}, '04  05 91 01 00')
    # RFC 8955 4.2.1.2 bitmask operand: tcp-flags "match SYN+ACK exactly" / "not RST"
    both({'afi': 1, 'comps': [[TCP_FLAGS, [[0, '=', 0x12], [1, '!', 0x04]]]]}, '05  09 01 12 c2 04')
    # RFC 8955 8: flow-vpn carries the 8 octet RD first, inside the NLRI length
    both({'afi': 1, 'rd': '65000:1', 'comps': [[SRC, ['10.0.0.0', 8]]]}, '0b  0000fde800000001  02 08 0a', vpn=True)
    # RFC 8955 4.1: 239 -> ef, 240 -> f0 f0, 4095 -> ff ff, 4096 impossible
    assert encode_length(239) == b'\xef' and encode_length(240) == b'\xf0\xf0' and encode_length(241) == b'\xf0\xf1'
    assert encode_length(4094) == b'\xff\xfe' and encode_length(4095) == b'\xff\xff'
    assert decode_length(b'\xf1\x00') == (256, 2) and decode_length(b'\xef') == (239, 1)
    try:
        encode_length(4096)
        raise AssertionError('4096 encoded')
    except Unencodable:
        pass
    n += 3
    # malformed inputs
    for bad, afi in (('03 0e 81 00', 1), ('03 0d 81 00', 1), ('03 05 01 50', 1), ('02 05 91', 1), ('02 01 21', 1), ('03 01 18 c0', 1)):
        try:
            decode_nlri(bytes.fromhex(bad.replace(' ', '')), afi, False)
            raise AssertionError(f'accepted {bad}')
        except Malformed:
            n += 1
    # RFC 8955 7: traffic-rate 0x8006 (2-octet AS, IEEE float), traffic-action 0x8007 (S=bit 46, T=bit 47),
    # rt-redirect 0x8008 / 0x8108 / 0x8208, traffic-marking 0x8009; 9600.0 = 0x46160000
    ext, ext6, nh = action_communities([['rate-limit', 9600], ['action', 'sample-terminal'], ['redirect-as', 65000, 100],
                                        ['redirect-ip', '1.2.3.4', 5678], ['redirect-as', 4200000000, 7], ['mark', 10],
                                        ['discard'], ['copy', '1.2.3.4']])
    assert set(ext) == {'8006000046160000', '8007000000000003', '8008fde800000064', '810801020304162e',
                        '8208fa56ea000007', '800900000000000a', '8006000000000000', '0800000000000001'}, ext
    assert nh == '1.2.3.4' and ext6 == []
    n += 8
    # text
    r = {'afi': 1, 'rd': '65000:1', 'comps': [[SRC, ['10.0.0.0', 8]], [DPORT, [[0, '=', 80], [0, '>', 1024], [1, '<', 2000]]]],
         'actions': [['discard']]}
    assert render(r, 'api') == 'flow route { rd 65000:1; match { source 10.0.0.0/8; destination-port [ =80 >1024&<2000 ]; } then { discard; } }'
    assert render(r, 'line') == 'announce ipv4 flow-vpn rd 65000:1 source 10.0.0.0/8 destination-port [ =80 >1024&<2000 ] discard'
    n += 2
    return n


if __name__ == '__main__':
    print('flowspec reference selftest:', selftest(), 'vectors')
