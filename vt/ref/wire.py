"""Reference BGP wire codec, written from the RFC texts (4271, 4760, 6793, 7911, 8277, 4364,
4659, 8950, 1997, 4360, 8092, 4456, 7311, 2918, 7313, 5492, 9072).  Does not import exabgp.

Abstract values are plain Python data so they can be compared, hashed and dumped as JSON.

NLRI    : (afi, safi, path_id|None, labels(tuple)|None, rd(hex str)|None, prefix(hex str of the
           minimal bytes), masklen)
UPDATE  : {'withdrawn': [NLRI], 'nlri': [NLRI], 'attrs': {code: value}, 'raw_attrs': [(flags, code,
           bytes)], 'mp_reach': [(afi, safi, nexthop(str), [NLRI])], 'mp_unreach': [(afi, safi, [NLRI])]}
"""

from __future__ import annotations

import ipaddress
import struct

MARKER = b'\xff' * 16

OPEN, UPDATE, NOTIFICATION, KEEPALIVE, ROUTE_REFRESH = 1, 2, 3, 4, 5

AFI_IPV4, AFI_IPV6 = 1, 2
SAFI_UNICAST, SAFI_MULTICAST, SAFI_LABEL, SAFI_VPN, SAFI_FLOW, SAFI_FLOWVPN = 1, 2, 4, 128, 133, 134

F_OPTIONAL, F_TRANSITIVE, F_PARTIAL, F_EXTLEN = 0x80, 0x40, 0x20, 0x10

ORIGIN, AS_PATH, NEXT_HOP, MED, LOCAL_PREF, ATOMIC_AGGREGATE, AGGREGATOR = 1, 2, 3, 4, 5, 6, 7
COMMUNITIES, ORIGINATOR_ID, CLUSTER_LIST, MP_REACH, MP_UNREACH, EXT_COMMUNITIES = 8, 9, 10, 14, 15, 16
AS4_PATH, AS4_AGGREGATOR, AIGP, LARGE_COMMUNITIES = 17, 18, 26, 32

AS_SET, AS_SEQUENCE, CONFED_SEQUENCE, CONFED_SET = 1, 2, 3, 4
AS_TRANS = 23456

# canonical flags a sender uses (RFC 4271 5, etc.)
CANON_FLAGS = {
    ORIGIN: F_TRANSITIVE,
    AS_PATH: F_TRANSITIVE,
    NEXT_HOP: F_TRANSITIVE,
    MED: F_OPTIONAL,
    LOCAL_PREF: F_TRANSITIVE,
    ATOMIC_AGGREGATE: F_TRANSITIVE,
    AGGREGATOR: F_OPTIONAL | F_TRANSITIVE,
    COMMUNITIES: F_OPTIONAL | F_TRANSITIVE,
    ORIGINATOR_ID: F_OPTIONAL,
    CLUSTER_LIST: F_OPTIONAL,
    MP_REACH: F_OPTIONAL,
    MP_UNREACH: F_OPTIONAL,
    EXT_COMMUNITIES: F_OPTIONAL | F_TRANSITIVE,
    AS4_PATH: F_OPTIONAL | F_TRANSITIVE,
    AS4_AGGREGATOR: F_OPTIONAL | F_TRANSITIVE,
    AIGP: F_OPTIONAL,
    LARGE_COMMUNITIES: F_OPTIONAL | F_TRANSITIVE,
}


class RefError(Exception):
    """A located RFC error: (code, subcode)."""

    def __init__(self, code: int, subcode: int, msg: str = '') -> None:
        Exception.__init__(self, f'{code}/{subcode} {msg}')
        self.code = code
        self.subcode = subcode
        self.msg = msg


# --------------------------------------------------------------------------------------------
# framing
# --------------------------------------------------------------------------------------------


def frame(mtype: int, body: bytes) -> bytes:
    return MARKER + struct.pack('!HB', 19 + len(body), mtype) + body


MIN_LEN = {OPEN: 29, UPDATE: 23, NOTIFICATION: 21, KEEPALIVE: 19, ROUTE_REFRESH: 23}


def split_stream(data: bytes, max_size: int = 4096):
    """Split a byte stream into [(type, body)] and the first header error (or None) and leftover.

    Returns (messages, error, rest) where error is None or (code, subcode, data)."""
    out = []
    pos = 0
    while len(data) - pos >= 19:
        hdr = data[pos : pos + 19]
        if hdr[:16] != MARKER:
            return out, (1, 1, b''), b''
        length, mtype = struct.unpack('!HB', hdr[16:19])
        if length < 19 or length > max_size:
            return out, (1, 2, hdr[16:18]), b''
        if mtype in MIN_LEN:
            if length < MIN_LEN[mtype] or (mtype == KEEPALIVE and length != 19):
                return out, (1, 2, hdr[16:18]), b''
        if len(data) - pos < length:
            break
        out.append((mtype, data[pos + 19 : pos + length]))
        pos += length
    return out, None, data[pos:]


# --------------------------------------------------------------------------------------------
# prefixes / NLRI
# --------------------------------------------------------------------------------------------


def prefix_bytes(addr: str, mask: int) -> bytes:
    ip = ipaddress.ip_address(addr)
    return ip.packed[: (mask + 7) // 8]


def nlri_ip(afi: int, safi: int, addr: str, mask: int, path_id=None, labels=None, rd=None):
    """Build an abstract NLRI."""
    return (
        afi,
        safi,
        path_id,
        tuple(labels) if labels is not None else None,
        rd.hex() if isinstance(rd, (bytes, bytearray)) else rd,
        prefix_bytes(addr, mask).hex(),
        mask,
    )


def nlri_str(n) -> str:
    afi, safi, pid, labels, rd, pfx, mask = n
    raw = bytes.fromhex(pfx)
    size = 4 if afi == AFI_IPV4 else 16
    ip = ipaddress.ip_address(raw + bytes(size - len(raw)))
    s = f'{ip}/{mask}'
    if labels is not None:
        s += f' label {list(labels)}'
    if rd is not None:
        s += f' rd {rd}'
    if pid is not None:
        s += f' path-id {pid}'
    return f'{afi}/{safi} {s}'


def rd_type0(asn: int, num: int) -> bytes:
    return struct.pack('!HHL', 0, asn, num)


def rd_type1(ip: str, num: int) -> bytes:
    return struct.pack('!H', 1) + ipaddress.ip_address(ip).packed + struct.pack('!H', num)


def rd_type2(asn: int, num: int) -> bytes:
    return struct.pack('!HLH', 2, asn, num)


def encode_label(label: int, bottom: bool) -> bytes:
    v = (label << 4) | (1 if bottom else 0)
    return bytes([(v >> 16) & 0xFF, (v >> 8) & 0xFF, v & 0xFF])


def encode_nlri(n, addpath: bool) -> bytes:
    afi, safi, pid, labels, rd, pfx, mask = n
    out = b''
    if addpath:
        out += struct.pack('!L', pid or 0)
    body = b''
    bits = mask
    if labels is not None:
        for i, lab in enumerate(labels):
            body += encode_label(lab, i == len(labels) - 1)
        bits += 24 * len(labels)
    if rd is not None:
        body += bytes.fromhex(rd)
        bits += 64
    body += bytes.fromhex(pfx)
    return out + bytes([bits]) + body


def decode_nlris(data: bytes, afi: int, safi: int, addpath: bool, withdraw: bool = False, err=(3, 10)):
    """Strict decode of a run of NLRIs of one family."""
    out = []
    pos = 0
    maxbits = 32 if afi == AFI_IPV4 else 128
    while pos < len(data):
        pid = None
        if addpath:
            if len(data) - pos < 4:
                raise RefError(err[0], err[1], 'truncated path identifier')
            pid = struct.unpack('!L', data[pos : pos + 4])[0]
            pos += 4
        if pos >= len(data):
            raise RefError(err[0], err[1], 'missing prefix length')
        bits = data[pos]
        pos += 1
        nbytes = (bits + 7) // 8
        if len(data) - pos < nbytes:
            raise RefError(err[0], err[1], 'prefix overruns the field')
        raw = data[pos : pos + nbytes]
        pos += nbytes
        labels = None
        rd = None
        rpos = 0
        if safi in (SAFI_LABEL, SAFI_VPN):
            labels = []
            while True:
                if bits < 24 or len(raw) - rpos < 3:
                    raise RefError(err[0], err[1], 'truncated label')
                v = (raw[rpos] << 16) | (raw[rpos + 1] << 8) | raw[rpos + 2]
                rpos += 3
                bits -= 24
                labels.append(v >> 4)
                if v & 1:
                    break
                # RFC 8277 2.4: withdraw may carry 0x800000 or 0x000000 as a single compat label
                if withdraw and v in (0x800000, 0x000000):
                    break
            labels = tuple(labels)
        if safi == SAFI_VPN:
            if bits < 64 or len(raw) - rpos < 8:
                raise RefError(err[0], err[1], 'truncated route distinguisher')
            rd = raw[rpos : rpos + 8].hex()
            rpos += 8
            bits -= 64
        if bits > maxbits:
            raise RefError(err[0], err[1], f'prefix length {bits} > {maxbits}')
        pfx = raw[rpos:]
        if len(pfx) != (bits + 7) // 8:
            raise RefError(err[0], err[1], 'prefix byte count mismatch')
        out.append((afi, safi, pid, labels, rd, pfx.hex(), bits))
    return out


def nlri_key(n, with_labels: bool = False):
    """Key identifying a route in a peer's table (labels are not part of the key, RFC 8277)."""
    afi, safi, pid, labels, rd, pfx, mask = n
    # prefix bytes beyond mask bits are insignificant: normalise
    raw = bytearray(bytes.fromhex(pfx))
    if mask % 8 and raw:
        raw[-1] &= (0xFF << (8 - mask % 8)) & 0xFF
    return (afi, safi, pid, rd, bytes(raw).hex(), mask)


# --------------------------------------------------------------------------------------------
# attributes
# --------------------------------------------------------------------------------------------


def encode_attr(code: int, value: bytes, flags: int | None = None, extended: bool | None = None) -> bytes:
    if flags is None:
        flags = CANON_FLAGS.get(code, F_OPTIONAL | F_TRANSITIVE)
    if extended is None:
        extended = len(value) > 255
    if extended:
        return bytes([flags | F_EXTLEN, code]) + struct.pack('!H', len(value)) + value
    return bytes([flags & ~F_EXTLEN, code, len(value)]) + value


def encode_as_path(segments, asn4: bool) -> bytes:
    out = b''
    for stype, asns in segments:
        # RFC 4271: a segment holds at most 255 ASes
        asns = list(asns)
        while True:
            chunk, asns = asns[:255], asns[255:]
            out += bytes([stype, len(chunk)])
            for a in chunk:
                out += struct.pack('!L' if asn4 else '!H', a)
            if not asns:
                break
    return out


def decode_as_path(data: bytes, asn4: bool):
    segs = []
    pos = 0
    size = 4 if asn4 else 2
    while pos < len(data):
        if len(data) - pos < 2:
            raise RefError(3, 11, 'truncated segment header')
        stype, count = data[pos], data[pos + 1]
        pos += 2
        if stype not in (1, 2, 3, 4):
            raise RefError(3, 11, f'segment type {stype}')
        if count == 0:
            raise RefError(3, 11, 'zero-length segment')
        if len(data) - pos < count * size:
            raise RefError(3, 11, 'segment overruns attribute')
        asns = [int.from_bytes(data[pos + i * size : pos + (i + 1) * size], 'big') for i in range(count)]
        pos += count * size
        segs.append((stype, tuple(asns)))
    return tuple(segs)


def merge_segments(segs):
    """Concatenate adjacent segments of the same type when that is unambiguous for comparison
    (a sender may split a long SEQUENCE in several segments)."""
    out = []
    for stype, asns in segs:
        if out and out[-1][0] == stype and stype in (AS_SEQUENCE, CONFED_SEQUENCE):
            out[-1] = (stype, out[-1][1] + tuple(asns))
        else:
            out.append((stype, tuple(asns)))
    return tuple(out)


def path_length(segs) -> int:
    """RFC 4271 9.1.2.2 / RFC 6793 4.2.3 path length: SET counts 1, confed segments count 0."""
    n = 0
    for stype, asns in segs:
        if stype == AS_SEQUENCE:
            n += len(asns)
        elif stype == AS_SET:
            n += 1
    return n


def _units(segs, mode):
    n = 0
    for stype, asns in segs:
        if stype == AS_SEQUENCE:
            n += len(asns)
        elif stype == AS_SET:
            n += 1 if mode == 'length' else len(asns)
    return n


def merge_as4(as_path, as4_path, mode: str = 'length'):
    """RFC 6793 4.2.3 reconstruction of the AS path from AS_PATH and AS4_PATH.

    mode 'length': an AS_SET counts for one (path-length arithmetic, what deployed speakers do);
    mode 'asn'   : every AS number counts (the literal text).  Callers accept either result."""
    if as4_path is None:
        return merge_segments(as_path)
    # confederation segments in AS4_PATH are discarded by the receiver (RFC 6793 3, 6)
    as4 = tuple((t, tuple(a)) for t, a in as4_path if t in (AS_SET, AS_SEQUENCE))
    n2, n4 = _units(as_path, mode), _units(as4, mode)
    if n2 < n4:
        return merge_segments(as_path)
    need = n2 - n4
    lead = []
    for stype, asns in as_path:
        asns = tuple(asns)
        if stype in (CONFED_SEQUENCE, CONFED_SET):
            # kept when leading or adjacent to a prepended segment, i.e. while still collecting
            if need > 0 or not lead:
                lead.append((stype, asns))
                continue
            break
        if need <= 0:
            break
        if stype == AS_SET:
            lead.append((stype, asns))
            need -= 1 if mode == 'length' else len(asns)
        else:
            take = asns[:need]
            lead.append((stype, take))
            need -= len(take)
    return merge_segments(tuple(lead) + as4)


def decode_attr_value(code: int, value: bytes, asn4: bool):
    """Strict decode of the value of a recognised attribute -> abstract value."""
    if code == ORIGIN:
        if len(value) != 1:
            raise RefError(3, 5, 'ORIGIN length')
        if value[0] > 2:
            raise RefError(3, 6, 'ORIGIN value')
        return value[0]
    if code == AS_PATH:
        return decode_as_path(value, asn4)
    if code == AS4_PATH:
        return decode_as_path(value, True)
    if code == NEXT_HOP:
        if len(value) != 4:
            raise RefError(3, 5, 'NEXT_HOP length')
        return str(ipaddress.ip_address(value))
    if code in (MED, LOCAL_PREF):
        if len(value) != 4:
            raise RefError(3, 5, 'length')
        return struct.unpack('!L', value)[0]
    if code == ATOMIC_AGGREGATE:
        if len(value) != 0:
            raise RefError(3, 5, 'ATOMIC_AGGREGATE length')
        return True
    if code == AGGREGATOR:
        want = 8 if asn4 else 6
        if len(value) != want:
            raise RefError(3, 5, 'AGGREGATOR length')
        asn = int.from_bytes(value[:-4], 'big')
        return (asn, str(ipaddress.ip_address(value[-4:])))
    if code == AS4_AGGREGATOR:
        if len(value) != 8:
            raise RefError(3, 5, 'AS4_AGGREGATOR length')
        return (int.from_bytes(value[:4], 'big'), str(ipaddress.ip_address(value[4:])))
    if code == COMMUNITIES:
        if len(value) % 4 or not value:
            raise RefError(3, 5, 'COMMUNITIES length')
        return tuple(struct.unpack('!L', value[i : i + 4])[0] for i in range(0, len(value), 4))
    if code == ORIGINATOR_ID:
        if len(value) != 4:
            raise RefError(3, 5, 'ORIGINATOR_ID length')
        return str(ipaddress.ip_address(value))
    if code == CLUSTER_LIST:
        if len(value) % 4 or not value:
            raise RefError(3, 5, 'CLUSTER_LIST length')
        return tuple(str(ipaddress.ip_address(value[i : i + 4])) for i in range(0, len(value), 4))
    if code == EXT_COMMUNITIES:
        if len(value) % 8 or not value:
            raise RefError(3, 5, 'EXTENDED_COMMUNITIES length')
        return tuple(value[i : i + 8].hex() for i in range(0, len(value), 8))
    if code == LARGE_COMMUNITIES:
        if len(value) % 12 or not value:
            raise RefError(3, 5, 'LARGE_COMMUNITIES length')
        return tuple(struct.unpack('!LLL', value[i : i + 12]) for i in range(0, len(value), 12))
    if code == AIGP:
        # RFC 7311: TLVs; type 1 length 11 carries the metric
        pos = 0
        metric = None
        while pos < len(value):
            if len(value) - pos < 3:
                raise RefError(3, 1, 'AIGP TLV truncated')
            t, ln = value[pos], struct.unpack('!H', value[pos + 1 : pos + 3])[0]
            if ln < 3 or pos + ln > len(value):
                raise RefError(3, 1, 'AIGP TLV length')
            if t == 1:
                if ln != 11:
                    raise RefError(3, 1, 'AIGP TLV length')
                if metric is None:
                    metric = struct.unpack('!Q', value[pos + 3 : pos + 11])[0]
            pos += ln
        return metric
    return value.hex()


def encode_attr_value(code: int, v, asn4: bool) -> bytes:
    if code == ORIGIN:
        return bytes([v])
    if code == AS_PATH:
        return encode_as_path(v, asn4)
    if code == AS4_PATH:
        return encode_as_path(v, True)
    if code in (NEXT_HOP, ORIGINATOR_ID):
        return ipaddress.ip_address(v).packed
    if code in (MED, LOCAL_PREF):
        return struct.pack('!L', v)
    if code == ATOMIC_AGGREGATE:
        return b''
    if code == AGGREGATOR:
        return struct.pack('!L' if asn4 else '!H', v[0]) + ipaddress.ip_address(v[1]).packed
    if code == AS4_AGGREGATOR:
        return struct.pack('!L', v[0]) + ipaddress.ip_address(v[1]).packed
    if code == COMMUNITIES:
        return b''.join(struct.pack('!L', c) for c in v)
    if code == CLUSTER_LIST:
        return b''.join(ipaddress.ip_address(c).packed for c in v)
    if code == EXT_COMMUNITIES:
        return b''.join(bytes.fromhex(c) for c in v)
    if code == LARGE_COMMUNITIES:
        return b''.join(struct.pack('!LLL', *c) for c in v)
    if code == AIGP:
        return b'\x01' + struct.pack('!H', 11) + struct.pack('!Q', v)
    if isinstance(v, str):
        return bytes.fromhex(v)
    return bytes(v)


def decode_nexthop(afi: int, safi: int, nh: bytes) -> str:
    """Next hop field of MP_REACH_NLRI -> canonical string ('a' or 'a+linklocal')."""
    if safi == SAFI_VPN:
        # RFC 4364 / 4659: RD of zero precedes each address
        if len(nh) in (12, 24, 48):
            if len(nh) == 12:
                if nh[:8] != bytes(8):
                    raise RefError(3, 9, 'VPN next hop RD not zero')
                return str(ipaddress.ip_address(nh[8:12]))
            if len(nh) == 24:
                if nh[:8] != bytes(8):
                    raise RefError(3, 9, 'VPN next hop RD not zero')
                return str(ipaddress.ip_address(nh[8:24]))
            if nh[:8] != bytes(8) or nh[24:32] != bytes(8):
                raise RefError(3, 9, 'VPN next hop RD not zero')
            return f'{ipaddress.ip_address(nh[8:24])}+{ipaddress.ip_address(nh[32:48])}'
        raise RefError(3, 9, f'VPN next hop length {len(nh)}')
    if len(nh) == 4:
        return str(ipaddress.ip_address(nh))
    if len(nh) == 16:
        return str(ipaddress.ip_address(nh))
    if len(nh) == 32:
        return f'{ipaddress.ip_address(nh[:16])}+{ipaddress.ip_address(nh[16:])}'
    raise RefError(3, 9, f'next hop length {len(nh)}')


def encode_nexthop(afi: int, safi: int, nh: str) -> bytes:
    parts = nh.split('+')
    out = b''
    for p in parts:
        if safi == SAFI_VPN:
            out += bytes(8)
        out += ipaddress.ip_address(p).packed
    return out


def decode_mp_reach(value: bytes, addpath_for, err=(3, 9)):
    if len(value) < 5:
        raise RefError(3, 9, 'MP_REACH too short')
    afi, safi, nhlen = struct.unpack('!HBB', value[:4])
    if len(value) < 4 + nhlen + 1:
        raise RefError(3, 9, 'MP_REACH next hop overruns')
    nh = value[4 : 4 + nhlen]
    # one reserved byte
    rest = value[4 + nhlen + 1 :]
    nlris = decode_nlris(rest, afi, safi, addpath_for(afi, safi), err=(3, 9))
    return (afi, safi, decode_nexthop(afi, safi, nh), nlris)


def decode_mp_unreach(value: bytes, addpath_for):
    if len(value) < 3:
        raise RefError(3, 9, 'MP_UNREACH too short')
    afi, safi = struct.unpack('!HB', value[:3])
    nlris = decode_nlris(value[3:], afi, safi, addpath_for(afi, safi), withdraw=True, err=(3, 9))
    return (afi, safi, nlris)


def encode_mp_reach(afi: int, safi: int, nh: str, nlris, addpath: bool) -> bytes:
    nhb = encode_nexthop(afi, safi, nh)
    return struct.pack('!HBB', afi, safi, len(nhb)) + nhb + b'\x00' + b''.join(encode_nlri(n, addpath) for n in nlris)


def encode_mp_unreach(afi: int, safi: int, nlris, addpath: bool) -> bytes:
    return struct.pack('!HB', afi, safi) + b''.join(encode_nlri(n, addpath) for n in nlris)


def walk_attrs(block: bytes):
    """Split the path attribute block into [(flags, code, value)]; strict about lengths."""
    out = []
    pos = 0
    while pos < len(block):
        if len(block) - pos < 3:
            raise RefError(3, 1, 'attribute header truncated')
        flags, code = block[pos], block[pos + 1]
        if flags & F_EXTLEN:
            if len(block) - pos < 4:
                raise RefError(3, 1, 'attribute header truncated')
            ln = struct.unpack('!H', block[pos + 2 : pos + 4])[0]
            pos += 4
        else:
            ln = block[pos + 2]
            pos += 3
        if len(block) - pos < ln:
            raise RefError(3, 1, f'attribute {code} length {ln} overruns the block')
        out.append((flags, code, block[pos : pos + ln]))
        pos += ln
    return out


def decode_update(body: bytes, asn4: bool = True, addpath=frozenset(), check_flags: bool = True):
    """Strict decode of an UPDATE body. `addpath` is the set of (afi, safi) whose NLRIs carry a
    path identifier in this direction."""

    def ap(afi, safi):
        return (afi, safi) in addpath

    if len(body) < 4:
        raise RefError(3, 1, 'UPDATE too short')
    wlen = struct.unpack('!H', body[:2])[0]
    if 2 + wlen + 2 > len(body):
        raise RefError(3, 1, 'withdrawn routes length overruns')
    withdrawn_raw = body[2 : 2 + wlen]
    alen = struct.unpack('!H', body[2 + wlen : 4 + wlen])[0]
    if 4 + wlen + alen > len(body):
        raise RefError(3, 1, 'attribute length overruns')
    attrs_raw = body[4 + wlen : 4 + wlen + alen]
    nlri_raw = body[4 + wlen + alen :]
    upd = {
        'withdrawn': decode_nlris(withdrawn_raw, AFI_IPV4, SAFI_UNICAST, ap(1, 1), withdraw=True, err=(3, 1)),
        'nlri': decode_nlris(nlri_raw, AFI_IPV4, SAFI_UNICAST, ap(1, 1), err=(3, 10)),
        'attrs': {},
        'raw_attrs': [],
        'mp_reach': [],
        'mp_unreach': [],
    }
    seen = set()
    for flags, code, value in walk_attrs(attrs_raw):
        if code in seen:
            raise RefError(3, 1, f'attribute {code} appears twice')
        seen.add(code)
        upd['raw_attrs'].append((flags, code, value.hex()))
        if check_flags and code in CANON_FLAGS:
            want = CANON_FLAGS[code]
            got = flags & (F_OPTIONAL | F_TRANSITIVE)
            if got != want & (F_OPTIONAL | F_TRANSITIVE):
                raise RefError(3, 4, f'attribute {code} flags {flags:#x}')
        if code == MP_REACH:
            upd['mp_reach'].append(decode_mp_reach(value, ap))
        elif code == MP_UNREACH:
            upd['mp_unreach'].append(decode_mp_unreach(value, ap))
        else:
            upd['attrs'][code] = decode_attr_value(code, value, asn4)
    return upd


def encode_update(withdrawn=(), attrs=(), nlri=(), addpath_v4: bool = False) -> bytes:
    """attrs: already-encoded attribute TLVs (bytes) in the order wanted."""
    w = b''.join(encode_nlri(n, addpath_v4) for n in withdrawn)
    a = b''.join(attrs)
    n = b''.join(encode_nlri(x, addpath_v4) for x in nlri)
    return struct.pack('!H', len(w)) + w + struct.pack('!H', len(a)) + a + n


def is_eor(body: bytes):
    """Return the (afi, safi) an End-of-RIB marker is for, or None (RFC 4724 2): an UPDATE with no
    reachable NLRI and empty withdrawn NLRI (IPv4 unicast), or one holding only an empty MP_UNREACH_NLRI."""
    if body == b'\x00\x00\x00\x00':
        return (1, 1)
    if len(body) < 4 or body[:2] != b'\x00\x00':
        return None
    alen = struct.unpack('!H', body[2:4])[0]
    if 4 + alen != len(body):
        return None
    attrs = body[4:]
    if len(attrs) == 6 and attrs[0] & F_OPTIONAL and not attrs[0] & F_EXTLEN and attrs[1] == MP_UNREACH and attrs[2] == 3:
        return (struct.unpack('!H', attrs[3:5])[0], attrs[5])
    if len(attrs) == 7 and attrs[0] & F_OPTIONAL and attrs[0] & F_EXTLEN and attrs[1] == MP_UNREACH and attrs[2:4] == b'\x00\x03':
        return (struct.unpack('!H', attrs[4:6])[0], attrs[6])
    return None


# --------------------------------------------------------------------------------------------
# OPEN
# --------------------------------------------------------------------------------------------

CAP_MP, CAP_RR, CAP_EXT_NH, CAP_EXT_MSG, CAP_GR, CAP_ASN4, CAP_ADDPATH, CAP_ERR, CAP_HOSTNAME = (
    1,
    2,
    5,
    6,
    64,
    65,
    69,
    70,
    73,
)
CAP_RR_CISCO = 128


def cap_mp(afi: int, safi: int) -> tuple[int, bytes]:
    return (CAP_MP, struct.pack('!HBB', afi, 0, safi))


def cap_asn4(asn: int) -> tuple[int, bytes]:
    return (CAP_ASN4, struct.pack('!L', asn))


def cap_addpath(entries) -> tuple[int, bytes]:
    """entries: [(afi, safi, sendreceive)] 1=receive 2=send 3=both"""
    return (CAP_ADDPATH, b''.join(struct.pack('!HBB', a, s, d) for a, s, d in entries))


def cap_ext_nh(entries) -> tuple[int, bytes]:
    """entries: [(nlri afi, nlri safi, nexthop afi)] RFC 8950"""
    return (CAP_EXT_NH, b''.join(struct.pack('!HHH', a, s, n) for a, s, n in entries))


def encode_open(asn2: int, hold: int, router_id: str, caps, version: int = 4, style: str = 'one-per-param') -> bytes:
    """caps: [(code, value bytes)] ; style: 'one-per-param' | 'all-in-one' | 'extended' (RFC 9072)"""
    tlvs = [bytes([c, len(v)]) + v for c, v in caps]
    if style == 'all-in-one':
        blob = b''.join(tlvs)
        params = [(2, blob)] if blob else []
    else:
        params = [(2, t) for t in tlvs]
    if style == 'extended':
        p = b''.join(bytes([t]) + struct.pack('!H', len(v)) + v for t, v in params)
        opt = bytes([255, 255]) + struct.pack('!H', len(p)) + p
    else:
        p = b''.join(bytes([t, len(v)]) + v for t, v in params)
        opt = bytes([len(p)]) + p
    return bytes([version]) + struct.pack('!HH', asn2, hold) + ipaddress.ip_address(router_id).packed + opt


def decode_open(body: bytes):
    """-> {'version','asn','hold','router_id','caps': [(code, bytes)]}"""
    if len(body) < 10:
        raise RefError(1, 2, 'OPEN too short')
    version = body[0]
    asn, hold = struct.unpack('!HH', body[1:5])
    rid = str(ipaddress.ip_address(body[5:9]))
    optlen = body[9]
    pos = 10
    extended = False
    if optlen == 255 and len(body) >= 13 and body[10] == 255:
        extended = True
        optlen = struct.unpack('!H', body[11:13])[0]
        pos = 13
    if pos + optlen != len(body):
        raise RefError(2, 0, 'optional parameter length mismatch')
    caps = []
    end = pos + optlen
    while pos < end:
        if extended:
            if end - pos < 3:
                raise RefError(2, 0, 'parameter header truncated')
            ptype, plen = body[pos], struct.unpack('!H', body[pos + 1 : pos + 3])[0]
            pos += 3
        else:
            if end - pos < 2:
                raise RefError(2, 0, 'parameter header truncated')
            ptype, plen = body[pos], body[pos + 1]
            pos += 2
        if pos + plen > end:
            raise RefError(2, 0, 'parameter overruns')
        pval = body[pos : pos + plen]
        pos += plen
        if ptype != 2:
            raise RefError(2, 4, f'unsupported optional parameter {ptype}')
        cpos = 0
        while cpos < len(pval):
            if len(pval) - cpos < 2:
                raise RefError(2, 0, 'capability header truncated')
            code, clen = pval[cpos], pval[cpos + 1]
            cpos += 2
            if cpos + clen > len(pval):
                raise RefError(2, 0, 'capability overruns')
            caps.append((code, pval[cpos : cpos + clen]))
            cpos += clen
    return {'version': version, 'asn': asn, 'hold': hold, 'router_id': rid, 'caps': caps, 'extended': extended}


def caps_summary(caps):
    """Interpret a capability list -> dict used by ref.negotiate."""
    out = {
        'families': [],
        'asn4': None,
        'addpath': {},
        'ext_nh': [],
        'rr': False,
        'err': False,
        'ext_msg': False,
        'gr': None,
        'unknown': [],
    }
    for code, v in caps:
        if code == CAP_MP and len(v) == 4:
            afi, _, safi = struct.unpack('!HBB', v)
            if (afi, safi) not in out['families']:
                out['families'].append((afi, safi))
        elif code == CAP_ASN4 and len(v) == 4:
            out['asn4'] = struct.unpack('!L', v)[0]
        elif code == CAP_ADDPATH:
            for i in range(0, len(v) - 3, 4):
                a, s, d = struct.unpack('!HBB', v[i : i + 4])
                out['addpath'][(a, s)] = d
        elif code == CAP_EXT_NH:
            for i in range(0, len(v) - 5, 6):
                out['ext_nh'].append(struct.unpack('!HHH', v[i : i + 6]))
        elif code in (CAP_RR, CAP_RR_CISCO):
            out['rr'] = True
        elif code == CAP_ERR:
            out['err'] = True
        elif code == CAP_EXT_MSG:
            out['ext_msg'] = True
        elif code == CAP_GR:
            out['gr'] = v.hex()
        else:
            out['unknown'].append((code, v.hex()))
    return out


def encode_open_9072(asn2: int, hold: int, router_id: str, caps, version: int = 4, non_ext_len: int = 255,
                     grouping: str = 'one-per-param') -> bytes:
    """RFC 9072 section 2 extended encoding with a chosen 'Non-Ext OP Len.' octet.  The RFC says that
    octet SHOULD be 255, MUST NOT be 0 and MUST be ignored by the receiver once 'Non-Ext OP Type' is 255."""
    if not 1 <= non_ext_len <= 255:
        raise ValueError('Non-Ext OP Len. must be 1..255')
    tlvs = [bytes([c, len(v)]) + v for c, v in caps]
    if grouping == 'all-in-one':
        blob = b''.join(tlvs)
        params = [(2, blob)] if blob else []
    else:
        params = [(2, t) for t in tlvs]
    p = b''.join(bytes([t]) + struct.pack('!H', len(v)) + v for t, v in params)
    opt = bytes([non_ext_len, 255]) + struct.pack('!H', len(p)) + p
    return bytes([version]) + struct.pack('!HH', asn2, hold) + ipaddress.ip_address(router_id).packed + opt


def decode_open_9072(body: bytes):
    """decode_open, except that the extended format is recognised the way RFC 9072 section 2 words it:
    by 'Non-Ext OP Type' == 255 alone ('Non-Ext OP Len.' is ignored on receipt, it only must not be 0)."""
    if len(body) >= 13 and body[9] not in (0, 255) and body[10] == 255:
        return decode_open(body[:9] + b'\xff' + body[10:])
    return decode_open(body)


def encode_notification(code: int, subcode: int, data: bytes = b'') -> bytes:
    return bytes([code, subcode]) + data


def encode_route_refresh(afi: int, safi: int, subtype: int = 0) -> bytes:
    return struct.pack('!HBB', afi, subtype, safi)


# --------------------------------------------------------------------------------------------
# peer table
# --------------------------------------------------------------------------------------------


class PeerTable:
    """What a conforming receiver holds after applying UPDATEs in order."""

    def __init__(self, asn4: bool = True, addpath=frozenset()) -> None:
        self.asn4 = asn4
        self.addpath = frozenset(addpath)
        self.table: dict = {}
        self.eor: list = []
        self.updates = 0
        self.refresh: list = []

    def apply_message(self, mtype: int, body: bytes) -> None:
        if mtype == UPDATE:
            self.apply_update(body)
        elif mtype == ROUTE_REFRESH and len(body) == 4:
            afi, sub, safi = struct.unpack('!HBB', body)
            self.refresh.append((afi, safi, sub))

    def apply_update(self, body: bytes) -> dict:
        e = is_eor(body)
        if e is not None:
            self.eor.append(e)
            return {}
        u = decode_update(body, self.asn4, self.addpath)
        self.updates += 1
        attrs = tuple(sorted((c, v) for c, v in u['attrs'].items() if c != NEXT_HOP))
        # withdrawals first (RFC 4271 3.1 / 9: an UPDATE should not carry both for one prefix)
        for n in u['withdrawn']:
            self.table.pop(nlri_key(n), None)
        for afi, safi, nl in u['mp_unreach']:
            for n in nl:
                self.table.pop(nlri_key(n), None)
        nh = u['attrs'].get(NEXT_HOP)
        for n in u['nlri']:
            self.table[nlri_key(n)] = (nh, attrs, n[3])
        for afi, safi, mnh, nl in u['mp_reach']:
            for n in nl:
                self.table[nlri_key(n)] = (mnh, attrs, n[3])
        return u

    def snapshot(self):
        return dict(self.table)


# --------------------------------------------------------------------------------------------
# RFC 7606 section 3 (g): repeated attributes (added for C03)
# --------------------------------------------------------------------------------------------


def drop_duplicate_attrs(body: bytes) -> bytes:
    """The UPDATE body a receiver works on after applying RFC 7606 section 3 (g): 'If any attribute
    other than MP_REACH_NLRI / MP_UNREACH_NLRI appears more than once in the UPDATE message, then all
    the occurrences of the attribute other than the first one SHALL be discarded and the UPDATE message
    will continue to be processed.'  A repeated MP_REACH / MP_UNREACH is left in place (decode_update
    then refuses it, as the RFC asks).  Raises RefError when the body does not even split."""
    if len(body) < 4:
        raise RefError(3, 1, 'UPDATE too short')
    wlen = struct.unpack('!H', body[:2])[0]
    if 2 + wlen + 2 > len(body):
        raise RefError(3, 1, 'withdrawn routes length overruns')
    alen = struct.unpack('!H', body[2 + wlen : 4 + wlen])[0]
    if 4 + wlen + alen > len(body):
        raise RefError(3, 1, 'attribute length overruns')
    seen = set()
    kept = b''
    for flags, code, value in walk_attrs(body[4 + wlen : 4 + wlen + alen]):
        if code in seen and code not in (MP_REACH, MP_UNREACH):
            continue
        seen.add(code)
        kept += encode_attr(code, value, flags=flags, extended=bool(flags & F_EXTLEN))
    return body[: 2 + wlen] + struct.pack('!H', len(kept)) + kept + body[4 + wlen + alen :]
