"""Reference OPEN negotiation, written from the RFC texts.  Does not import exabgp.

Input : two OPEN messages as decoded by vt.ref.wire (decode_open / decode_open_9072) and the two
        configured AS numbers.
Output: either the faults for which the RFCs require (or allow) the OPEN to be refused, with the
        NOTIFICATION (code, subcode) each one calls for, or - per session parameter - the SET of values
        the RFCs allow (a singleton everywhere the RFCs define the outcome; more than one value only where
        they leave it open, each such place is commented).

RFC 4271 4.2   hold time = smaller of the two; 6.2 OPEN error subcodes (1 version, 2 peer AS,
               3 BGP identifier, 4 optional parameter, 6 hold time); hold time 1 or 2 MUST be rejected.
RFC 6286 2.2   identifier 0, or equal to ours on an internal session -> Bad BGP Identifier.
RFC 4760 8     a family is usable when both sides advertised it.
RFC 6793 3/4.1 4-octet AS is in use when both sides sent the capability; the capability value *is* the
               speaker's AS number; My Autonomous System carries AS_TRANS when that does not fit.
RFC 7911 4     we may send several paths for a family iff we advertised Send (2/3) and they advertised
               Receive (1/3) for it; receive is the mirror image.
RFC 8950 4     a (NLRI AFI, NLRI SAFI, next hop AFI) tuple is usable when both sides advertised it.
RFC 2918, 7313 route refresh when both advertised code 2; enhanced when both advertised code 70.
RFC 8654 4     messages up to 65535 octets when both sides advertised code 6, else 4096.
"""

from __future__ import annotations

from vt.ref import wire

AS_TRANS = 23456
REFUSE_VERSION = (2, 1)
REFUSE_PEER_AS = (2, 2)
REFUSE_IDENTIFIER = (2, 3)
REFUSE_OPTIONAL_PARAMETER = (2, 4)
REFUSE_HOLD_TIME = (2, 6)
REFUSE_UNSPECIFIC = (2, 0)


def summarize(decoded: dict) -> dict:
    """wire.decode_open() output -> fixed fields + capability summary + every instance of the
    capabilities whose repetition is not defined by their RFC (ASN4, ADD-PATH entries)."""
    caps = decoded['caps']
    s = wire.caps_summary(caps)
    asn4_all = []
    addpath_all: dict = {}
    rr_std = rr_private = False
    mp_seen = False
    for code, v in caps:
        if code == wire.CAP_ASN4 and len(v) == 4:
            asn4_all.append(int.from_bytes(v, 'big'))
        elif code == wire.CAP_ADDPATH:
            for i in range(0, len(v) - 3, 4):
                fam = (int.from_bytes(v[i : i + 2], 'big'), v[i + 2])
                addpath_all.setdefault(fam, []).append(v[i + 3])
        elif code == wire.CAP_RR:
            rr_std = True
        elif code == wire.CAP_RR_CISCO:
            rr_private = True
        elif code == wire.CAP_MP:
            mp_seen = True
    return {
        'version': decoded['version'],
        'asn': decoded['asn'],
        'hold': decoded['hold'],
        'router_id': decoded['router_id'],
        'families': set(s['families']),
        'mp_seen': mp_seen,
        'asn4_all': asn4_all,
        'addpath_all': addpath_all,
        'ext_nh': set(tuple(t) for t in s['ext_nh']),
        'rr': rr_std,
        'rr_private': rr_private,
        'err': s['err'],
        'ext_msg': s['ext_msg'],
        'gr': s['gr'],
    }


def advertised_as(side: dict) -> int:
    """The AS number an OPEN states for its sender (RFC 6793 3): the capability value when there is one."""
    return side['asn4_all'][-1] if side['asn4_all'] else side['asn']


def expected(ours: dict, peer: dict, local_as: int, peer_as) -> dict:
    """ours / peer: summarize() of the OPEN we sent / received.  local_as: the AS we are configured with.
    peer_as: the AS the configuration expects of the peer (None: any).

    -> {'must_refuse': {fault: {(code, subcode), ...}},   the RFCs require a refusal; any of these codes
        'may_refuse':  {fault: {(code, subcode), ...}},   a refusal with these codes is also conforming
        'fields':      {name: set of allowed values}}     only meaningful when the OPEN is accepted
    """
    must: dict = {}
    may: dict = {}

    if peer['version'] != 4:
        must['version'] = {REFUSE_VERSION}

    both4 = bool(ours['asn4_all']) and bool(peer['asn4_all'])

    # -- the peer's AS number ------------------------------------------------------------------------
    # RFC 6793: between two NEW speakers the peer's AS number is the capability value.  RFC 5492 leaves
    # repeated instances of a capability to the capability's own RFC and 6793 is silent: any instance.
    candidates = sorted(set(peer['asn4_all'])) if both4 else [peer['asn']]
    acceptable_as = set()
    for c in candidates:
        if peer_as is None or c == peer_as:
            acceptable_as.add(c)
        else:
            may.setdefault('peer-as', set()).add(REFUSE_PEER_AS)
        # a 2-octet field that is neither AS_TRANS nor the capability value contradicts the capability:
        # 6793 does not say to refuse, several implementations do (Bad Peer AS); both are accepted here.
        if both4 and peer['asn'] != AS_TRANS and peer['asn'] != c:
            may.setdefault('peer-as', set()).add(REFUSE_PEER_AS)
    if not acceptable_as:
        may.pop('peer-as', None)
        must['peer-as'] = {REFUSE_PEER_AS}

    # -- BGP identifier (RFC 6286 2.2) ---------------------------------------------------------------
    if peer['router_id'] == '0.0.0.0':
        must['rid-zero'] = {REFUSE_IDENTIFIER}
    elif peer['router_id'] == ours['router_id']:
        internal = [c == local_as for c in candidates]
        if all(internal):
            must['rid-collision-ibgp'] = {REFUSE_IDENTIFIER}
        elif any(internal):
            may['rid-collision-ibgp'] = {REFUSE_IDENTIFIER}

    # -- hold time (RFC 4271 4.2 / 6.2) --------------------------------------------------------------
    if peer['hold'] in (1, 2):
        must['hold-1-2'] = {REFUSE_HOLD_TIME}

    fields: dict = {}
    inter = frozenset(ours['families'] & peer['families'])
    fields['families'] = {inter}
    if not peer['mp_seen'] and (1, 1) in ours['families']:
        # RFC 4760 8: a speaker without the capability has IPv4 unicast only - deliberately not asserted
        fields['families'].add(frozenset({(1, 1)}))
    fields['asn4'] = {both4}
    fields['local_as'] = {local_as}
    fields['peer_as'] = set(acceptable_as)

    send = {}
    recv = {}
    for fam in sorted(set(ours['addpath_all']) | set(peer['addpath_all'])):
        mine = ours['addpath_all'].get(fam, [0])
        theirs = peer['addpath_all'].get(fam, [0])
        # RFC 7911 4 wants one instance listing every family; what a repeated family means is undefined,
        # so every instance is an allowed reading
        send[fam] = {bool(m & 2) and bool(t & 1) for m in mine for t in theirs}
        recv[fam] = {bool(m & 1) and bool(t & 2) for m in mine for t in theirs}
    fields['addpath_send'] = send
    fields['addpath_receive'] = recv

    fields['nexthop'] = {frozenset(ours['ext_nh'] & peer['ext_nh'])}

    if ours['err'] and peer['err']:
        fields['refresh'] = {'enhanced'}
    elif ours['rr'] and peer['rr']:
        fields['refresh'] = {'normal'}
    else:
        fields['refresh'] = {'absent'}
        if (ours['rr'] or ours['rr_private']) and (peer['rr'] or peer['rr_private']):
            fields['refresh'].add('normal')  # pre-standard code 128: in no RFC, either reading

    fields['msg_size'] = {65535 if ours['ext_msg'] and peer['ext_msg'] else 4096}
    fields['holdtime'] = {min(ours['hold'], peer['hold'])}
    return {'must_refuse': must, 'may_refuse': may, 'fields': fields}


def expected_unparsable(err: wire.RefError) -> dict:
    """The peer OPEN does not parse.  RFC 4271 6.2: an unrecognised optional parameter MUST give subcode 4;
    no subcode is named for lengths that do not add up: 0 (Unspecific), and 4 is tolerated."""
    if (err.code, err.subcode) == REFUSE_OPTIONAL_PARAMETER:
        return {'must_refuse': {'unknown-parameter': {REFUSE_OPTIONAL_PARAMETER}}, 'may_refuse': {}, 'fields': {}}
    return {'must_refuse': {'malformed-parameters': {REFUSE_UNSPECIFIC, REFUSE_OPTIONAL_PARAMETER}}, 'may_refuse': {}, 'fields': {}}


def judge(exp: dict, observed) -> list:
    """observed: ('refused', code, subcode) | ('ok', {field: value}) | ('exception', type, text)
    -> [(kind, detail)]; kind is a stable class name."""
    out = []
    must, may = exp['must_refuse'], exp['may_refuse']
    if observed[0] == 'exception':
        return [('exception:%s' % observed[1], 'the implementation raised %s: %s' % (observed[1], observed[2]))]
    if observed[0] == 'refused':
        got = (observed[1], observed[2])
        allowed = set()
        for codes in list(must.values()) + list(may.values()):
            allowed |= codes
        if got in allowed:
            return []
        if must:
            names = '+'.join(sorted(must))
            return [('wrong-subcode:%s:got-%d/%d' % (names, got[0], got[1]),
                     'refused with %d/%d, the RFC subcodes for %s are %s' % (got[0], got[1], names, sorted(allowed)))]
        return [('refused-valid:%d/%d' % got, 'a conforming OPEN was refused with %d/%d' % got)]
    if must:
        names = '+'.join(sorted(must))
        return [('not-refused:%s' % names, 'accepted, the RFCs require a refusal with %s' % sorted(set().union(*must.values())))]
    obs = observed[1]
    f = exp['fields']
    for name in ('families', 'nexthop'):
        got = frozenset(obs[name])
        if len(obs[name]) != len(got):
            out.append(('param:%s:duplicate-entry' % name, '%s lists an entry twice: %s' % (name, sorted(obs[name]))))
        if got not in f[name]:
            want = sorted(f[name], key=sorted)[0]
            shape = 'extra' if got - want and not want - got else 'missing' if want - got and not got - want else 'different'
            out.append(('param:%s:%s' % (name, shape), '%s = %s, RFC: %s' % (name, sorted(got), sorted(want))))
    for name in ('asn4', 'refresh', 'msg_size', 'holdtime', 'local_as', 'peer_as'):
        if obs[name] not in f[name]:
            out.append(('param:%s' % name, '%s = %r, RFC: %s' % (name, obs[name], sorted(f[name]))))
    for name, key in (('addpath_send', 'ap_send'), ('addpath_receive', 'ap_recv')):
        on = set(obs[key])
        for fam in sorted(set(f[name]) | on):
            allowed = f[name].get(fam, {False})
            if (fam in on) not in allowed:
                out.append(('param:%s:%s' % (name, 'extra' if fam in on else 'missing'),
                            '%s for %s = %s, RFC: %s' % (name, fam, fam in on, sorted(allowed))))
    return out


# ------------------------------------------------------------------------------------------------
# self test: vectors worked by hand from the RFC texts
# ------------------------------------------------------------------------------------------------


def _side(asn, hold, rid, caps, version=4, style='one-per-param'):
    return summarize(wire.decode_open(wire.encode_open(asn, hold, rid, caps, version=version, style=style)))


def selftest() -> int:
    n = 0
    w = wire
    mp4, mp6, vpn = w.cap_mp(1, 1), w.cap_mp(2, 1), w.cap_mp(1, 128)

    # RFC 6793 4.1: AS 70000 sends My AS = 23456 and the capability 70000; we are AS 65001, NEW too
    us = _side(65001, 180, '1.1.1.1', [mp4, mp6, w.cap_asn4(65001)])
    them = _side(23456, 90, '2.2.2.2', [mp4, w.cap_asn4(70000)])
    e = expected(us, them, 65001, 70000)
    assert not e['must_refuse'] and not e['may_refuse'], e
    assert e['fields']['asn4'] == {True} and e['fields']['peer_as'] == {70000} and e['fields']['local_as'] == {65001}
    assert e['fields']['families'] == {frozenset({(1, 1)})}           # RFC 4760: intersection
    assert e['fields']['holdtime'] == {90}                            # RFC 4271 4.2: the smaller
    assert e['fields']['msg_size'] == {4096} and e['fields']['refresh'] == {'absent'}
    n += 6
    # ... the same peer seen by an OLD speaker (we sent no capability): its AS is what the field says
    old = _side(65001, 180, '1.1.1.1', [mp4])
    e = expected(old, them, 65001, 70000)
    assert e['must_refuse'] == {'peer-as': {(2, 2)}} and e['fields']['asn4'] == {False}
    e = expected(old, them, 65001, 23456)
    assert not e['must_refuse'] and e['fields']['peer_as'] == {23456}
    n += 2
    # we are AS 4200000000: the true local AS is the configured one, whatever the 2-octet field holds
    big = _side(23456, 180, '1.1.1.1', [mp4, w.cap_asn4(4200000000)])
    assert advertised_as(big) == 4200000000
    e = expected(big, them, 4200000000, 70000)
    assert e['fields']['local_as'] == {4200000000}
    n += 2
    # capability value differs from the configured peer AS although the 2-octet field matches it
    liar = _side(65002, 90, '2.2.2.2', [mp4, w.cap_asn4(65003)])
    e = expected(us, liar, 65001, 65002)
    assert e['must_refuse'] == {'peer-as': {(2, 2)}}
    # field contradicts a capability that carries the expected AS: refusing or believing the capability
    odd = _side(65009, 90, '2.2.2.2', [mp4, w.cap_asn4(65002)])
    e = expected(us, odd, 65001, 65002)
    assert not e['must_refuse'] and e['may_refuse'] == {'peer-as': {(2, 2)}} and e['fields']['peer_as'] == {65002}
    n += 2

    # RFC 4271 6.2 / 4.2
    for hold, fault in ((0, None), (1, 'hold-1-2'), (2, 'hold-1-2'), (3, None)):
        e = expected(us, _side(65002, hold, '2.2.2.2', [mp4]), 65001, 65002)
        assert (('hold-1-2' in e['must_refuse']) == (fault is not None)), (hold, e)
        if fault is None:
            assert e['fields']['holdtime'] == {hold}
        else:
            assert e['must_refuse'][fault] == {(2, 6)}
        n += 1
    e = expected(_side(65001, 0, '1.1.1.1', [mp4]), _side(65002, 90, '2.2.2.2', [mp4]), 65001, 65002)
    assert e['fields']['holdtime'] == {0}
    e = expected(us, _side(65002, 90, '2.2.2.2', [mp4], version=3), 65001, 65002)
    assert e['must_refuse'] == {'version': {(2, 1)}}
    e = expected(us, _side(65009, 90, '2.2.2.2', [mp4]), 65001, 65002)
    assert e['must_refuse'] == {'peer-as': {(2, 2)}}
    n += 3
    # RFC 6286 2.2
    e = expected(us, _side(65002, 90, '0.0.0.0', [mp4]), 65001, 65002)
    assert e['must_refuse'] == {'rid-zero': {(2, 3)}}
    e = expected(us, _side(65001, 90, '1.1.1.1', [mp4]), 65001, 65001)
    assert e['must_refuse'] == {'rid-collision-ibgp': {(2, 3)}}
    e = expected(us, _side(65002, 90, '1.1.1.1', [mp4]), 65001, 65002)   # external: AS-wide uniqueness only
    assert not e['must_refuse']
    ibig = _side(23456, 90, '1.1.1.1', [mp4, w.cap_asn4(4200000000)])
    e = expected(_side(23456, 180, '1.1.1.1', [mp4, w.cap_asn4(4200000000)]), ibig, 4200000000, 4200000000)
    assert e['must_refuse'] == {'rid-collision-ibgp': {(2, 3)}}, e
    n += 4

    # RFC 7911 4: Send/Receive 1 = receive, 2 = send, 3 = both
    def ap(mine, theirs):
        a = _side(65001, 180, '1.1.1.1', [mp4] + ([w.cap_addpath([(1, 1, mine)])] if mine else []))
        b = _side(65002, 90, '2.2.2.2', [mp4] + ([w.cap_addpath([(1, 1, theirs)])] if theirs else []))
        f = expected(a, b, 65001, 65002)['fields']
        return (f['addpath_send'].get((1, 1), {False}), f['addpath_receive'].get((1, 1), {False}))

    table = {
        (3, 3): (True, True), (3, 1): (True, False), (3, 2): (False, True), (2, 1): (True, False),
        (2, 2): (False, False), (1, 2): (False, True), (1, 1): (False, False), (2, 3): (True, False),
        (1, 3): (False, True), (0, 3): (False, False), (3, 0): (False, False),
    }
    for (mine, theirs), (s, r) in table.items():
        assert ap(mine, theirs) == ({s}, {r}), (mine, theirs, ap(mine, theirs))
        n += 1
    # per family, not per capability
    a = _side(65001, 180, '1.1.1.1', [mp4, mp6, w.cap_addpath([(1, 1, 2), (2, 1, 1)])])
    b = _side(65002, 90, '2.2.2.2', [mp4, mp6, w.cap_addpath([(1, 1, 1), (2, 1, 1), (1, 128, 3)])])
    f = expected(a, b, 65001, 65002)['fields']
    assert f['addpath_send'] == {(1, 1): {True}, (2, 1): {False}, (1, 128): {False}}
    assert f['addpath_receive'] == {(1, 1): {False}, (2, 1): {False}, (1, 128): {False}}
    n += 2

    # RFC 8950 4, RFC 8654 4, RFC 2918 / 7313
    a = _side(65001, 180, '1.1.1.1', [mp4, vpn, w.cap_ext_nh([(1, 1, 2), (1, 128, 2)]), (w.CAP_EXT_MSG, b''), (w.CAP_RR, b''), (w.CAP_ERR, b'')])
    b = _side(65002, 90, '2.2.2.2', [mp4, w.cap_ext_nh([(1, 1, 2), (1, 4, 2)]), (w.CAP_RR, b'')])
    f = expected(a, b, 65001, 65002)['fields']
    assert f['nexthop'] == {frozenset({(1, 1, 2)})} and f['msg_size'] == {4096} and f['refresh'] == {'normal'}
    b = _side(65002, 90, '2.2.2.2', [mp4, (w.CAP_EXT_MSG, b''), (w.CAP_ERR, b''), (w.CAP_RR, b'')])
    f = expected(a, b, 65001, 65002)['fields']
    assert f['nexthop'] == {frozenset()} and f['msg_size'] == {65535} and f['refresh'] == {'enhanced'}
    n += 2

    # judge()
    e = expected(us, them, 65001, 70000)
    good = {'families': [(1, 1)], 'nexthop': [], 'asn4': True, 'refresh': 'absent', 'msg_size': 4096, 'holdtime': 90,
            'local_as': 65001, 'peer_as': 70000, 'ap_send': [], 'ap_recv': []}
    assert judge(e, ('ok', good)) == []
    assert [k for k, _ in judge(e, ('ok', dict(good, holdtime=180)))] == ['param:holdtime']
    assert [k for k, _ in judge(e, ('ok', dict(good, peer_as=23456)))] == ['param:peer_as']
    assert [k for k, _ in judge(e, ('ok', dict(good, ap_send=[(1, 1)])))] == ['param:addpath_send:extra']
    assert [k for k, _ in judge(e, ('refused', 2, 2))] == ['refused-valid:2/2']
    e = expected(us, _side(65002, 2, '0.0.0.0', [mp4]), 65001, 65002)
    assert judge(e, ('refused', 2, 6)) == [] and judge(e, ('refused', 2, 3)) == []
    assert [k for k, _ in judge(e, ('refused', 2, 2))] == ['wrong-subcode:hold-1-2+rid-zero:got-2/2']
    assert [k for k, _ in judge(e, ('ok', good))] == ['not-refused:hold-1-2+rid-zero']
    n += 8

    # RFC 9072 section 2: extended format is signalled by Non-Ext OP Type 255; Non-Ext OP Len. is ignored
    caps = [mp4, w.cap_asn4(70000), (w.CAP_HOSTNAME, bytes(200))]
    for nel in (255, 1, 77):
        for grouping in ('one-per-param', 'all-in-one'):
            body = w.encode_open_9072(23456, 90, '1.2.3.4', caps, non_ext_len=nel, grouping=grouping)
            assert body[9] == nel and body[10] == 255
            d = w.decode_open_9072(body)
            assert d['caps'] == caps and d['extended'] and d['hold'] == 90, d
            n += 1
    assert w.encode_open_9072(23456, 90, '1.2.3.4', caps) == w.encode_open(23456, 90, '1.2.3.4', caps, style='extended')
    std = w.encode_open(23456, 90, '1.2.3.4', caps[:2])
    assert w.decode_open_9072(std) == w.decode_open(std)
    try:
        w.decode_open(w.encode_open(65002, 90, '2.2.2.2', [mp4])[:-1])
        raise AssertionError('truncated OPEN decoded')
    except w.RefError as err:
        assert expected_unparsable(err)['must_refuse'] == {'malformed-parameters': {(2, 0), (2, 4)}}
    n += 3
    return n


if __name__ == '__main__':
    print('negotiate selftest: %d vectors ok' % selftest())
