"""Reference decoders for the NLRI kinds vt/ref/wire.py does not know: Flow Specification (RFC 8955 4 / RFC 8956 3),
Flow Specification VPN (RFC 8955 8), VPLS (RFC 4761 3.2.2), and the Prefix-SID attribute (RFC 8669 3), plus an UPDATE
decoder which uses them inside MP_REACH_NLRI / MP_UNREACH_NLRI.  Written from the RFC texts.  Does not import exabgp.

Abstract values
  flow NLRI : {'rd': hex|None, 'components': [(type, value)]} where value is
              (masklen, offset, prefix-hex) for types 1 and 2, and [(and_bit, lt, gt, eq, number)] for the numeric
              operator types, [(and_bit, not_bit, match_bit, number)] for the bitmask types (9 TCP flags, 12 fragment)
  vpls NLRI : {'rd': hex, 'endpoint': int, 'offset': int, 'size': int, 'base': int, 'bottom': bool}
"""

from __future__ import annotations

import ipaddress
import struct

from vt.ref import wire

AFI_L2VPN, SAFI_VPLS = 25, 65
PREFIX_SID = 40

BITMASK_TYPES = (9, 12)


def decode_flow_components(data: bytes, afi: int):
    out = []
    pos = 0
    last = 0
    while pos < len(data):
        ctype = data[pos]
        pos += 1
        if ctype <= last:
            raise wire.RefError(3, 10, f'flow components not in strictly increasing type order ({last} then {ctype})')
        last = ctype
        if ctype in (1, 2):
            if afi == wire.AFI_IPV4:
                if pos >= len(data):
                    raise wire.RefError(3, 10, 'flow prefix truncated')
                bits = data[pos]
                pos += 1
                if bits > 32:
                    raise wire.RefError(3, 10, f'flow IPv4 prefix length {bits} > 32')
                n = (bits + 7) // 8
                if pos + n > len(data):
                    raise wire.RefError(3, 10, 'flow prefix truncated')
                out.append((ctype, (bits, 0, data[pos : pos + n].hex())))
                pos += n
            else:
                if pos + 2 > len(data):
                    raise wire.RefError(3, 10, 'flow prefix truncated')
                bits, offset = data[pos], data[pos + 1]
                pos += 2
                if bits > 128 or offset > bits:
                    raise wire.RefError(3, 10, f'flow IPv6 prefix length {bits} offset {offset}')
                n = (bits - offset + 7) // 8
                if pos + n > len(data):
                    raise wire.RefError(3, 10, 'flow prefix truncated')
                out.append((ctype, (bits, offset, data[pos : pos + n].hex())))
                pos += n
            continue
        if ctype > 13:
            raise wire.RefError(3, 10, f'flow component type {ctype}')
        ops = []
        while True:
            if pos >= len(data):
                raise wire.RefError(3, 10, 'flow operator truncated')
            op = data[pos]
            pos += 1
            size = 1 << ((op >> 4) & 3)
            if pos + size > len(data):
                raise wire.RefError(3, 10, 'flow operator value truncated')
            number = int.from_bytes(data[pos : pos + size], 'big')
            pos += size
            if ctype in BITMASK_TYPES:
                ops.append((bool(op & 0x40), bool(op & 0x02), bool(op & 0x01), number))
            else:
                ops.append((bool(op & 0x40), bool(op & 0x04), bool(op & 0x02), bool(op & 0x01), number))
            if op & 0x80:
                break
        out.append((ctype, ops))
    return out


def decode_flow_nlris(data: bytes, afi: int, safi: int):
    out = []
    pos = 0
    while pos < len(data):
        length = data[pos]
        pos += 1
        if length >= 0xF0:
            if pos >= len(data):
                raise wire.RefError(3, 10, 'flow NLRI length truncated')
            length = ((length & 0x0F) << 8) | data[pos]
            pos += 1
        if pos + length > len(data):
            raise wire.RefError(3, 10, 'flow NLRI overruns')
        body = data[pos : pos + length]
        pos += length
        rd = None
        if safi == wire.SAFI_FLOWVPN:
            if len(body) < 8:
                raise wire.RefError(3, 10, 'flow-vpn NLRI without route distinguisher')
            rd, body = body[:8].hex(), body[8:]
        out.append({'rd': rd, 'components': decode_flow_components(body, afi)})
    return out


def decode_vpls_nlris(data: bytes):
    out = []
    pos = 0
    while pos < len(data):
        if pos + 2 > len(data):
            raise wire.RefError(3, 10, 'VPLS NLRI length truncated')
        length = struct.unpack('!H', data[pos : pos + 2])[0]
        pos += 2
        if length != 17 or pos + length > len(data):
            raise wire.RefError(3, 10, f'VPLS NLRI length {length}')
        body = data[pos : pos + length]
        pos += length
        ve, off, size = struct.unpack('!HHH', body[8:14])
        lab = int.from_bytes(body[14:17], 'big')
        out.append({'rd': body[:8].hex(), 'endpoint': ve, 'offset': off, 'size': size, 'base': lab >> 4, 'bottom': bool(lab & 1)})
    return out


def decode_prefix_sid(value: bytes):
    """-> {'index': int|None, 'srgb': [(base, range)]|None, 'other': [type]}"""
    out = {'index': None, 'srgb': None, 'other': []}
    pos = 0
    while pos < len(value):
        if pos + 3 > len(value):
            raise wire.RefError(3, 1, 'Prefix-SID TLV truncated')
        t, ln = value[pos], struct.unpack('!H', value[pos + 1 : pos + 3])[0]
        pos += 3
        if pos + ln > len(value):
            raise wire.RefError(3, 1, 'Prefix-SID TLV overruns')
        body = value[pos : pos + ln]
        pos += ln
        if t == 1:
            if ln != 7:
                raise wire.RefError(3, 1, 'Label-Index TLV length')
            out['index'] = struct.unpack('!L', body[3:7])[0]
        elif t == 3:
            if ln < 2 or (ln - 2) % 6:
                raise wire.RefError(3, 1, 'Originator SRGB TLV length')
            out['srgb'] = [(int.from_bytes(body[i : i + 3], 'big'), int.from_bytes(body[i + 3 : i + 6], 'big')) for i in range(2, ln, 6)]
        else:
            out['other'].append(t)
    return out


def decode_update_x(body: bytes, asn4: bool = True, addpath=frozenset()):
    """wire.decode_update, with Flow Specification and VPLS NLRIs understood inside MP_REACH/MP_UNREACH.

    Extra keys: 'flow': [(afi, safi, nexthop-hex, [flow NLRI])], 'flow_unreach', 'vpls': [(nexthop, [vpls NLRI])], 'vpls_unreach'."""

    def ap(afi, safi):
        return (afi, safi) in addpath

    if len(body) < 4:
        raise wire.RefError(3, 1, 'UPDATE too short')
    wlen = struct.unpack('!H', body[:2])[0]
    if 2 + wlen + 2 > len(body):
        raise wire.RefError(3, 1, 'withdrawn routes length overruns')
    alen = struct.unpack('!H', body[2 + wlen : 4 + wlen])[0]
    if 4 + wlen + alen > len(body):
        raise wire.RefError(3, 1, 'attribute length overruns')
    upd = {
        'withdrawn': wire.decode_nlris(body[2 : 2 + wlen], 1, 1, ap(1, 1), withdraw=True, err=(3, 1)),
        'nlri': wire.decode_nlris(body[4 + wlen + alen :], 1, 1, ap(1, 1), err=(3, 10)),
        'attrs': {}, 'raw_attrs': [], 'mp_reach': [], 'mp_unreach': [],
        'flow': [], 'flow_unreach': [], 'vpls': [], 'vpls_unreach': [],
    }
    seen = set()
    for flags, code, value in wire.walk_attrs(body[4 + wlen : 4 + wlen + alen]):
        if code in seen:
            raise wire.RefError(3, 1, f'attribute {code} appears twice')
        seen.add(code)
        upd['raw_attrs'].append((flags, code, value.hex()))
        if code in wire.CANON_FLAGS:
            want = wire.CANON_FLAGS[code] & (wire.F_OPTIONAL | wire.F_TRANSITIVE)
            if flags & (wire.F_OPTIONAL | wire.F_TRANSITIVE) != want:
                raise wire.RefError(3, 4, f'attribute {code} flags {flags:#x}')
        if bool(flags & wire.F_EXTLEN) != (len(value) > 255) and len(value) > 255:
            raise wire.RefError(3, 1, 'length above 255 without the extended length bit')
        if code == wire.MP_REACH:
            if len(value) < 5:
                raise wire.RefError(3, 9, 'MP_REACH too short')
            afi, safi, nhlen = struct.unpack('!HBB', value[:4])
            if safi in (wire.SAFI_FLOW, wire.SAFI_FLOWVPN) or (afi, safi) == (AFI_L2VPN, SAFI_VPLS):
                if len(value) < 4 + nhlen + 1:
                    raise wire.RefError(3, 9, 'MP_REACH next hop overruns')
                nh = value[4 : 4 + nhlen]
                rest = value[4 + nhlen + 1 :]
                if (afi, safi) == (AFI_L2VPN, SAFI_VPLS):
                    if nhlen not in (4, 16):
                        raise wire.RefError(3, 9, f'VPLS next hop length {nhlen}')
                    upd['vpls'].append((str(ipaddress.ip_address(nh)), decode_vpls_nlris(rest)))
                else:
                    if nhlen not in (0, 4, 16):
                        raise wire.RefError(3, 9, f'flow next hop length {nhlen}')
                    upd['flow'].append((afi, safi, nh.hex(), decode_flow_nlris(rest, afi, safi)))
            else:
                upd['mp_reach'].append(wire.decode_mp_reach(value, ap))
        elif code == wire.MP_UNREACH:
            if len(value) < 3:
                raise wire.RefError(3, 9, 'MP_UNREACH too short')
            afi, safi = struct.unpack('!HB', value[:3])
            if safi in (wire.SAFI_FLOW, wire.SAFI_FLOWVPN):
                upd['flow_unreach'].append((afi, safi, decode_flow_nlris(value[3:], afi, safi)))
            elif (afi, safi) == (AFI_L2VPN, SAFI_VPLS):
                upd['vpls_unreach'].append(decode_vpls_nlris(value[3:]))
            else:
                upd['mp_unreach'].append(wire.decode_mp_unreach(value, ap))
        elif code == PREFIX_SID:
            upd['attrs'][code] = decode_prefix_sid(value)
        else:
            upd['attrs'][code] = wire.decode_attr_value(code, value, asn4)
    return upd


# ---------------------------------------------------------------------------------------------
# golden vectors, transcribed from the RFC figures
# ---------------------------------------------------------------------------------------------
def selftest():
    # RFC 8955 4.3 example 1: "all packets to 192.0.2.0/24 and TCP port 25": 0x0b 01 18 c0 00 02 03 81 06 04 81 19
    (n,) = decode_flow_nlris(bytes.fromhex('0b0118c0000203810604' + '8119'), 1, wire.SAFI_FLOW)
    assert n == {'rd': None, 'components': [(1, (24, 0, 'c00002')), (3, [(False, False, False, True, 6)]), (4, [(False, False, False, True, 25)])]}, n
    # RFC 8955 4.3 example 2: to 192.0.2.0/24 from 203.0.113.0/24 and port {range [137, 139] or 8080}:
    # 0x12 01 18 c0 00 02 02 18 cb 00 71 04 03 89 45 8b 91 1f 90
    (n,) = decode_flow_nlris(bytes.fromhex('120118c000020218cb00710403894 58b911f90'.replace(' ', '')), 1, wire.SAFI_FLOW)
    assert n['components'][2] == (4, [(False, False, True, True, 137), (True, True, False, True, 139), (False, False, False, True, 8080)]), n
    # RFC 8956 3.8 example 1: destination 2001:db8::/32 (length 0x20, offset 0): 0x07? -> type 1, 0x20 0x00 20 01 0d b8
    (n,) = decode_flow_nlris(bytes.fromhex('07' + '01' + '2000' + '20010db8'), 2, wire.SAFI_FLOW)
    assert n['components'] == [(1, (32, 0, '20010db8'))], n
    # two-octet length form (RFC 8955 4.1): 0xf0 0xf0 = 240
    body = bytes([4]) + b''.join(bytes([0x01, i]) for i in range(118)) + bytes([0x81, 200]) + bytes([5, 0x81, 1])
    assert len(body) == 242
    (n,) = decode_flow_nlris(bytes([0xF0, 242]) + body, 1, wire.SAFI_FLOW)
    assert len(n['components'][0][1]) == 119
    # RFC 4761 3.2.2 layout: length 17, RD, VE ID, VE block offset, VE block size, label base (3 octets, label in the high 20 bits)
    (v,) = decode_vpls_nlris(bytes.fromhex('0011' + '0001c0a8c901007b' + '0005' + '0001' + '0008' + '029ce1'))
    assert v == {'rd': '0001c0a8c901007b', 'endpoint': 5, 'offset': 1, 'size': 8, 'base': 10702, 'bottom': True}, v
    # RFC 8669 3.1 / 3.2
    p = decode_prefix_sid(bytes.fromhex('01000700000000000064' + '0300080000' + '0c3500' + '000064'))
    assert p == {'index': 100, 'srgb': [(800000, 100)], 'other': []}, p
    return True
