"""Self-validation of the reference codec: golden vectors transcribed by hand from the RFCs and
decode(encode(x)) == x over small alphabets.  Run by setup_cmd and importable by checks."""

from __future__ import annotations

import itertools
import sys

from vt.ref import wire as w


def golden() -> int:
    n = 0
    # RFC 4271 4.3: UPDATE announcing 10.0.0.0/8 with ORIGIN IGP, AS_PATH SEQ(65001), NEXT_HOP 192.0.2.1
    body = bytes.fromhex('0000' '0012' '400101' '00' '4002' '04' '0201fde9' '400304c0000201' '080a')
    u = w.decode_update(body, asn4=False)
    assert u['nlri'] == [(1, 1, None, None, None, '0a', 8)], u
    assert u['attrs'] == {1: 0, 2: ((2, (65001,)),), 3: '192.0.2.1'}, u
    n += 1
    # withdrawn 192.168.1.128/25
    body = bytes.fromhex('0005' '19c0a80180' '0000')
    u = w.decode_update(body)
    assert u['withdrawn'] == [(1, 1, None, None, None, 'c0a80180', 25)]
    n += 1
    # RFC 4724 EOR markers
    assert w.is_eor(bytes(4)) == (1, 1)
    assert w.is_eor(bytes.fromhex('0000' '0006' '800f03' '000201')) == (2, 1)
    assert w.is_eor(bytes.fromhex('0000' '0007' '900f0003' '000201')) == (2, 1)
    assert w.is_eor(bytes.fromhex('0000' '0007' '800f04' '00020100')) is None
    n += 3
    # RFC 4760 MP_REACH ipv6 unicast 2001:db8::/32 nh 2001:db8::1
    mp = bytes.fromhex('0002' '01' '10' '20010db8000000000000000000000001' '00' '20' '20010db8')
    assert w.decode_mp_reach(mp, lambda a, s: False) == (2, 1, '2001:db8::1', [(2, 1, None, None, None, '20010db8', 32)])
    n += 1
    # RFC 8277: label 3 bottom of stack + 10.0.0.0/8 -> length 32
    assert w.encode_nlri((1, 4, None, (3,), None, '0a', 8), False) == bytes.fromhex('20' '000031' '0a')
    # RFC 4364: RD type 0 65000:1, label 100, 10.1.0.0/16 -> 24+64+16 = 104 bits
    n1 = (1, 128, None, (100,), w.rd_type0(65000, 1).hex(), '0a01', 16)
    assert w.encode_nlri(n1, False) == bytes.fromhex('68' '000641' '0000fde800000001' '0a01')
    assert w.decode_nlris(w.encode_nlri(n1, False), 1, 128, False) == [n1]
    # RFC 7911 path identifier
    assert w.encode_nlri((1, 1, 7, None, None, '0a', 8), True) == bytes.fromhex('00000007' '08' '0a')
    n += 4
    # RFC 6793 4.2.3: AS_PATH (23456 65001) + AS4_PATH (70000) -> (65001?) no: leading = 2-1 = 1 AS of AS_PATH
    merged = w.merge_as4(((2, (65001, 23456)),), ((2, (70000,)),))
    assert merged == ((2, (65001, 70000)),), merged
    # AS_PATH shorter than AS4_PATH: ignore AS4_PATH
    assert w.merge_as4(((2, (65001,)),), ((2, (70000, 70001)),)) == ((2, (65001,)),)
    n += 2
    # RFC 9072 extended optional parameters
    caps = [w.cap_mp(1, 1), w.cap_asn4(70000)]
    for style in ('one-per-param', 'all-in-one', 'extended'):
        o = w.decode_open(w.encode_open(23456, 90, '1.2.3.4', caps, style=style))
        assert o['caps'] == caps and o['hold'] == 90 and o['asn'] == 23456, o
        n += 1
    # framing
    stream = w.frame(4, b'') + w.frame(2, bytes(4))
    assert w.split_stream(stream) == ([(4, b''), (2, bytes(4))], None, b'')
    assert w.split_stream(b'\x00' + stream[1:])[1] == (1, 1, b'')
    assert w.split_stream(w.MARKER + b'\x00\x12\x04')[1][:2] == (1, 2)
    n += 3
    return n


def roundtrip() -> int:
    n = 0
    prefixes4 = [('0.0.0.0', 0), ('10.0.0.0', 8), ('10.1.2.0', 23), ('10.1.2.3', 32), ('192.168.1.128', 25)]
    prefixes6 = [('::', 0), ('2001:db8::', 32), ('2001:db8:1::', 49), ('2001:db8::1', 128)]
    rds = [None, w.rd_type0(65000, 1), w.rd_type1('1.2.3.4', 5), w.rd_type2(70000, 9)]
    for (afi, pl), pid, labels, rd in itertools.product(
        [(1, prefixes4), (2, prefixes6)], [None, 0, 1, 2**32 - 1], [None, (0,), (3,), (2**20 - 1,), (16, 17)], rds
    ):
        safi = 128 if rd is not None else (4 if labels is not None else 1)
        if rd is not None and labels is None:
            continue
        for addr, mask in pl:
            x = w.nlri_ip(afi, safi, addr, mask, pid, labels, rd)
            enc = w.encode_nlri(x, pid is not None)
            assert w.decode_nlris(enc + enc, afi, safi, pid is not None) == [x, x], x
            n += 1
    attrs = {
        w.ORIGIN: [0, 1, 2],
        w.AS_PATH: [(), ((2, (65001,)),), ((2, (1, 2, 3)), (1, (4, 5))), ((2, (70000,)),)],
        w.NEXT_HOP: ['1.2.3.4'],
        w.MED: [0, 2**32 - 1],
        w.LOCAL_PREF: [0, 100],
        w.ATOMIC_AGGREGATE: [True],
        w.AGGREGATOR: [(65001, '1.1.1.1')],
        w.COMMUNITIES: [(0x10002,), (0xFFFFFF01, 1)],
        w.ORIGINATOR_ID: ['9.9.9.9'],
        w.CLUSTER_LIST: [('1.1.1.1', '2.2.2.2')],
        w.EXT_COMMUNITIES: [('0002fde800000001',)],
        w.LARGE_COMMUNITIES: [((1, 2, 3), (4294967295, 0, 1))],
        w.AIGP: [0, 2**64 - 1],
    }
    for code, vals in attrs.items():
        for v in vals:
            for asn4 in (True, False):
                if not asn4 and code == w.AS_PATH and any(a > 65535 for s in v for a in s[1]):
                    continue
                enc = w.encode_attr_value(code, v, asn4)
                assert w.decode_attr_value(code, enc, asn4) == v, (code, v)
                for ext in (False, True):
                    tlv = w.encode_attr(code, enc, extended=ext)
                    assert w.walk_attrs(tlv) == [((w.CANON_FLAGS[code] | (w.F_EXTLEN if ext else 0)), code, enc)]
                n += 1
    return n


def main() -> int:
    g = golden()
    r = roundtrip()
    print(f'ref selftest ok: golden={g} roundtrip={r}')
    return 0


if __name__ == '__main__':
    sys.exit(main())
