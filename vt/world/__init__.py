"""Virtual world: the real Reactor / Peer / Protocol / Connection / Processes / API running on a
virtual-time event loop with in-memory sockets and pipe-backed fake API children.

No source hooks: every seam is rebound from outside (module-level `time`, tcp helpers, subprocess).
The harness owns the environment only; every loop body that runs is ExaBGP's own.
"""

from __future__ import annotations

import asyncio
import collections
import errno
import fcntl
import gc
import heapq
import os
import sys
import socket as _real_socket
import time as _real_time
import types
from asyncio import events

REPO_SRC = os.environ.get('VERIF_REPO_SRC', '/repo/src')
if REPO_SRC not in sys.path:
    sys.path.insert(0, REPO_SRC)

from vt import core  # noqa: E402
from vt.ref import wire  # noqa: E402

EPOCH = 1_000_000.0


# ------------------------------------------------------------------------------------------------
# clock
# ------------------------------------------------------------------------------------------------
class VClock:
    def __init__(self) -> None:
        self.now = EPOCH

    # the `time` module surface ExaBGP uses
    def time(self) -> float:
        return self.now

    def monotonic(self) -> float:
        return self.now

    def perf_counter(self) -> float:
        return self.now

    def sleep(self, s: float) -> None:
        self.now += s

    def __getattr__(self, name):
        return getattr(_real_time, name)


TIME_MODULES = [
    'exabgp.reactor.peer.peer',
    'exabgp.bgp.timer',
    'exabgp.reactor.delay',
    'exabgp.reactor.network.outgoing',
    'exabgp.reactor.loop',
    'exabgp.reactor.api.processes',
    'exabgp.reactor.api.response.json',
    'exabgp.reactor.api.response.text',
    'exabgp.reactor.api.response.v4.json',
    'exabgp.reactor.api.response.v4.text',
    'exabgp.reactor.timing',
    'exabgp.reactor.keepalive',
    'exabgp.reactor.protocol',
]


# ------------------------------------------------------------------------------------------------
# sockets
# ------------------------------------------------------------------------------------------------
_DEVNULL_FD = None


def _writable_fd() -> int:
    global _DEVNULL_FD
    if _DEVNULL_FD is None:
        _DEVNULL_FD = os.open('/dev/null', os.O_WRONLY)
    return _DEVNULL_FD


class FakeSocket:
    """In-memory TCP endpoint. rx is a queue of segments (one recv returns at most one segment)."""

    family = 2  # AF_INET

    def __init__(self, world: 'World', kind: str, local=('127.0.0.1', 12345), remote=('127.0.0.2', 179)) -> None:
        self.world = world
        self.kind = kind  # 'out' | 'in'
        self.local = local
        self.remote = remote
        self.rx: collections.deque = collections.deque()  # bytes | 'EOF' | OSError
        self.tx: list = []  # (virtual time, fsm state name, bytes)
        self.closed = False
        self.closed_at = None
        self.connected = kind == 'in'
        self.connect_result = None  # None pending | True | OSError
        self.send_error = None  # OSError raised by the next send
        self.send_blocked = 0  # this many next sends find the socket buffer full (EAGAIN)
        self.cut_after_tx = None  # once this many writes were recorded, every further write fails (connection lost)
        self._recv_waiter = None  # (future, buffer)
        self._connect_waiter = None
        self.index = len(world.sockets)
        self.consumed = 0
        self.accepted = False  # inbound connections: taken from the listen queue by ExaBGP
        world.sockets.append(self)

    # -- socket API used by ExaBGP ---------------------------------------------------------------
    def fileno(self) -> int:
        return -1 if self.closed else _writable_fd()

    def close(self) -> None:
        if not self.closed:
            self.closed = True
            self.closed_at = self.world.clock.now
            self.world.event('close', self.index)
        if self._recv_waiter is not None:
            fut, _ = self._recv_waiter
            self._recv_waiter = None
            if not fut.done():
                fut.set_exception(OSError(errno.EBADF, 'closed'))

    def getsockname(self):
        return self.local

    def getpeername(self):
        return self.remote

    def setblocking(self, flag) -> None:
        pass

    def setsockopt(self, *a) -> None:
        pass

    def settimeout(self, *a) -> None:
        pass

    def shutdown(self, *a) -> None:
        pass

    def send(self, data) -> int:
        """legacy generator path (Incoming.notification)"""
        if self.closed:
            raise OSError(errno.EBADF, 'closed')
        if self.send_error is not None:
            e, self.send_error = self.send_error, None
            raise e
        if self.send_blocked > 0:
            self.send_blocked -= 1
            raise BlockingIOError(errno.EAGAIN, 'socket buffer full')
        self._record_tx(bytes(data))
        return len(data)

    def recv_into(self, buf) -> int:
        """legacy generator path (Connection._reader)"""
        if self.closed:
            raise OSError(errno.EBADF, 'closed')
        if not self.rx:
            raise BlockingIOError(errno.EAGAIN, 'no data')
        item = self.rx[0]
        if item == 'EOF':
            return 0
        if isinstance(item, OSError):
            self.rx.popleft()
            raise item
        n = min(len(buf), len(item))
        buf[:n] = item[:n]
        if n == len(item):
            self.rx.popleft()
        else:
            self.rx[0] = item[n:]
        self.consumed += n
        return n

    def _record_tx(self, data: bytes) -> None:
        self.tx.append((self.world.clock.now, self.world.fsm_of(self), data))
        self.world.event('tx', self.index, len(data), data[18] if len(data) > 18 else None)

    def tx_bytes(self) -> bytes:
        return b''.join(d for _, _, d in self.tx)

    # -- controller side -------------------------------------------------------------------------
    def feed(self, item) -> None:
        """item: bytes segment | 'EOF' | OSError instance"""
        self.rx.append(item)
        self._wake()

    def _wake(self) -> None:
        if self._recv_waiter is None or not self.rx:
            return
        fut, buf = self._recv_waiter
        self._recv_waiter = None
        if fut.done():
            # the read was cancelled (wait_for timeout): data stays queued
            return
        self._complete(fut, buf)

    def _complete(self, fut, buf) -> None:
        item = self.rx[0]
        if item == 'EOF':
            fut.set_result(0)
            return
        if isinstance(item, OSError):
            self.rx.popleft()
            fut.set_exception(item)
            return
        n = min(len(buf), len(item))
        buf[:n] = item[:n]
        if n == len(item):
            self.rx.popleft()
        else:
            self.rx[0] = item[n:]
        self.consumed += n
        self.world.event('rx', self.index, n)
        fut.set_result(n)


class FakeListenSocket:
    family = 2

    def __init__(self) -> None:
        self.queue: collections.deque = collections.deque()
        self.closed = False

    def setsockopt(self, *a) -> None:
        pass

    def setblocking(self, flag) -> None:
        pass

    def bind(self, address) -> None:
        self.bound = address

    def listen(self, backlog=0) -> None:
        pass

    def getsockname(self):
        return getattr(self, 'bound', ('127.0.0.1', 179))

    def accept(self):
        if not self.queue:
            raise OSError(errno.EAGAIN, 'no connection')
        io = self.queue.popleft()
        io.accepted = True
        return io, io.remote

    def close(self) -> None:
        self.closed = True

    def fileno(self) -> int:
        return _writable_fd()


# ------------------------------------------------------------------------------------------------
# event loop
# ------------------------------------------------------------------------------------------------
class _NoSelector:
    def select(self, timeout=None):
        return []

    def close(self):
        pass


class VLoop(asyncio.BaseEventLoop):
    def __init__(self, world: 'World') -> None:
        super().__init__()
        self.world = world
        self._selector = _NoSelector()
        self.readers: dict = {}
        self.exceptions: list = []
        self.set_exception_handler(self._on_exception)

    def _on_exception(self, loop, context) -> None:
        self.exceptions.append(repr(context.get('exception') or context.get('message')))

    def time(self) -> float:
        return self.world.clock.now

    def _process_events(self, event_list) -> None:
        pass

    def _write_to_self(self) -> None:
        pass

    # sockets
    async def sock_recv_into(self, sock, buf) -> int:
        if sock.closed:
            raise OSError(errno.EBADF, 'closed')
        fut = self.create_future()
        if sock.rx:
            sock._complete(fut, buf)
        else:
            sock._recv_waiter = (fut, buf)
        return await fut

    async def sock_sendall(self, sock, data) -> None:
        if sock.closed:
            raise OSError(errno.EBADF, 'closed')
        if sock.send_error is not None:
            e, sock.send_error = sock.send_error, None
            raise e
        if sock.cut_after_tx is not None and len(sock.tx) >= sock.cut_after_tx:
            raise OSError(errno.EPIPE, 'connection lost')
        sock._record_tx(bytes(data))

    async def sock_connect(self, sock, address) -> None:
        sock.remote = address[:2]
        self.world.event('connect', sock.index)
        if sock.connect_result is None:
            fut = self.create_future()
            sock._connect_waiter = fut
            res = await fut
        else:
            res = sock.connect_result
        if res is True:
            sock.connected = True
            return
        raise res

    def add_reader(self, fd, callback, *args) -> None:
        self.readers[fd] = (callback, args)

    def remove_reader(self, fd) -> bool:
        return self.readers.pop(fd, None) is not None

    def round(self) -> None:
        self._run_once()


# ------------------------------------------------------------------------------------------------
# fake API child
# ------------------------------------------------------------------------------------------------
class FakeChild:
    """Stands for the subprocess.Popen object of an API helper: two real pipes, never exits."""

    def __init__(self, name: str) -> None:
        self.name = name
        r1, w1 = os.pipe()  # exabgp -> child   (child stdin)
        r2, w2 = os.pipe()  # child -> exabgp   (child stdout)
        self.stdin = os.fdopen(w1, 'wb', buffering=0)
        self.stdout = os.fdopen(r2, 'rb', buffering=0)
        self._from_exabgp = r1
        self._to_exabgp = w2
        fcntl.fcntl(r1, fcntl.F_SETFL, os.O_NONBLOCK)
        self.pid = 4242
        self.returncode = None
        self.output = b''

    def poll(self):
        return self.returncode

    def wait(self, timeout=None):
        return 0

    def terminate(self) -> None:
        pass

    def kill(self) -> None:
        pass

    def send_signal(self, sig) -> None:
        pass

    def write_command_bytes(self, data: bytes) -> None:
        os.write(self._to_exabgp, data)

    def read_output(self) -> bytes:
        try:
            while True:
                chunk = os.read(self._from_exabgp, 65536)
                if not chunk:
                    break
                self.output += chunk
        except BlockingIOError:
            pass
        return self.output

    def close(self) -> None:
        for f in (self.stdin, self.stdout):
            try:
                f.close()
            except Exception:
                pass
        for fd in (self._from_exabgp, self._to_exabgp):
            try:
                os.close(fd)
            except OSError:
                pass


# ------------------------------------------------------------------------------------------------
# world
# ------------------------------------------------------------------------------------------------
_PATCHED = {}


def _container_sizes(obj) -> tuple:
    """How much every queue / buffer of an object holds, whatever the attributes are called (digest of pending work)."""
    out = []
    for name, v in sorted(vars(obj).items()):
        if isinstance(v, (list, collections.deque, set, frozenset, bytes, bytearray, str)):
            out.append((name, len(v)))
        elif isinstance(v, dict):
            inner = tuple(sorted((str(k), len(x) if hasattr(x, '__len__') else repr(x)[:40]) for k, x in v.items()
                                 if isinstance(x, (list, collections.deque, set, bytes, bytearray, str, int, bool, tuple, dict))))
            out.append((name, len(v), inner))
    return tuple(out)


class World:
    """One execution: a fresh reactor on a fresh loop.  Always use as a context manager."""

    def __init__(self, config_text: str, env: dict | None = None, listen: bool = True) -> None:
        self.config_text = config_text
        self.env_over = env or {}
        self.listen = listen
        self.clock = VClock()
        self.sockets: list[FakeSocket] = []
        self.children: dict[str, FakeChild] = {}
        self.events: list = []
        self.fsm_log: list = []
        self.new_socket_hook = None  # called with each socket ExaBGP creates for an outgoing connect
        self._saved = []

    # -- observation helpers ---------------------------------------------------------------------
    def event(self, *e) -> None:
        self.events.append((round(self.clock.now - EPOCH, 3),) + e)

    def fsm_of(self, sock) -> str:
        try:
            for peer in self.peers_map().values():
                if peer.proto and peer.proto.connection and peer.proto.connection.io is sock:
                    return peer.fsm.name()
        except Exception:
            pass
        return '?'

    # -- lifecycle -----------------------------------------------------------------------------------
    def __enter__(self) -> 'World':
        import importlib

        from vt import exa

        exa.reset_process_state()
        self._cwd = os.getcwd()
        self._umask = os.umask(0o022)
        os.umask(self._umask)

        # clock seams
        for name in TIME_MODULES:
            try:
                mod = importlib.import_module(name)
            except ImportError:
                continue
            if hasattr(mod, 'time') and isinstance(getattr(mod, 'time'), (types.ModuleType, VClock)):
                self._patch(mod, 'time', self.clock)

        # transport seams
        from exabgp.reactor.network import incoming as inc_mod
        from exabgp.reactor.network import outgoing as out_mod

        def create(afi, interface=None):
            s = FakeSocket(self, 'out')
            if self.new_socket_hook:
                self.new_socket_hook(s)
            return s

        nop = lambda *a, **k: None  # noqa: E731
        self._patch(out_mod, 'create', create)
        for n in ('md5', 'ttl', 'ttlv6', 'bind', 'asynchronous'):
            self._patch(out_mod, n, nop)
        for n in ('asynchronous', 'nagle'):
            self._patch(inc_mod, n, nop)

        # child process seam
        from exabgp.reactor.api import processes as proc_mod

        world = self

        class _Subprocess:
            PIPE = -1
            CalledProcessError = proc_mod.subprocess.CalledProcessError
            TimeoutExpired = proc_mod.subprocess.TimeoutExpired

            @staticmethod
            def Popen(run, **kw):
                name = f'child{len(world.children)}'
                c = FakeChild(name)
                world.children[name] = c
                return c

        self._patch(proc_mod, 'subprocess', _Subprocess)

        # environment
        from exabgp.environment import getenv

        env = getenv()
        defaults = {
            ('tcp', 'attempts'): 0,
            ('tcp', 'bind'): [],
            ('tcp', 'delay'): 0,
            ('bgp', 'passive'): False,
            ('bgp', 'openwait'): 60,
            ('api', 'ack'): True,
            ('api', 'version'): 6,
            ('api', 'respawn'): False,
            ('api', 'terminate'): False,
            ('daemon', 'daemonize'): False,
            ('daemon', 'drop'): False,
            ('log', 'enable'): False,
            ('debug', 'defensive'): False,
        }
        defaults.update({tuple(k.split('.')): v for k, v in self.env_over.items()})
        for (sec, key), val in defaults.items():
            section = getattr(env, sec)
            try:
                old = getattr(section, key)
            except AttributeError:
                continue
            self._saved.append((section, key, old))
            try:
                setattr(section, key, val)
            except Exception:
                pass

        # loop
        self.loop = VLoop(self)
        events._set_running_loop(self.loop)
        self.loop._thread_id = None
        self.loop._clock_resolution = 1e-6

        # reactor
        from exabgp.configuration.configuration import Configuration
        from exabgp.reactor.loop import Reactor
        from exabgp.bgp.fsm import FSM

        self.cfg = Configuration([self.config_text], text=True)
        self._sources_list = None
        self._config_sources()
        self.reactor = Reactor(self.cfg)
        os.chdir(self._cwd)
        os.umask(self._umask)
        d = self.reactor.daemon
        d.daemonise = lambda: None
        d.drop_privileges = lambda: True
        d.savepid = lambda: True
        d.removepid = lambda: None

        # observe FSM transitions
        orig_change = FSM.change

        def change(fsm, state):
            old = fsm.state
            owned = None
            try:
                pr = fsm.peer.proto
                if pr and pr.connection and pr.connection.io is not None:
                    owned = pr.connection.io.index
            except Exception:
                pass
            self.fsm_log.append((round(self.clock.now - EPOCH, 3), owned, old.name, state.name))
            self.event('fsm', old.name, state.name, owned)
            return orig_change(fsm, state)

        self._patch(FSM, 'change', change)

        from exabgp.logger import log as _log

        self._patch(_log, 'init', lambda *a, **k: None)

        if self.listen:
            # the listening socket is installed through the public Listener.listen_on(), the socket module of the listener
            # replaced by one whose socket() hands out the fake: no private table of the Listener is written
            from exabgp.protocol.ip import IP
            from exabgp.reactor import listener as listener_mod

            self.lsock = FakeListenSocket()
            world = self

            class _SocketModule:
                def __getattr__(self, name):
                    return getattr(_real_socket, name)

                @staticmethod
                def socket(*a, **k):
                    return world.lsock

            self._patch(listener_mod, 'socket', _SocketModule())
            if not self.reactor.listener.listen_on(IP.from_string('127.0.0.1'), IP.from_string('127.0.0.2'), 179, None, False, None):
                raise RuntimeError('Listener.listen_on refused the fake listening socket')
        self.main = self.loop.create_task(self.reactor.run_async())
        return self

    def _patch(self, obj, name, value) -> None:
        self._saved.append((obj, name, getattr(obj, name)))
        setattr(obj, name, value)

    def __exit__(self, *exc) -> None:
        try:
            # stop tasks
            for t in asyncio.all_tasks(self.loop):
                t.cancel()
            for _ in range(20):
                self.loop._run_once()
                if not asyncio.all_tasks(self.loop):
                    break
        except Exception:
            pass
        finally:
            events._set_running_loop(None)
            try:
                self.loop.close()
            except Exception:
                pass
            for obj, name, old in reversed(self._saved):
                try:
                    setattr(obj, name, old)
                except Exception:
                    pass
            for c in self.children.values():
                c.close()
            os.chdir(self._cwd)
            os.umask(self._umask)

    # -- stepping ----------------------------------------------------------------------------------
    def digest(self):
        peers = []
        for key in sorted(self.peers_map()):
            p = self.peers_map()[key]
            peers.append((key, int(p.fsm.state), p.proto is not None, getattr(p, '_teardown', None), p.neighbor.rib.outgoing.pending() if p.neighbor.rib else None))
        socks = tuple((len(s.tx), sum(len(d) for _, _, d in s.tx), s.consumed, len(s.rx), s.closed, s.connected) for s in self.sockets)
        timers = tuple(sorted(round(h.when() - self.clock.now, 6) for h in self.loop._scheduled if not h.cancelled()))
        procs = self.reactor.processes if hasattr(self.reactor, 'processes') else None
        pq = ()
        if procs is not None:
            pq = _container_sizes(procs)
        # a helper that does not read (reader_paused) lets its pipe fill: nothing is taken out of it behind its back
        out = () if getattr(self, 'reader_paused', False) else tuple(len(c.read_output()) for c in self.children.values())
        return (tuple(peers), socks, timers, pq, out, _container_sizes(self.reactor.asynchronous), len(self.events), self.main.done())

    def settle(self, max_rounds: int = 4000, calm: int = 8) -> int:
        """Run loop rounds with the clock frozen until nothing observable changes."""
        same = 0
        last = None
        n = 0
        while same < calm:
            self.loop._run_once()
            n += 1
            d = self.digest()
            if d == last:
                same += 1
            else:
                same = 0
                last = d
            if n > max_rounds:
                raise core.HarnessError('settle(): no quiescence (livelock?)')
        return n

    def next_deadline(self):
        ws = [h.when() for h in self.loop._scheduled if not h.cancelled()]
        return min(ws) if ws else None

    def advance(self, dt: float) -> None:
        """Move the clock forward by dt, firing timers in deadline order, settling after each."""
        target = self.clock.now + dt
        while True:
            nd = self.next_deadline()
            if nd is None or nd > target:
                break
            self.clock.now = max(self.clock.now, nd)
            self.settle()
        self.clock.now = target
        self.settle()

    def advance_to_next(self) -> bool:
        nd = self.next_deadline()
        if nd is None:
            return False
        self.clock.now = max(self.clock.now, nd)
        self.settle()
        return True

    # -- operator ----------------------------------------------------------------------------------
    def api_write(self, data: bytes, child: str | None = None) -> None:
        """Write bytes on the API child's stdout pipe and run the reader callback the loop registered."""
        c = self.children[child] if child else next(iter(self.children.values()))
        c.write_command_bytes(data)
        fd = c.stdout.fileno()
        if fd in self.loop.readers:
            cb, args = self.loop.readers[fd]
            cb(*args)

    def children_by_service(self) -> dict:
        """{helper process name: name of its stand-in child}: the table of running helpers of the real Processes object,
        found by content (a dict whose values are the stand-ins) whatever it is called."""
        procs = self.reactor.processes
        for v in vars(procs).values():
            if isinstance(v, dict) and v and all(isinstance(x, FakeChild) for x in v.values()):
                return {name: [k for k, c in self.children.items() if c is proc][0] for name, proc in v.items()}
        return {}

    def api_output(self, child: str | None = None) -> bytes:
        c = self.children[child] if child else next(iter(self.children.values()))
        return c.read_output()

    def signal(self, name: str) -> None:
        from exabgp.reactor.interrupt import Signal

        self.reactor.signal.received = getattr(Signal, name)

    def set_config(self, text: str) -> None:
        self._config_sources()[:] = [text]

    def _config_sources(self) -> list:
        """The list of configuration sources (texts or file names) the Configuration re-reads on reload: the one-element
        list given to its constructor, found by content if the attribute was renamed."""
        srcs = getattr(self.cfg, '_configurations', None)
        if isinstance(srcs, list):
            return srcs
        if getattr(self, '_sources_list', None) is not None:
            return self._sources_list
        for v in vars(self.cfg).values():
            if isinstance(v, list) and len(v) == 1 and v[0] == self.config_text:
                self._sources_list = v
                return v
        raise RuntimeError('the list of configuration sources was not found on the Configuration object')

    def config_is_text(self, flag: bool) -> None:
        """Switch the Configuration between "the sources are texts" and "the sources are file names"."""
        if hasattr(self.cfg, '_text'):
            self.cfg._text = flag
            return
        names = [k for k, v in vars(self.cfg).items() if isinstance(v, bool) and 'text' in k.lower()]
        if len(names) != 1:
            raise RuntimeError(f'the text/file switch of the Configuration object was not found ({names})')
        setattr(self.cfg, names[0], flag)

    def incoming(self, local=('127.0.0.1', 179), remote=('127.0.0.2', 40000)) -> FakeSocket:
        s = FakeSocket(self, 'in', local=local, remote=remote)
        self.lsock.queue.append(s)
        return s

    def peers_map(self) -> dict:
        """{peer name: Peer} of the reactor (its private table; found by content if it was renamed)."""
        m = getattr(self.reactor, '_peers', None)
        if isinstance(m, dict):
            return m
        from exabgp.reactor.peer import Peer

        for v in vars(self.reactor).values():
            if isinstance(v, dict) and v and all(isinstance(x, Peer) for x in v.values()):
                return v
        for v in vars(self.reactor).values():
            if isinstance(v, dict) and not v:
                continue
        return {}

    def peer(self, index: int = 0):
        keys = sorted(self.peers_map())
        return self.peers_map()[keys[index]] if keys else None

    def loop_exceptions(self) -> list:
        gc.collect(1)
        return list(self.loop.exceptions)


# ------------------------------------------------------------------------------------------------
# remote speaker
# ------------------------------------------------------------------------------------------------
class Remote:
    """A scripted BGP peer on one FakeSocket, built on the reference codec."""

    def __init__(self, world: World, sock: FakeSocket, asn: int = 65002, router_id: str = '9.9.9.9', hold: int = 180,
                 families=((1, 1),), asn4: bool = True, addpath=None, ext_msg: bool = False, rr: bool = True,
                 extra_caps=()) -> None:
        self.world = world
        self.sock = sock
        self.asn = asn
        self.router_id = router_id
        self.hold = hold
        self.families = tuple(families)
        self.asn4 = asn4
        self.addpath = addpath
        self.ext_msg = ext_msg
        self.rr = rr
        self.extra_caps = list(extra_caps)
        self._parsed = 0

    def open_body(self) -> bytes:
        caps = [wire.cap_mp(a, s) for a, s in self.families]
        if self.asn4:
            caps.append(wire.cap_asn4(self.asn))
        if self.addpath:
            caps.append(wire.cap_addpath(self.addpath))
        if self.ext_msg:
            caps.append((wire.CAP_EXT_MSG, b''))
        if self.rr:
            caps.append((wire.CAP_RR, b''))
        caps += self.extra_caps
        asn2 = self.asn if self.asn < 65536 else wire.AS_TRANS
        size = sum(4 + len(v) for _, v in caps)
        return wire.encode_open(asn2, self.hold, self.router_id, caps, style='extended' if size > 255 else 'one-per-param')

    def send(self, mtype: int, body: bytes = b'') -> None:
        self.sock.feed(wire.frame(mtype, body))

    def send_open(self) -> None:
        self.send(wire.OPEN, self.open_body())

    def send_keepalive(self) -> None:
        self.send(wire.KEEPALIVE)

    def received(self, max_size: int = 65535):
        """All messages ExaBGP has written so far: [(type, body)], header error, trailing bytes."""
        return wire.split_stream(self.sock.tx_bytes(), max_size)

    def received_types(self):
        msgs, err, rest = self.received()
        return [t for t, _ in msgs]


# ------------------------------------------------------------------------------------------------
# light variant: virtual loop + sockets only (no reactor) for component-level harnesses
# ------------------------------------------------------------------------------------------------
class LoopOnly:
    """Context manager: a VLoop set as the running loop, tcp helpers rebound, virtual clock."""

    def __init__(self) -> None:
        self.clock = VClock()
        self.sockets: list = []
        self.events: list = []
        self._saved: list = []

    def event(self, *e) -> None:
        self.events.append(e)

    def fsm_of(self, sock) -> str:
        return '?'

    def __enter__(self) -> 'LoopOnly':
        from exabgp.reactor.network import incoming as inc_mod

        nop = lambda *a, **k: None  # noqa: E731
        for n in ('asynchronous', 'nagle'):
            self._saved.append((inc_mod, n, getattr(inc_mod, n)))
            setattr(inc_mod, n, nop)
        self.loop = VLoop(self)
        self.loop._clock_resolution = 1e-6
        events._set_running_loop(self.loop)
        return self

    def __exit__(self, *exc) -> None:
        try:
            for t in asyncio.all_tasks(self.loop):
                t.cancel()
            for _ in range(5):
                self.loop._run_once()
        except Exception:
            pass
        events._set_running_loop(None)
        try:
            self.loop.close()
        except Exception:
            pass
        for obj, name, old in reversed(self._saved):
            setattr(obj, name, old)

    def run_until_blocked(self, task, max_rounds: int = 1000) -> None:
        """Run rounds until the task is done or nothing is ready (all waiters parked)."""
        n = 0
        while not task.done() and self.loop._ready:
            self.loop._run_once()
            n += 1
            if n > max_rounds:
                raise core.HarnessError('run_until_blocked: livelock')
