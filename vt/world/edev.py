"""E-dev: stateless deviation-bounded exploration of the real reactor in the virtual world.

An execution is a list of (step -> deviation) choices.  The default environment is a well-behaved
remote speaker + an operator script; at each macro step the explorer may replace the default action by
one deviation from the menu.  explore() enumerates every execution with at most `bound` deviations.
"""

from __future__ import annotations

import errno

from vt import core
from vt.ref import wire
from vt.world import EPOCH, Remote, World

BASE_CFG = """
process api { run /bin/cat; encoder json; }
neighbor 127.0.0.2 {
  router-id 1.2.3.4;
  local-address 127.0.0.1;
  local-as 65001;
  peer-as 65002;
  hold-time %(hold)d;
  %(extra)s
  capability { route-refresh enable; %(caps)s }
  api { processes [ api ]; neighbor-changes; %(apiopts)s }
  family { ipv4 unicast; ipv6 unicast; }
  static {
    route 10.0.0.0/24 next-hop 1.1.1.1;
    route 2001:db8::/48 next-hop 2001:db8::1;
    %(routes)s
  }
}
"""


def base_config(hold=9, extra='', caps='', apiopts='', routes='') -> str:
    return BASE_CFG % dict(hold=hold, extra=extra, caps=caps, apiopts=apiopts, routes=routes)


# a few malformed / unexpected messages, all built with the reference encoder
def bad_marker() -> bytes:
    m = bytearray(wire.frame(wire.KEEPALIVE, b''))
    m[3] = 0
    return bytes(m)


def bad_length_short() -> bytes:
    return wire.MARKER + b'\x00\x12\x04'


def bad_length_long() -> bytes:
    return wire.MARKER + b'\xff\xff\x04'


def bad_type() -> bytes:
    return wire.frame(9, b'')


def upd_announce(prefix=('192.0.2.0', 24), nh='10.9.9.9', asn=65002) -> bytes:
    attrs = [
        wire.encode_attr(wire.ORIGIN, b'\x00'),
        wire.encode_attr(wire.AS_PATH, wire.encode_as_path([(2, [asn])], True)),
        wire.encode_attr(wire.NEXT_HOP, wire.encode_attr_value(wire.NEXT_HOP, nh, True)),
    ]
    return wire.encode_update(attrs=attrs, nlri=[wire.nlri_ip(1, 1, prefix[0], prefix[1])])


def upd_malformed_attr_len() -> bytes:
    # attribute block length overruns the message
    return b'\x00\x00\x00\x40' + b'\x40\x01\x01\x00'


def upd_bad_origin_flags() -> bytes:
    # well-known ORIGIN flagged optional: RFC 4271 6.3 attribute flags error (3/4) / RFC 7606 treat-as-withdraw
    attrs = [
        wire.encode_attr(wire.ORIGIN, b'\x00', flags=wire.F_OPTIONAL),
        wire.encode_attr(wire.AS_PATH, wire.encode_as_path([(2, [65002])], True)),
        wire.encode_attr(wire.NEXT_HOP, bytes([10, 9, 9, 9])),
    ]
    return wire.encode_update(attrs=attrs, nlri=[wire.nlri_ip(1, 1, '192.0.2.0', 24)])


class Trace:
    def __init__(self) -> None:
        self.steps: list = []  # (step, action)
        self.menus: list = []  # per step: (default, [alternatives])


class Env:
    """Default reactive environment for one neighbor with an outbound (active) session."""

    def __init__(self, w: World, hold: int = 9, script=None, remote_opts=None, horizon: int = 30) -> None:
        self.w = w
        self.hold = hold
        self.remote_opts = dict(remote_opts or {})
        self.script = list(script or [])  # operator/remote script items consumed once established
        self.script_pos = 0
        self.remotes: dict[int, Remote] = {}  # socket index -> Remote
        self.sent_open: set[int] = set()
        self.sent_ka: set[int] = set()
        self.last_remote_tx: dict[int, float] = {}
        self.horizon = horizon
        self.injected: list = []  # (step, action, virtual time, socket index, fsm state before)
        self.step = 0
        self.speaks_first = False  # 'local-as auto': the remote sends its OPEN as soon as the connection is up
        self.multi = False  # several neighbors: the well-behaved remote answers on every connection
        self.remote_by_address: dict = {}  # peer address -> Remote keyword overrides (asn, router_id)

    # -- state inspection ------------------------------------------------------------------------
    def peer(self):
        """The neighbor under observation (with several neighbors: the one named by self.primary, None once removed)."""
        primary = getattr(self, 'primary', None)
        if not self.multi or primary is None:
            return self.w.peer()
        for p in self.w.peers_map().values():
            if p.neighbor.session.peer_address.top() == primary:
                return p
        return None

    def live_sockets(self):
        return [s for s in self.w.sockets if not s.closed]

    def current(self):
        """The socket the peer currently owns (or the newest live one)."""
        p = self.peer()
        if p is not None and p.proto and p.proto.connection and p.proto.connection.io is not None:
            return p.proto.connection.io
        live = self.live_sockets()
        if self.multi and p is not None:
            # the newest live connection of the first neighbor, not one of another neighbor
            addr = p.neighbor.session.peer_address.top()
            live = [s for s in live if s.remote[0] == addr]
        elif self.multi:
            live = [s for s in live if s.remote[0] == getattr(self, 'primary', None)]
        return live[-1] if live else None

    def remote(self, sock) -> Remote:
        r = self.remotes.get(sock.index)
        if r is None:
            opts = dict(self.remote_opts)
            opts.update(self.remote_by_address.get(sock.remote[0], {}))
            r = Remote(self.w, sock, hold=self.hold, families=((1, 1), (2, 1)), **opts)
            self.remotes[sock.index] = r
        return r

    def fsm(self) -> str:
        p = self.peer()
        return p.fsm.name() if p is not None else 'NONE'

    # -- default action ----------------------------------------------------------------------------
    def default_action(self) -> str:
        for s in self.live_sockets():
            if s.kind == 'out' and not s.connected and s._connect_waiter is not None and not s._connect_waiter.done():
                return f'connect-ok:{s.index}'
        if self.multi:
            candidates = [x for x in self.live_sockets() if x.connected]
        else:
            cur = self.current()
            candidates = [cur] if cur is not None and cur.connected else []
        for s in candidates:
            r = self.remote(s)
            types = r.received_types()
            if (wire.OPEN in types or self.speaks_first) and s.index not in self.sent_open:
                return f'open:{s.index}'
            if wire.KEEPALIVE in types and s.index in self.sent_open and s.index not in self.sent_ka:
                return f'keepalive:{s.index}'
        if candidates and self.fsm() == 'ESTABLISHED' and self.script_pos < len(self.script):
            return f'script:{self.script_pos}'
        return 'time'

    def menu(self) -> list[str]:
        """Deviations offered at this point (state dependent, deterministic order)."""
        return []

    # -- actions -----------------------------------------------------------------------------------
    def do(self, action: str) -> None:
        w = self.w
        name, _, arg = action.partition(':')
        cur = self.current()
        target = int(arg) if name in ('connect-ok', 'connect-refused', 'open', 'keepalive') and arg.isdigit() else (cur.index if cur else None)
        self.injected.append((self.step, action, round(w.clock.now - EPOCH, 3), target, self.fsm()))
        if name == 'connect-ok':
            s = w.sockets[int(arg)]
            s.connect_result = True
            s._connect_waiter.set_result(True)
        elif name == 'connect-refused':
            s = w.sockets[int(arg)]
            e = OSError(errno.ECONNREFUSED, 'refused')
            s.connect_result = e
            s._connect_waiter.set_result(e)
        elif name == 'open':
            s = w.sockets[int(arg)]
            self.remote(s).send_open()
            self.sent_open.add(s.index)
            self.last_remote_tx[s.index] = w.clock.now
        elif name == 'keepalive':
            s = w.sockets[int(arg)]
            self.remote(s).send_keepalive()
            self.sent_ka.add(s.index)
            self.last_remote_tx[s.index] = w.clock.now
        elif name == 'script':
            item = self.script[int(arg)]
            self.script_pos = int(arg) + 1
            self.run_script_item(item)
        elif name == 'time':
            self.pass_time()
        else:
            self.deviate(name, arg)
        w.settle()

    def run_script_item(self, item) -> None:
        kind = item[0]
        s = self.current()
        if kind == 'update' and s is not None:
            self.remote(s).send(wire.UPDATE, item[1])
            self.last_remote_tx[s.index] = self.w.clock.now
        elif kind == 'api':
            self.w.api_write(item[1])
        elif kind == 'signal':
            self.w.signal(item[1])
        elif kind == 'config':
            self.w.set_config(item[1])
        elif kind == 'wait':
            self.w.advance(item[1])

    def pass_time(self, limit: float = 1.0) -> None:
        """Default idle behaviour: move to the next deadline (at most `limit` seconds away); a well-behaved
        remote sends KEEPALIVE when a third of the hold time has passed since it last sent anything."""
        w = self.w
        target = w.clock.now + limit
        guard = 0
        while w.clock.now < target:
            guard += 1
            if guard > 10000:
                raise core.HarnessError('pass_time did not terminate')
            nd = w.next_deadline()
            ka_due = None
            s = self.current()
            if s is not None and s.index in self.sent_ka and self.hold:
                ka_due = self.last_remote_tx.get(s.index, w.clock.now) + self.hold / 3.0
            others = []
            if self.multi and self.hold:
                others = [(self.last_remote_tx.get(x.index, w.clock.now) + self.hold / 3.0, x) for x in self.live_sockets()
                          if x is not s and x.index in self.sent_ka and not getattr(self, 'hold_silenced', False)]
            cands = [t for t in (nd, ka_due, target) if t is not None] + [t for t, _ in others]
            nxt = min(cands)
            w.clock.now = max(w.clock.now, nxt)
            if ka_due is not None and w.clock.now >= ka_due and s is not None and not s.closed:
                self.remote(s).send_keepalive()
                self.last_remote_tx[s.index] = w.clock.now
            for due, x in others:
                if w.clock.now >= due and not x.closed:
                    self.remote(x).send_keepalive()
                    self.last_remote_tx[x.index] = w.clock.now
            w.settle()
            if self.default_action() != 'time':
                break

    def deviate(self, name: str, arg: str) -> None:
        raise core.HarnessError(f'unknown action {name}')


def run(env_factory, cfg: str, choices: dict, steps: int, env_kwargs=None, world_env=None, tail: float = 0.0):
    """One execution.  choices: {step: action}.  Returns (world-summary dict, env, trace)."""
    tr = Trace()
    with World(cfg, env=world_env) as w:
        env = env_factory(w, **(env_kwargs or {}))
        for step in range(steps):
            env.step = step
            default = env.default_action()
            menu = env.menu()
            tr.menus.append((default, list(menu)))
            action = choices.get(step, default)
            if step in choices and action not in menu and action != default:
                raise core.HarnessError(f'replay divergence at step {step}: {action} not offered (menu {menu})')
            tr.steps.append(action)
            env.do(action)
            if w.main.done():
                break
        if tail and not w.main.done():
            # grace period so that the last action can take effect (well-behaved remote keeps the session alive)
            env.step = steps
            end = w.clock.now + tail
            guard = 0
            while w.clock.now < end and guard < 100:
                guard += 1
                env.pass_time(min(1.0, end - w.clock.now))
        summary = summarize(w, env)
    return summary, tr


def summarize(w: World, env: Env) -> dict:
    """Picklable observation of a finished execution."""
    socks = []
    for s in w.sockets:
        msgs, err, rest = wire.split_stream(s.tx_bytes(), 65535)
        # per message: (time, fsm-at-write, type, body hex)
        per = []
        pos = 0
        offsets = []
        for t, st, d in s.tx:
            offsets.append((pos, t, st))
            pos += len(d)
        off = 0
        for mtype, body in msgs:
            # find the write that contains this message start
            when, st = None, None
            for p, t, stt in offsets:
                if p <= off:
                    when, st = t, stt
            per.append((round(when - EPOCH, 3), st, mtype, body.hex()))
            off += 19 + len(body)
        socks.append({
            'index': s.index, 'kind': s.kind, 'remote': s.remote[0], 'connected': s.connected, 'closed': s.closed,
            'closed_at': None if s.closed_at is None else round(s.closed_at - EPOCH, 3),
            'tx': per, 'tx_err': err, 'tx_rest': len(rest), 'rx_left': len(s.rx), 'consumed': s.consumed, 'accepted': s.accepted,
        })
    peers = []
    for key in sorted(w.peers_map()):
        p = w.peers_map()[key]
        owned = None
        if p.proto and p.proto.connection and p.proto.connection.io is not None:
            owned = p.proto.connection.io.index
        peers.append({'key': key, 'fsm': p.fsm.name(), 'owned': owned})
    return {
        'sockets': socks,
        'fsm_log': list(w.fsm_log),
        'api': w.api_output().decode('ascii', 'replace') if w.children else '',
        'events': list(w.events),
        'injected': list(env.injected),
        'peers': peers,
        'loop_exceptions': w.loop_exceptions(),
        'main_done': w.main.done(),
        'end': round(w.clock.now - EPOCH, 3),
    }


def explore(runner, bound: int, on_execution, max_executions: int | None = None):
    """Enumerate every execution with at most `bound` deviations (stateless, prefix replay).

    runner(choices: dict) -> (summary, trace);  on_execution(choices, summary, trace)."""
    count = 0
    stack = [({}, -1)]
    capped = False
    while stack:
        choices, last = stack.pop()
        summary, tr = runner(choices)
        count += 1
        on_execution(choices, summary, tr)
        if max_executions is not None and count >= max_executions:
            capped = bool(stack)
            break
        if len(choices) >= bound:
            continue
        for i in range(len(tr.menus) - 1, last, -1):
            default, menu = tr.menus[i]
            for alt in reversed(menu):
                c = dict(choices)
                c[i] = alt
                stack.append((c, i))
    return count, capped


REPLAY_STRIDE = 16  # every 16th execution of a layer is run a second time (on whichever worker is free then)
REPLAY_STATS = {'replayed_twice': 0, 'divergences': 0}


def replay_some(pool, run_one, params, layer_choices, results, what=lambda r: r[0]):
    """Determinism is owned, and shown: a fixed fraction of the executions is run twice and must be observed identically
    (a divergence is an error of the machinery - exit 2 - never a verdict)."""
    idx = list(range(0, len(layer_choices), REPLAY_STRIDE if len(layer_choices) > 64 else 1))
    again = pool.map(run_one, [(params, layer_choices[i]) for i in idx], chunksize=max(1, len(idx) // 64))
    for i, r2 in zip(idx, again):
        REPLAY_STATS['replayed_twice'] += 1
        if what(results[i]) != what(r2):
            REPLAY_STATS['divergences'] += 1
            raise core.HarnessError(f'the same schedule {sorted(layer_choices[i].items())} of {params} was observed differently the second time: {str(what(results[i]))[:300]} / {str(what(r2))[:300]}')


def explore_layers(pool, run_one, params, bound: int, record, budget=None, cap_layer: int | None = None, menu_filter=None):
    """Level-synchronous version of explore() for a multiprocessing pool.

    run_one((params, choices)) -> (result, menus) must be a picklable top-level function.
    record(choices, result) is called in the parent for every execution.
    Returns (executions, completed_bound, caps)."""
    layer = [({}, -1)]
    total = 0
    caps = []
    completed = -1
    for depth in range(bound + 1):
        if not layer:
            completed = depth
            continue
        if cap_layer is not None and len(layer) > cap_layer:
            caps.append(f'layer {depth} has {len(layer)} executions > cap {cap_layer}: not run')
            break
        if budget is not None and budget():
            caps.append(f'layer {depth} ({len(layer)} executions) not run: time budget')
            break
        results = pool.map(run_one, [(params, c) for c, _ in layer], chunksize=max(1, len(layer) // 256))
        replay_some(pool, run_one, params, [c for c, _ in layer], results)
        nxt = []
        for (choices, last), (res, menus) in zip(layer, results):
            total += 1
            record(choices, res)
            if depth < bound:
                for i in range(last + 1, len(menus)):
                    for alt in menus[i][1]:
                        if menu_filter is not None and not menu_filter(depth + 1, alt):
                            continue
                        c = dict(choices)
                        c[i] = alt
                        nxt.append((c, i))
        completed = depth
        layer = nxt
    return total, completed, caps
