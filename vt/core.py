"""Shared plumbing: results, evidence, known findings, replay artefacts.

A check module (vt/checks/cXX.py) exposes

    PROPERTY = 'C04'
    def run(ctx) -> None      # explores, calls ctx.violation()/ctx.count()/ctx.sample()
    def replay(case) -> list[dict]   # re-executes one recorded case, returns violations [{signature, what}]

Nothing here imports exabgp.
"""

from __future__ import annotations

import fnmatch
import hashlib
import json
import os
import subprocess
import sys
import time

ROOT = os.path.dirname(os.path.dirname(os.path.abspath(__file__)))
# evidence describes runs against /repo itself: a run against another tree (VERIF_REPO_SRC, used for scratch
# worktrees with seeded changes) writes its evidence to a scratch directory instead
_OTHER_TREE = os.environ.get('VERIF_REPO_SRC') not in (None, '', '/repo/src')
EVIDENCE_DIR = os.environ.get('VERIF_EVIDENCE_DIR') or ('/var/tmp/verif-scratch-evidence' if _OTHER_TREE else os.path.join(ROOT, 'evidence'))
REPLAY_DIR = os.path.join(ROOT, 'replays')
KNOWN_FILE = os.path.join(ROOT, 'known_findings.json')
PYTHON = '/venv/bin/python'
MAX_CONFIRM = 6  # violations re-executed in a fresh interpreter before being printed


def replay_check(ctx, pool, fn, jobs, results, stride=16, key=lambda r: r):
    """Run every stride-th job a second time and require the same observation: determinism of the machinery is shown on
    every run, and a divergence is an error of the machinery (exit 2), never a verdict."""
    idx = list(range(0, len(jobs), stride if len(jobs) > 64 else 1))
    again = pool.map(fn, [jobs[i] for i in idx], chunksize=max(1, len(idx) // 64))
    for i, r2 in zip(idx, again):
        if repr(key(results[i])) != repr(key(r2)):
            raise HarnessError(f'job {str(jobs[i])[:200]} was observed differently the second time: {str(key(results[i]))[:300]} / {str(key(r2))[:300]}')
    ctx.coverage_extra['replayed_twice'] = ctx.coverage_extra.get('replayed_twice', 0) + len(idx)
    ctx.coverage_extra['divergences'] = 0


class HarnessError(Exception):
    """The machinery itself misbehaved (never reported as a VIOLATION; exit 2)."""


def digest(obj) -> str:
    return hashlib.sha1(json.dumps(obj, sort_keys=True, default=repr).encode()).hexdigest()[:16]


def load_known() -> list[dict]:
    """known_findings.json plus known_findings.d/*.json (one file per property)."""
    out: list[dict] = []
    files = [KNOWN_FILE] if os.path.exists(KNOWN_FILE) else []
    d = os.path.join(ROOT, 'known_findings.d')
    if os.path.isdir(d):
        files += [os.path.join(d, f) for f in sorted(os.listdir(d)) if f.endswith('.json')]
    for path in files:
        with open(path) as f:
            out += json.load(f).get('findings', [])
    return out


class Ctx:
    def __init__(self, pid: str, tier: str, seed: int) -> None:
        self.pid = pid
        self.tier = tier
        self.seed = seed
        self.t0 = time.time()
        self.counters: dict[str, int] = {}
        self.samples: list = []
        self.coverage_extra: dict = {}
        self.assumptions: list[str] = []
        self.caps_hit: list[str] = []
        self.exhaustive = True
        # signature -> {'what':..., 'case':..., 'count': n}
        self.viol: dict[str, dict] = {}
        self.rule = ''
        self.budget_s = float(os.environ.get('VERIF_BUDGET_S', '0') or 0)

    # ---- bookkeeping ------------------------------------------------------------------
    def count(self, key: str, n: int = 1) -> None:
        self.counters[key] = self.counters.get(key, 0) + n

    def sample(self, s, limit: int = 6) -> None:
        if len(self.samples) < limit:
            self.samples.append(s)

    def cap(self, what: str) -> None:
        self.exhaustive = False
        if what not in self.caps_hit:
            self.caps_hit.append(what)

    def elapsed(self) -> float:
        return time.time() - self.t0

    def violation(self, signature: str, what: str, case: dict) -> None:
        """Record a failing case. `signature` identifies the *class* of failure (used for
        known-finding matching); `case` must be enough for replay(case) to reproduce it."""
        v = self.viol.get(signature)
        if v is None:
            self.viol[signature] = {'what': what, 'case': case, 'count': 1}
        else:
            v['count'] += 1
            # keep the smallest witness
            if len(json.dumps(case, default=repr)) < len(json.dumps(v['case'], default=repr)):
                v['case'] = case
                v['what'] = what

    def merge(self, other: dict) -> None:
        """Merge the picklable result of a worker shard (see shard_result())."""
        for k, n in other.get('counters', {}).items():
            self.count(k, n)
        for s in other.get('samples', []):
            self.sample(s)
        for sig, v in other.get('viol', {}).items():
            mine = self.viol.get(sig)
            if mine is None:
                self.viol[sig] = dict(v)
            else:
                mine['count'] += v['count']
                if len(json.dumps(v['case'], default=repr)) < len(json.dumps(mine['case'], default=repr)):
                    mine['case'] = v['case']
                    mine['what'] = v['what']
        for c in other.get('caps', []):
            self.cap(c)
        for k, v in other.get('sets', {}).items():
            cur = self.coverage_extra.setdefault('_sets', {}).setdefault(k, set())
            cur.update(v)

    def shard_result(self) -> dict:
        return {
            'counters': self.counters,
            'samples': self.samples,
            'viol': self.viol,
            'caps': self.caps_hit,
            'sets': {k: list(v) for k, v in self.coverage_extra.get('_sets', {}).items()},
        }

    def add_to_set(self, name: str, item) -> None:
        self.coverage_extra.setdefault('_sets', {}).setdefault(name, set()).add(item)

    def set_size(self, name: str) -> int:
        return len(self.coverage_extra.get('_sets', {}).get(name, ()))


def write_replay(pid: str, signature: str, what: str, case: dict) -> str:
    os.makedirs(REPLAY_DIR, exist_ok=True)
    name = f'{pid}-{digest(signature)}.json'
    path = os.path.join(REPLAY_DIR, name)
    with open(path, 'w') as f:
        json.dump({'property': pid, 'signature': signature, 'what': what, 'case': case}, f, indent=1, default=repr)
    return path


def confirm_in_fresh_process(path: str) -> tuple[bool, str]:
    """Re-execute a recorded violation in a fresh interpreter. Returns (reproduced, output)."""
    env = dict(os.environ)
    env['VERIF_REPLAY_QUIET'] = '1'
    p = subprocess.run(
        [PYTHON, '-m', 'vt.run', '--replay', path], cwd=ROOT, env=env, capture_output=True, text=True, timeout=600
    )
    return p.returncode == 1, (p.stdout + p.stderr)[-2000:]


def match_known(pid: str, signature: str, known: list[dict]) -> dict | None:
    for k in known:
        if k.get('property') != pid or k.get('status') != 'open':
            continue
        pat = k.get('signature', '')
        if signature == pat or fnmatch.fnmatchcase(signature, pat):
            return k
    return None


def finish(ctx: Ctx, level: str = 'model_checking') -> int:
    """Write evidence, print KNOWN-FINDING / VIOLATION lines, return exit code."""
    known = load_known()
    cov: dict = {}
    c = ctx.counters
    cov['states'] = max(1, c.get('states', c.get('executions', 0)))
    cov['transitions'] = max(1, c.get('transitions', c.get('executions', 0)))
    cov['traces_validated_against_impl'] = c.get('executions', c.get('transitions', 0))
    cov['evaluations'] = max(1, c.get('executions', c.get('transitions', 0)))
    cov['distinct_nontrivial'] = c.get('nontrivial', 0)
    cov['rule'] = ctx.rule
    cov['samples'] = ctx.samples or ['(none recorded)']
    cov['exhaustive'] = ctx.exhaustive and not ctx.caps_hit
    cov['caps_hit'] = ctx.caps_hit
    cov['counters'] = dict(sorted(c.items()))
    for k, v in ctx.coverage_extra.items():
        if k == '_sets':
            for name, s in v.items():
                cov[f'distinct_{name}'] = len(s)
        else:
            cov[k] = v

    new_viol = []
    known_hit = []
    for sig in sorted(ctx.viol):
        v = ctx.viol[sig]
        k = match_known(ctx.pid, sig, known)
        if k is not None:
            known_hit.append((sig, v, k))
        else:
            new_viol.append((sig, v))

    rc = 0
    lines = []
    seen_known = set()
    for sig, v, k in known_hit:
        kid = k.get('signature')
        if kid in seen_known:
            continue
        seen_known.add(kid)
        lines.append(f'KNOWN-FINDING: property={ctx.pid} {k.get("what", v["what"])} [signature={kid}]')
        if os.environ.get('VERIF_SHOW_WITNESS') == '1':
            lines.append(f'  this run: cases={v["count"]} {v["what"]} case={json.dumps(v["case"], default=repr)[:600]}')
    diverged = []
    confirmed = 0
    for sig, v in new_viol:
        path = write_replay(ctx.pid, sig, v['what'], v['case'])
        confirmed += 1
        if os.environ.get('VERIF_NO_CONFIRM') == '1' or confirmed > MAX_CONFIRM:
            ok, out = True, ''
        else:
            try:
                ok, out = confirm_in_fresh_process(path)
            except subprocess.TimeoutExpired:
                ok, out = False, 'replay timeout'
        if ok:
            rc = 1
            lines.append(f'VIOLATION property={ctx.pid} replay={path}')
            lines.append(f'  signature={sig} cases={v["count"]}: {v["what"]}')
        else:
            diverged.append((sig, path, out))
    cov['known_findings_hit'] = sorted(seen_known)
    cov['violation_signatures'] = [s for s, _ in new_viol]
    ev = {
        'property_id': ctx.pid,
        'tier': ctx.tier,
        'seed': ctx.seed,
        'level': level,
        'coverage': cov,
        'assumptions': ctx.assumptions,
        'wall_s': round(ctx.elapsed(), 2),
        'violations': len([1 for s, v in new_viol]),
    }
    os.makedirs(EVIDENCE_DIR, exist_ok=True)
    with open(os.path.join(EVIDENCE_DIR, f'{ctx.pid}.json'), 'w') as f:
        json.dump(ev, f, indent=1, default=repr, sort_keys=True)
        f.write('\n')
    for line in lines:
        print(line)
    summary = (
        f'{ctx.pid} {ctx.tier}: states={cov["states"]} transitions={cov["transitions"]} '
        f'executions={cov["traces_validated_against_impl"]} nontrivial={cov["distinct_nontrivial"]} '
        f'exhaustive={cov["exhaustive"]} caps={ctx.caps_hit} known={len(seen_known)} new={len(new_viol)} '
        f'wall={ev["wall_s"]}s'
    )
    print(summary)
    if diverged:
        for sig, path, out in diverged:
            print(f'HARNESS-DIVERGENCE property={ctx.pid} signature={sig} replay={path}\n{out}', file=sys.stderr)
        # a violation confirmed in a fresh interpreter stands on its own (exit 1); only when nothing was confirmed
        # is the run reported as a harness problem
        return rc or 2
    return rc


def _json_no_dup(pairs):
    seen = set()
    for k, _ in pairs:
        if k in seen:
            raise ValueError(f'duplicate key {k!r}')
        seen.add(k)
    return dict(pairs)


def _json_no_constant(name):
    raise ValueError(f'{name} is not a JSON value (RFC 8259 has no NaN / Infinity)')


def strict_json(text: str):
    """json.loads as RFC 8259 reads: no duplicate key inside an object, no NaN / Infinity / -Infinity tokens (Python's parser takes both)."""
    import json

    return json.loads(text, object_pairs_hook=_json_no_dup, parse_constant=_json_no_constant)
