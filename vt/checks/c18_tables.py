"""C18 tables: base definitions and deviations per grammar, each with the wire value it must produce if accepted.

Nothing here imports exabgp.  A deviation is

    Dev(kw, bnd, text, cls, eff)

kw    keyword it is about (grammar-specific parsers get a prefix: 'flow.destination', 'vpls.base', 'fam.med')
bnd   label of the boundary ('2^32', 'missing', 'twice', 'n=256' ...)
text  what is written (with the keyword); a deviation on a base keyword replaces the base segment of that keyword
cls   'ok'     a value the wire format holds and the RFCs allow, written in the documented syntax: must be accepted
      'bad'    a value the wire format cannot hold (or no value at all): must be refused
      'either' alternative / sloppy syntax: may be refused; if accepted the wire must carry `eff`
eff   function(R) applying the value to the abstract definition R (or a list of such functions: any of them may be what
      is sent, used for a keyword given twice)
"""

from __future__ import annotations

import ipaddress
import struct

P32, P64, P20, P16, P24 = 2**32, 2**64, 2**20, 2**16, 2**24

WELLKNOWN = {'no-export': 0xFFFFFF01, 'no-advertise': 0xFFFFFF02, 'no-export-subconfed': 0xFFFFFF03, 'nopeer': 0xFFFFFF04, 'blackhole': 0xFFFF029A}


class Dev:
    __slots__ = ('kw', 'bnd', 'text', 'cls', 'eff', 'kws', 'tail', 'long', 'big', 'must', 'seg', 'post', 'block', 'flat_only', 'solo')

    def __init__(self, kw, bnd, text, cls, eff=None, kws=None, tail=False, long=False, big=False, must=False, seg=None, post=None, block=None,
                 flat_only=False, solo=False):
        self.solo = solo        # never combined with another deviation (it changes how everything before it is read)
        self.kw, self.bnd, self.text, self.cls, self.eff = kw, bnd, text, cls, eff
        self.kws = frozenset(kws or [kw])
        self.tail, self.long, self.big, self.must = tail, long, big, must
        self.seg = seg          # name of the base segment replaced (None: appended); text None removes the segment
        self.post = post        # function(text) -> text applied to the rendered flat definition (syntax deviations)
        self.block = block      # flow: 'match' | 'then' | 'top'
        self.flat_only = flat_only or post is not None

    @property
    def key(self):
        return f'{self.kw}:{self.bnd}'


def blabel(v):
    """boundary label for an integer"""
    names = {-1: '-1', 0: '0', 1: '1', P16 - 1: '2^16-1', P16: '2^16', P20 - 1: '2^20-1', P20: '2^20', P20 - 2: '2^20-2', P24 - 1: '2^24-1', P24: '2^24',
             P32 - 2: '2^32-2', P32 - 1: '2^32-1', P32: '2^32', P64 - 2: '2^64-2', P64 - 1: '2^64-1', P64: '2^64', 2**65: '2^65', P16 - 2: '2^16-2'}
    return names.get(v, str(v))


# ---------------------------------------------------------------------------------------------
# effects on the abstract INET definition
#   R = {'afi', 'prefixes': [(addr, mask)], 'pid', 'labels', 'rd' (bytes), 'nh', 'attrs': {...}, 'sid', 'generics': [(code, flags, hex)],
#        'skip': set(), 'split': None}
# ---------------------------------------------------------------------------------------------
def set_attr(name, value):
    def eff(R):
        R['attrs'][name] = value
    eff.__name__ = f'{name}={str(value)[:30]}'
    return eff


def set_field(name, value):
    def eff(R):
        R[name] = value
    return eff


def skip(*names):
    def eff(R):
        R['skip'].update(names)
    return eff


def nothing(R):
    return None


def both(*effs):
    def eff(R):
        for e in effs:
            e(R)
    return eff


def rd0(asn, n):
    return struct.pack('!HHL', 0, asn, n)


def rd1(ip, n):
    return struct.pack('!H', 1) + ipaddress.ip_address(ip).packed + struct.pack('!H', n)


def rd2(asn, n):
    return struct.pack('!HLH', 2, asn, n)


def comm(a, b):
    return (a << 16) | b


def distinct_comms(n):
    return [comm(64512 + i // 65536, i % 65536) for i in range(1, n + 1)]


def comm_text(c):
    return f'{c >> 16}:{c & 0xFFFF}'


def ext_target(a, b, sub=2):
    if isinstance(a, str):
        return (bytes([0x01, sub]) + ipaddress.ip_address(a).packed + b.to_bytes(2, 'big')).hex()
    if a > 65535:
        return (bytes([0x02, sub]) + a.to_bytes(4, 'big') + b.to_bytes(2, 'big')).hex()
    return (bytes([0x00, sub]) + a.to_bytes(2, 'big') + b.to_bytes(4, 'big')).hex()


def sid_value(index, srgb=None):
    return {'index': index, 'srgb': srgb, 'other': []}


# ---------------------------------------------------------------------------------------------
# numeric helper
# ---------------------------------------------------------------------------------------------
def numeric(kw, word, maximum, attr, values=None, hex_ok=None, prefix=''):
    """deviations of a scalar unsigned keyword with the given maximum"""
    out = []
    vals = values or [-1, 0, 1, P16 - 1, P16, maximum - 1, maximum, maximum + 1, P32 - 1, P32, P64]
    seen = set()
    for v in vals:
        if v in seen:
            continue
        seen.add(v)
        ok = 0 <= v <= maximum
        out.append(Dev(prefix + kw, blabel(v), f'{word} {v}', 'ok' if ok else 'bad', set_attr(attr, v) if ok else None, must=(ok and v == maximum)))
    out.append(Dev(prefix + kw, 'non-numeric', f'{word} abc', 'bad'))
    out.append(Dev(prefix + kw, 'float', f'{word} 1.5', 'bad'))
    out.append(Dev(prefix + kw, 'missing-value', f'{word}', 'bad', tail=True))
    out.append(Dev(prefix + kw, 'hex', f'{word} 0x10', 'either', set_attr(attr, 16)))
    out.append(Dev(prefix + kw, 'twice', f'{word} 1 {word} 2', 'either', [set_attr(attr, 1), set_attr(attr, 2)]))
    return out


V4NET = {0: '0.0.0.0', 1: '128.0.0.0', 8: '10.0.0.0', 24: '10.0.0.0', 31: '10.0.0.2', 32: '10.0.0.1'}
V6NET = {0: '::', 1: '8000::', 8: '2000::', 24: '2001:d00::', 31: '2001:db8::', 32: '2001:db8::', 33: '2001:db8:8000::', 48: '2001:db8:1::', 64: '2001:db8:0:1::',
         127: '2001:db8::2', 128: '2001:db8::1'}


def prefix_devs(word, afi, p=''):
    """word: 'route' (static) or 'ipv4 unicast' ... ; the prefix segment is '<word> <prefix>'"""
    out = []
    nets, top, base = (V4NET, 32, '10.0.0.0') if afi == 1 else (V6NET, 128, '2001:db8::')
    for m, net in sorted(nets.items()):
        out.append(Dev(p + 'prefix', f'v{4 if afi == 1 else 6}-mask={m}', f'{word} {net}/{m}', 'ok', set_field('prefixes', [(net, m)]), seg='prefix',
                       must=(afi == 2 and m in (32, 128))))
    for m in ([33, 128, 129, 256, P32, -1] if afi == 1 else [129, 256, P32, -1]):
        out.append(Dev(p + 'prefix', f'v{4 if afi == 1 else 6}-mask={blabel(m)}', f'{word} {base}/{m}', 'bad', seg='prefix'))
    out.append(Dev(p + 'prefix', 'mask-non-numeric', f'{word} {base}/abc', 'bad', seg='prefix'))
    out.append(Dev(p + 'prefix', 'mask-empty', f'{word} {base}/', 'bad', seg='prefix'))
    host = '10.0.0.1' if afi == 1 else '2001:db8::1'
    out.append(Dev(p + 'prefix', 'no-mask', f'{word} {host}', 'either', set_field('prefixes', [(host, top)]), seg='prefix'))
    out.append(Dev(p + 'prefix', 'host-bits-set', f'{word} {host}/{24 if afi == 1 else 32}', 'either', set_field('prefixes', [(base, 24 if afi == 1 else 32)]), seg='prefix'))
    bad = ['10.0.0.256/24', '10.0.0/24', 'abc/24'] if afi == 1 else ['2001:db8::g/32', '2001:db8:::/32']
    for i, b in enumerate(bad):
        out.append(Dev(p + 'prefix', f'bad-address-{i}', f'{word} {b}', 'bad', seg='prefix'))
    out.append(Dev(p + 'prefix', 'missing', f'{word}', 'bad', seg='prefix'))
    return out


def nexthop_devs(afi, p=''):
    good = '10.255.0.1' if afi == 1 else '2001:db8:ffff::1'
    out = [
        Dev(p + 'next-hop', 'bad-address', 'next-hop 10.255.0.256' if afi == 1 else 'next-hop 2001:db8::g', 'bad', seg='next-hop'),
        Dev(p + 'next-hop', 'non-address', 'next-hop abc', 'bad', seg='next-hop'),
        Dev(p + 'next-hop', 'missing-value', 'next-hop', 'bad', tail=True, seg='next-hop'),
        Dev(p + 'next-hop', 'missing', None, 'bad', seg='next-hop'),
        Dev(p + 'next-hop', 'twice', f'next-hop {good} next-hop {good}', 'either', nothing, seg='next-hop'),
    ]
    if afi == 1:
        out.append(Dev(p + 'next-hop', 'self', 'next-hop self', 'ok', set_field('nh', 'self'), seg='next-hop'))
    return out


def attribute_devs(p='', vpls=False):
    """keywords of path attributes, shared by the static, attributes, family and vpls grammars"""
    out = []
    D = Dev
    # origin
    for i, w in enumerate(('igp', 'egp', 'incomplete')):
        out.append(D(p + 'origin', w, f'origin {w}', 'ok', set_attr('origin', i)))
    out += [D(p + 'origin', 'uppercase', 'origin IGP', 'either', set_attr('origin', 0)), D(p + 'origin', 'unknown-word', 'origin foo', 'bad'),
            D(p + 'origin', 'number', 'origin 0', 'bad'), D(p + 'origin', 'missing-value', 'origin', 'bad', tail=True),
            D(p + 'origin', 'twice', 'origin egp origin incomplete', 'either', [set_attr('origin', 1), set_attr('origin', 2)])]
    # as-path
    seq = lambda l: [(2, list(l))]  # noqa: E731
    out += [D(p + 'as-path', 'n=0', 'as-path [ ]', 'ok', set_attr('as-path', []))]
    for v in (1, P16 - 1, P16, 70000, P32 - 1):
        out.append(D(p + 'as-path', f'asn={blabel(v)}', f'as-path [ {v} ]', 'ok', set_attr('as-path', seq([v])), must=v in (70000, P32 - 1)))
    out += [D(p + 'as-path', 'asn=0', 'as-path [ 0 ]', 'either', set_attr('as-path', seq([0]))),
            D(p + 'as-path', 'asn=2^32', f'as-path [ {P32} ]', 'bad'), D(p + 'as-path', 'asn=2^64', f'as-path [ {P64} ]', 'bad'),
            D(p + 'as-path', 'asn=-1', 'as-path [ -1 ]', 'bad'), D(p + 'as-path', 'asn=non-numeric', 'as-path [ abc ]', 'bad'),
            D(p + 'as-path', 'n=2', 'as-path [ 65010 70000 ]', 'ok', set_attr('as-path', seq([65010, 70000]))),
            D(p + 'as-path', 'set', 'as-path ( 65010 65011 )', 'ok', set_attr('as-path', [(1, [65010, 65011])])),
            D(p + 'as-path', 'seq+set', 'as-path [ 65010 70000 ] ( 65020 65021 )', 'ok', set_attr('as-path', [(2, [65010, 70000]), (1, [65020, 65021])])),
            D(p + 'as-path', 'bare-asn', 'as-path 70000', 'either', set_attr('as-path', seq([70000]))),
            D(p + 'as-path', 'missing-value', 'as-path', 'bad', tail=True),
            D(p + 'as-path', 'unclosed-[', 'as-path [ 65010', 'either', set_attr('as-path', seq([65010])), tail=True),
            D(p + 'as-path', 'unclosed-(', 'as-path ( 65010', 'either', set_attr('as-path', [(1, [65010])]), tail=True),
            D(p + 'as-path', 'mismatched-closer', 'as-path [ 65010 )', 'either', skip('as-path')),
            D(p + 'as-path', 'twice', 'as-path [ 65010 ] as-path [ 65011 ]', 'either', [set_attr('as-path', seq([65010])), set_attr('as-path', seq([65011]))])]
    for n in (255, 256, 1000):
        asns = [64512 + i for i in range(n)]
        out.append(D(p + 'as-path', f'n={n}', 'as-path [ ' + ' '.join(map(str, asns)) + ' ]', 'ok', set_attr('as-path', seq(asns)), long=True))
    # med / local-preference / aigp
    out += numeric('med', 'med', P32 - 1, 'med', prefix=p)
    out += numeric('local-preference', 'local-preference', P32 - 1, 'local-preference', prefix=p)
    if not vpls:
        out += numeric('aigp', 'aigp', P64 - 1, 'aigp', values=[-1, 0, 1, P32 - 1, P32, P64 - 2, P64 - 1, P64, 2**65], prefix=p)
        out += [D(p + 'aigp', 'hex-max', 'aigp 0xffffffffffffffff', 'either', set_attr('aigp', P64 - 1)), D(p + 'aigp', 'hex-2^64', 'aigp 0x10000000000000000', 'bad')]
    # atomic-aggregate
    out += [D(p + 'atomic-aggregate', 'set', 'atomic-aggregate', 'ok', set_attr('atomic-aggregate', True)),
            D(p + 'atomic-aggregate', 'twice', 'atomic-aggregate atomic-aggregate', 'either', set_attr('atomic-aggregate', True)),
            D(p + 'atomic-aggregate', 'with-value', 'atomic-aggregate 1', 'either', set_attr('atomic-aggregate', True))]
    # aggregator
    for v in (1, P16 - 1, P16, P32 - 1):
        out.append(D(p + 'aggregator', f'asn={blabel(v)}', f'aggregator ( {v}:10.9.8.7 )', 'ok', set_attr('aggregator', (v, '10.9.8.7')), must=v == P32 - 1))
    out += [D(p + 'aggregator', 'asn=0', 'aggregator ( 0:10.9.8.7 )', 'either', set_attr('aggregator', (0, '10.9.8.7'))),
            D(p + 'aggregator', 'asn=2^32', f'aggregator ( {P32}:10.9.8.7 )', 'bad'), D(p + 'aggregator', 'asn=-1', 'aggregator ( -1:10.9.8.7 )', 'bad'),
            D(p + 'aggregator', 'asn=non-numeric', 'aggregator ( abc:10.9.8.7 )', 'bad'),
            D(p + 'aggregator', 'bad-address', 'aggregator ( 65010:10.9.8.256 )', 'bad'), D(p + 'aggregator', 'ipv6-address', 'aggregator ( 65010:2001:db8::1 )', 'bad'),
            D(p + 'aggregator', 'no-address', 'aggregator ( 65010 )', 'bad'),
            D(p + 'aggregator', 'no-parenthesis', 'aggregator 65010:10.9.8.7', 'either', set_attr('aggregator', (65010, '10.9.8.7'))),
            D(p + 'aggregator', 'glued-parenthesis', 'aggregator (65010:10.9.8.7)', 'either', set_attr('aggregator', (65010, '10.9.8.7'))),
            D(p + 'aggregator', 'unclosed-(', 'aggregator ( 65010:10.9.8.7', 'either', set_attr('aggregator', (65010, '10.9.8.7')), tail=True),
            D(p + 'aggregator', 'missing-value', 'aggregator', 'bad', tail=True)]
    # community
    for a, b in ((0, 0), (1, 2), (P16 - 1, P16 - 1)):
        out.append(D(p + 'community', f'{blabel(a)}:{blabel(b)}', f'community {a}:{b}', 'ok', set_attr('community', [comm(a, b)])))
    for a, b in ((P16, 1), (1, P16), (P16 - 1, P16), (P32, 1), (1, P32), (-1, 1), (1, -1)):
        out.append(D(p + 'community', f'{blabel(a)}:{blabel(b)}', f'community {a}:{b}', 'bad'))
    out += [D(p + 'community', 'plain=0', 'community 0', 'either', set_attr('community', [0])),
            D(p + 'community', 'plain=2^32-1', f'community {P32 - 1}', 'either', set_attr('community', [P32 - 1])),
            D(p + 'community', 'plain=2^32', f'community {P32}', 'bad'), D(p + 'community', 'plain=-1', 'community -1', 'bad'),
            D(p + 'community', 'hex=2^32-1', 'community 0xFFFFFFFF', 'either', set_attr('community', [P32 - 1])),
            D(p + 'community', 'hex=2^32', 'community 0x100000000', 'bad'),
            D(p + 'community', 'non-numeric', 'community abc', 'bad'), D(p + 'community', 'one-part-colon', 'community 1:', 'bad'),
            D(p + 'community', 'three-parts', 'community 1:2:3', 'bad'),
            D(p + 'community', 'missing-value', 'community', 'bad', tail=True),
            D(p + 'community', 'n=0', 'community [ ]', 'either', nothing),
            D(p + 'community', 'unclosed-[', 'community [ 1:2', 'either', set_attr('community', [comm(1, 2)]), tail=True),
            D(p + 'community', 'twice', 'community 1:2 community 3:4', 'either', [set_attr('community', [comm(1, 2)]), set_attr('community', [comm(3, 4)]), set_attr('community', [comm(1, 2), comm(3, 4)])])]
    for w, v in WELLKNOWN.items():
        out.append(D(p + 'community', f'name-{w}', f'community {w}', 'either', set_attr('community', [v])))
    for n in (1, 2, 255, 256, 1000, 1100):
        cs = distinct_comms(n)
        out.append(D(p + 'community', f'n={n}', 'community [ ' + ' '.join(comm_text(c) for c in cs) + ' ]', 'ok', set_attr('community', cs), long=n >= 255, big=n >= 1000,
                     must=n == 255))
    # extended-community
    E = p + 'extended-community'
    for a, b in ((65000, 1), (P16 - 1, P32 - 1), (P16, P16 - 1), (P32 - 1, P16 - 1), ('1.2.3.4', P16 - 1), (0, 0)):
        out.append(D(E, f'target:{a if isinstance(a, str) else blabel(a)}:{blabel(b)}', f'extended-community target:{a}:{b}', 'ok', set_attr('extended-community', [ext_target(a, b)]),
                     must=a == P32 - 1))
    for a, b in ((P16 - 1, P32), (P16, P16), (P32, 1), ('1.2.3.4', P16), ('1.2.3.256', 1), (-1, 1), (1, -1)):
        out.append(D(E, f'target:{a if isinstance(a, str) else blabel(a)}:{blabel(b)}', f'extended-community target:{a}:{b}', 'bad'))
    out += [D(E, 'origin:as2', 'extended-community origin:65000:1', 'ok', set_attr('extended-community', [ext_target(65000, 1, 3)])),
            D(E, 'two-parts', 'extended-community 65000:1', 'either', set_attr('extended-community', [ext_target(65000, 1)])),
            D(E, 'hex-8-bytes', 'extended-community 0x0002fde800000001', 'either', set_attr('extended-community', ['0002fde800000001'])),
            D(E, 'hex-2-bytes', 'extended-community 0x0002', 'bad'), D(E, 'hex-9-bytes', 'extended-community 0x0002fde80000000100', 'bad'),
            D(E, 'hex-odd-digits', 'extended-community 0x0002fde80000001', 'bad'),
            D(E, 'unknown-type', 'extended-community foo:1:1', 'bad'), D(E, 'one-number', 'extended-community target:1', 'bad'),
            D(E, 'non-numeric', 'extended-community abc', 'bad'), D(E, 'missing-value', 'extended-community', 'bad', tail=True),
            D(E, 'n=0', 'extended-community [ ]', 'either', nothing),
            D(E, 'unclosed-[', 'extended-community [ target:65000:1', 'either', set_attr('extended-community', [ext_target(65000, 1)]), tail=True)]
    for n in (2, 255, 256, 600):
        es = [ext_target(65000, i) for i in range(1, n + 1)]
        out.append(D(E, f'n={n}', 'extended-community [ ' + ' '.join(f'target:65000:{i}' for i in range(1, n + 1)) + ' ]', 'ok', set_attr('extended-community', es), long=n >= 255, big=n >= 600))
    if not vpls:
        L = p + 'large-community'
        for t in ((0, 0, 0), (1, 2, 3), (P32 - 1, P32 - 1, P32 - 1)):
            out.append(D(L, ':'.join(blabel(x) for x in t), 'large-community ' + ':'.join(map(str, t)), 'ok', set_attr('large-community', [t]), must=t[0] == P32 - 1))
        for t in ((P32, 1, 1), (1, P32, 1), (1, 1, P32), (-1, 1, 1), (1, 1, -1)):
            out.append(D(L, ':'.join(blabel(x) for x in t), 'large-community ' + ':'.join(map(str, t)), 'bad'))
        out += [D(L, 'two-parts', 'large-community 1:2', 'bad'), D(L, 'four-parts', 'large-community 1:2:3:4', 'bad'), D(L, 'non-numeric', 'large-community a:b:c', 'bad'),
                D(L, 'non-numeric-part', 'large-community 1:b:3', 'bad'), D(L, 'empty-part', 'large-community 1::3', 'bad'),
                D(L, 'missing-value', 'large-community', 'bad', tail=True), D(L, 'n=0', 'large-community [ ]', 'either', nothing),
                D(L, 'unclosed-[', 'large-community [ 1:2:3', 'either', set_attr('large-community', [(1, 2, 3)]), tail=True)]
        for n in (2, 255, 256, 400):
            ls = [(65000, 1, i) for i in range(1, n + 1)]
            out.append(D(L, f'n={n}', 'large-community [ ' + ' '.join(f'65000:1:{i}' for i in range(1, n + 1)) + ' ]', 'ok', set_attr('large-community', ls), long=n >= 255, big=n >= 400))
    # originator-id / cluster-list
    O = p + 'originator-id'
    for ip in ('10.0.0.9', '0.0.0.0', '255.255.255.255'):
        out.append(D(O, ip, f'originator-id {ip}', 'ok', set_attr('originator-id', ip)))
    out += [D(O, 'octet=256', 'originator-id 1.2.3.256', 'bad'), D(O, 'ipv6', 'originator-id 2001:db8::1', 'bad'), D(O, 'non-address', 'originator-id abc', 'bad'),
            D(O, 'integer', 'originator-id 1', 'bad'), D(O, 'three-octets', 'originator-id 1.2.3', 'bad'), D(O, 'missing-value', 'originator-id', 'bad', tail=True)]
    C = p + 'cluster-list'
    out += [D(C, 'bare-id', 'cluster-list 10.0.0.1', 'either', set_attr('cluster-list', ['10.0.0.1'])),
            D(C, 'n=1', 'cluster-list [ 10.0.0.1 ]', 'ok', set_attr('cluster-list', ['10.0.0.1'])),
            D(C, 'n=3', 'cluster-list [ 10.0.0.1 10.0.0.2 10.0.0.3 ]', 'ok', set_attr('cluster-list', ['10.0.0.1', '10.0.0.2', '10.0.0.3']), must=True),
            D(C, 'n=0', 'cluster-list [ ]', 'either', nothing), D(C, 'octet=256', 'cluster-list [ 1.2.3.256 ]', 'bad'), D(C, 'ipv6', 'cluster-list [ 2001:db8::1 ]', 'bad'),
            D(C, 'missing-value', 'cluster-list', 'bad', tail=True),
            D(C, 'unclosed-[', 'cluster-list [ 10.0.0.1', 'either', set_attr('cluster-list', ['10.0.0.1']), tail=True)]
    for n in (255, 256, 1000, 1100):
        ids = [str(ipaddress.ip_address(0x0A000000 + i)) for i in range(1, n + 1)]
        out.append(D(C, f'n={n}', 'cluster-list [ ' + ' '.join(ids) + ' ]', 'ok', set_attr('cluster-list', ids), long=True, big=n >= 1000))
    # generic attribute
    A = p + 'attribute'

    def gen(code, flags, data, check_flags=True):
        def eff(R):
            R['generics'].append((code, flags if check_flags else None, data))
        return eff
    out += [D(A, 'plain', 'attribute [ 0x99 0xc0 0x0102 ]', 'ok', gen(0x99, 0xC0, '0102')),
            D(A, 'code=0xff', 'attribute [ 0xff 0xc0 0x01 ]', 'ok', gen(0xFF, 0xC0, '01')),
            D(A, 'code=0x100', 'attribute [ 0x100 0xc0 0x01 ]', 'bad'), D(A, 'code=-1', 'attribute [ -0x1 0xc0 0x01 ]', 'bad'),
            D(A, 'code-decimal', 'attribute [ 153 0xc0 0x01 ]', 'either', gen(153, 0xC0, '01')),
            D(A, 'flags=0x80', 'attribute [ 0x99 0x80 0x01 ]', 'ok', gen(0x99, 0x80, '01')),
            D(A, 'flags=0xff', 'attribute [ 0x99 0xff 0x01 ]', 'either', gen(0x99, 0xFF, '01', False)),
            D(A, 'flags=0x100', 'attribute [ 0x99 0x100 0x01 ]', 'bad'),
            D(A, 'data-empty', 'attribute [ 0x99 0xc0 0x ]', 'ok', gen(0x99, 0xC0, '')),
            D(A, 'data-odd-digits', 'attribute [ 0x99 0xc0 0x012 ]', 'bad'), D(A, 'data-non-hex', 'attribute [ 0x99 0xc0 0xzz ]', 'bad'),
            D(A, 'data-no-0x', 'attribute [ 0x99 0xc0 0102 ]', 'either', gen(0x99, 0xC0, '0102')),
            D(A, 'two-fields', 'attribute [ 0x99 0xc0 ]', 'bad'), D(A, 'four-fields', 'attribute [ 0x99 0xc0 0x01 0x02 ]', 'bad'),
            D(A, 'no-brackets', 'attribute 0x99 0xc0 0x01', 'bad'), D(A, 'unclosed-[', 'attribute [ 0x99 0xc0 0x01', 'either', gen(0x99, 0xC0, '01'), tail=True),
            D(A, 'missing-value', 'attribute', 'bad', tail=True)]
    for n, kind in ((255, 'ok'), (256, 'ok'), (4000, 'ok'), (5000, 'ok'), (70000, 'bad')):
        out.append(D(A, f'data={n}-bytes', f'attribute [ 0x99 0xc0 0x{"ab" * n} ]', kind, gen(0x99, 0xC0, 'ab' * n) if kind == 'ok' else None, long=n >= 4000, big=n >= 4000))
    # names without a wire value
    out += [D(p + 'name', 'word', 'name foo', 'either', nothing), D(p + 'name', 'missing-value', 'name', 'either', nothing, tail=True),
            D(p + 'watchdog', 'word', 'watchdog dog', 'either', nothing), D(p + 'watchdog', 'reserved-word', 'watchdog announce', 'either', nothing),
            D(p + 'watchdog', 'missing-value', 'watchdog', 'either', nothing, tail=True),
            D(p + 'withdraw', 'set', 'withdraw', 'either', nothing)]
    return out


def nlri_qualifier_devs(p=''):
    out = []
    D = Dev
    PI = p + 'path-information'
    for v in (0, 1, P16 - 1, P16, P32 - 2, P32 - 1):
        # the documented form is the dotted one (`path-information <ipv4 formated number>`); the plain number is an alternative syntax
        out.append(D(PI, blabel(v), f'path-information {v}', 'either', set_field('pid', v)))
    for v in (-1, P32, P64):
        out.append(D(PI, blabel(v), f'path-information {v}', 'bad'))
    out += [D(PI, 'dotted=0.0.0.1', 'path-information 0.0.0.1', 'ok', set_field('pid', 1)), D(PI, 'dotted=max', 'path-information 255.255.255.255', 'ok', set_field('pid', P32 - 1)),
            D(PI, 'dotted-octet=256', 'path-information 1.2.3.256', 'bad'), D(PI, 'non-numeric', 'path-information abc', 'bad'),
            D(PI, 'missing-value', 'path-information', 'bad', tail=True),
            D(PI, 'twice', 'path-information 1 path-information 2', 'either', [set_field('pid', 1), set_field('pid', 2)])]
    return out


def label_devs(p=''):
    out = []
    D = Dev
    LB = p + 'label'
    for v in (0, 3, P16, P20 - 2, P20 - 1):
        out.append(D(LB, blabel(v), f'label {v}', 'ok', set_field('labels', (v,)), must=v == P20 - 1))
    for v in (-1, P20, P32 - 1, P32, P64):
        out.append(D(LB, blabel(v), f'label {v}', 'bad'))
    out += [D(LB, 'non-numeric', 'label abc', 'bad'), D(LB, 'missing-value', 'label', 'bad', tail=True), D(LB, 'hex', 'label 0x10', 'either', set_field('labels', (16,))),
            D(LB, 'n=0', 'label [ ]', 'either', skip('labels-optional')), D(LB, 'n=1', 'label [ 3 ]', 'ok', set_field('labels', (3,))),
            D(LB, 'n=2', 'label [ 16 17 ]', 'ok', set_field('labels', (16, 17))),
            D(LB, 'list-2^20', f'label [ 16 {P20} ]', 'bad'), D(LB, 'list--1', 'label [ 16 -1 ]', 'bad'),
            D(LB, 'unclosed-[', 'label [ 3', 'either', set_field('labels', (3,)), tail=True),
            D(LB, 'twice', 'label 16 label 17', 'either', [set_field('labels', (16,)), set_field('labels', (17,))])]
    # NLRI length octet (RFC 8277 2.2/2.3) counts bits: 24 per label + the prefix length must stay <= 255
    labs9 = tuple(range(16, 25))
    out.append(D(LB, 'n=9', 'label [ ' + ' '.join(map(str, labs9)) + ' ]', 'ok', set_field('labels', labs9)))
    for n in (10, 255, 256, 1000):
        # n=10 is too much for the /24 of the base definition only: not combined with another prefix
        out.append(D(LB, f'n={n}', 'label [ ' + ' '.join(str(16 + i) for i in range(n)) + ' ]', 'bad', long=n >= 255, kws=[LB, p + 'prefix'] if n == 10 else None))
    return out


def rd_devs(p='', with_label='label 3', rdkey='rd'):
    """rd deviations; a VPN route needs a label, so `with_label` is written with them (and they exclude label deviations)"""
    out = []
    D = Dev
    K = p + 'rd'
    kws = [K, p + 'label'] if with_label else [K]
    lab = set_field('labels', (3,)) if with_label else nothing

    def mk(bnd, val, cls, rdbytes=None, must=False, tail=False):
        txt = f'{rdkey} {val}'.rstrip()
        if with_label:
            txt = f'{with_label} {txt}' if tail else f'{txt} {with_label}'
        return D(K, bnd, txt, cls, both(set_field('rd', rdbytes), lab) if rdbytes is not None else None, kws=kws, must=must, tail=tail)
    out += [mk('as2:0', '0:0', 'ok', rd0(0, 0)), mk('as2:2^32-1', f'{P16 - 1}:{P32 - 1}', 'ok', rd0(P16 - 1, P32 - 1)), mk('as2:2^32', f'{P16 - 1}:{P32}', 'bad'),
            mk('as2:-1', '65000:-1', 'bad'), mk('as2:plain', '65000:1', 'ok', rd0(65000, 1)),
            mk('as2:2^16-1', f'{P16 - 1}:{P16 - 1}', 'ok', rd0(P16 - 1, P16 - 1)),
            mk('as4:2^16-1', f'{P16}:{P16 - 1}', 'ok', rd2(P16, P16 - 1)), mk('as4:2^16', f'{P16}:{P16}', 'bad'),
            mk('as4=2^32-1', f'{P32 - 1}:{P16 - 1}', 'ok', rd2(P32 - 1, P16 - 1)), mk('as4=2^32', f'{P32}:0', 'bad'),
            mk('as4:plain', '4200000000:1', 'ok', rd2(4200000000, 1), must=True), mk('as=-1', '-1:1', 'bad'),
            mk('ip:0', '1.2.3.4:0', 'ok', rd1('1.2.3.4', 0)), mk('ip:2^16-1', f'1.2.3.4:{P16 - 1}', 'ok', rd1('1.2.3.4', P16 - 1)), mk('ip:2^16', f'1.2.3.4:{P16}', 'bad'),
            mk('ip:-1', '1.2.3.4:-1', 'bad'), mk('ip-octet=256', '1.2.3.256:1', 'bad'), mk('ip-three-octets', '1.2.3:1', 'bad'), mk('ip-five-octets', '1.2.3.4.5:1', 'bad'),
            mk('no-colon', '65000', 'bad'), mk('non-numeric-admin', 'abc:1', 'bad'), mk('non-numeric-number', '1:abc', 'bad'), mk('three-parts', '1:2:3', 'bad'),
            mk('empty-number', '65000:', 'bad'), mk('empty-admin', ':1', 'bad'), mk('missing-value', '', 'bad', tail=True)]
    if with_label:
        out.append(D(K, 'without-label', 'rd 65000:1', 'bad', kws=kws))
        out.append(D(K, 'keyword-route-distinguisher', f'route-distinguisher 65000:1 {with_label}', 'ok', both(set_field('rd', rd0(65000, 1)), lab), kws=kws))
    return out


def sid_devs(p=''):
    D = Dev
    K = p + 'bgp-prefix-sid'
    out = []
    for v in (0, 1, P32 - 1):
        out.append(D(K, f'index={blabel(v)}', f'bgp-prefix-sid [ {v} ]', 'ok', set_field('sid', sid_value(v))))
    out += [D(K, 'index=2^32', f'bgp-prefix-sid [ {P32} ]', 'bad'), D(K, 'index=-1', 'bgp-prefix-sid [ -1 ]', 'bad'), D(K, 'index=non-numeric', 'bgp-prefix-sid [ abc ]', 'bad'),
            D(K, 'missing-value', 'bgp-prefix-sid', 'bad', tail=True), D(K, 'no-brackets', 'bgp-prefix-sid 1', 'bad'), D(K, 'n=0', 'bgp-prefix-sid [ ]', 'bad'),
            D(K, 'srgb', 'bgp-prefix-sid [ 1, [ ( 800000,100 ) ] ]', 'ok', set_field('sid', sid_value(1, [(800000, 100)]))),
            D(K, 'srgb-base=2^24-1', f'bgp-prefix-sid [ 1, [ ( {P24 - 1},1 ) ] ]', 'ok', set_field('sid', sid_value(1, [(P24 - 1, 1)]))),
            D(K, 'srgb-base=2^24', f'bgp-prefix-sid [ 1, [ ( {P24},1 ) ] ]', 'bad'), D(K, 'srgb-range=2^24', f'bgp-prefix-sid [ 1, [ ( 1,{P24} ) ] ]', 'bad'),
            D(K, 'srgb-base=-1', 'bgp-prefix-sid [ 1, [ ( -1,1 ) ] ]', 'bad'),
            D(K, 'unclosed-[', 'bgp-prefix-sid [ 1', 'either', set_field('sid', sid_value(1)), tail=True)]
    return out


def split_devs(p=''):
    """the base prefix is 10.0.0.0/24"""
    D = Dev
    K = p + 'split'

    def sub(cut):
        step = 2 ** (32 - cut)
        return [(str(ipaddress.ip_address(0x0A000000 + i * step)), cut) for i in range(2 ** (cut - 24))]
    kws = [K, p + 'prefix']
    out = [D(K, 'same-mask', 'split /24', 'either', nothing, kws=kws), D(K, 'shorter', 'split /0', 'either', nothing, kws=kws),
           D(K, 'mask+1', 'split /25', 'either', set_field('prefixes', sub(25)), kws=kws), D(K, 'mask+2', 'split /26', 'either', set_field('prefixes', sub(26)), kws=kws),
           D(K, '/32', 'split /32', 'either', set_field('prefixes', sub(32)), kws=kws, long=True),
           D(K, '/33', 'split /33', 'bad', kws=kws), D(K, '/128', 'split /128', 'bad', kws=kws), D(K, '/-1', 'split /-1', 'bad', kws=kws),
           D(K, 'non-numeric', 'split /abc', 'bad', kws=kws), D(K, 'no-slash', 'split 25', 'bad', kws=kws), D(K, 'missing-value', 'split', 'bad', tail=True, kws=kws)]
    return out


def syntax_devs(p=''):
    D = Dev
    K = p + 'syntax'
    med5 = set_attr('med', 5)

    def app(s):
        return lambda t: t + s

    def ins(s):
        # before the last segment of the base (`next-hop ...`) the route is cut in two
        return lambda t: t.replace(' next-hop', s + ' next-hop', 1)
    kws = [K, p + 'med']
    return [
        D(p + 'unknown', 'keyword', 'foo 1', 'bad'), D(p + 'unknown', 'keyword-no-value', 'foo', 'bad', tail=True),
        D(K, 'stray-;', None, 'either', nothing, post=app(' ; med 5'), kws=kws), D(K, 'double-;', None, 'either', nothing, post=app(' ;;')),
        D(K, 'stray-{', None, 'either', skip('all'), post=app(' { med 5'), kws=kws, solo=True), D(K, 'stray-}', None, 'either', skip('all'), post=app(' } med 5'), kws=kws),
        D(K, 'stray-]', None, 'bad', post=app(' ] med 5'), kws=kws), D(K, 'stray-[', None, 'bad', post=app(' [ med 5'), kws=kws),
        D(K, 'stray-(', None, 'bad', post=app(' ( med 5'), kws=kws), D(K, 'stray-)', None, 'bad', post=app(' ) med 5'), kws=kws),
        D(K, 'stray-comma', None, 'bad', post=app(' , med 5'), kws=kws),
        D(K, 'comment', None, 'either', nothing, post=app(' # med 5'), kws=kws),
        D(K, 'unclosed-quote', None, 'either', skip('all'), post=app(' " med 5'), kws=kws),
        D(K, 'quoted-keyword', None, 'either', med5, post=app(' "med" 5'), kws=kws),
        D(K, 'trailing-backslash', None, 'either', med5, post=app(' med 5 \\'), kws=kws),
        D(K, 'split-by-;', None, 'either', skip('all'), post=ins(' ;')),
    ]


# ---------------------------------------------------------------------------------------------
# grammars
# ---------------------------------------------------------------------------------------------
def new_R(afi, prefix, nh, **kw):
    R = {'kind': 'inet', 'afi': afi, 'prefixes': [prefix], 'pid': None, 'labels': None, 'rd': None, 'nh': nh, 'attrs': {}, 'sid': None, 'generics': [], 'skip': set()}
    R.update(kw)
    return R


class Grammar:
    """name, base segments [(segment-name, text)], base abstract definition, deviations"""

    def __init__(self, name, segments, base, devs, forms=('flat',), paths=('api', 'cb', 'config')):
        self.name, self.segments, self._base, self.devs = name, segments, base, devs
        self.forms, self.paths = forms, paths
        self.by_key = {}
        for d in devs:
            if d.key in self.by_key:
                raise AssertionError(f'duplicate deviation {name} {d.key}')
            self.by_key[d.key] = d

    def base(self):
        return self._base()


def _static4():
    devs = (prefix_devs('route', 1) + nexthop_devs(1) + nlri_qualifier_devs() + label_devs() + rd_devs() + attribute_devs() + sid_devs() + split_devs() + syntax_devs())
    return Grammar('route4', [('prefix', 'route 10.0.0.0/24'), ('next-hop', 'next-hop 10.255.0.1')], lambda: new_R(1, ('10.0.0.0', 24), '10.255.0.1'), devs, forms=('flat', 'nested'))


def _static6():
    keep_attr = {'med', 'as-path', 'local-preference', 'community', 'large-community', 'aigp', 'originator-id'}
    attrs = [d for d in attribute_devs() if d.kw in keep_attr and not d.long and d.cls != 'either' and (d.cls == 'ok' or d.bnd in ('2^32', '2^64', 'asn=2^32', '2^16:1', '1:2^16', '2^32:1:1', 'missing-value', 'octet=256'))]
    devs = prefix_devs('route', 2) + nexthop_devs(2) + [d for d in label_devs() if d.bnd in ('2^20-1', '2^20', 'n=2')] + \
        [d for d in rd_devs() if d.bnd in ('as4:plain', 'no-colon', 'ip:2^16', 'without-label')] + attrs + [d for d in nlri_qualifier_devs() if d.bnd in ('2^32-1', '2^32')]
    return Grammar('route6', [('prefix', 'route 2001:db8:1::/48'), ('next-hop', 'next-hop 2001:db8:ffff::1')], lambda: new_R(2, ('2001:db8:1::', 48), '2001:db8:ffff::1'), devs,
                   forms=('flat', 'nested'))


def _attributes():
    D = Dev

    def nl(*ps):
        return set_field('prefixes', list(ps))
    # a keyword without its value would take the `nlri` word for it: only where that must be refused
    devs = [d for d in attribute_devs('') + nlri_qualifier_devs('') + nexthop_devs(1) + rd_devs() if (not d.long or d.bnd in ('n=255', 'n=256')) and not (d.tail and d.cls == 'either')] + [
        D('attributes.nlri', 'n=0', 'nlri', 'either', skip('all'), seg='nlri'), D('attributes.nlri', 'missing', None, 'either', skip('all'), seg='nlri'),
        D('attributes.nlri', 'n=1', 'nlri 10.0.0.0/24', 'ok', nl(('10.0.0.0', 24)), seg='nlri'),
        D('attributes.nlri', 'n=3', 'nlri 10.0.0.0/24 10.0.1.0/24 10.0.2.0/32', 'ok', nl(('10.0.0.0', 24), ('10.0.1.0', 24), ('10.0.2.0', 32)), seg='nlri'),
        D('attributes.nlri', 'mask=33', 'nlri 10.0.0.0/24 10.0.1.0/33', 'bad', seg='nlri'), D('attributes.nlri', 'non-address', 'nlri 10.0.0.0/24 abc', 'bad', seg='nlri'),
        D('attributes.nlri', 'mixed-afi-v6-last', 'nlri 10.0.0.0/24 2001:db8::/32', 'bad', seg='nlri'),
        D('attributes.nlri', 'mixed-afi-v4-last', 'nlri 2001:db8::/32 10.0.0.0/24', 'bad', seg='nlri'),
        D('attributes.nlri', 'mask-non-numeric', 'nlri 10.0.0.0/abc', 'bad', seg='nlri'),
        D('attributes.nlri', 'n=256', 'nlri ' + ' '.join(f'10.1.{i}.0/24' for i in range(256)), 'ok', nl(*[(f'10.1.{i}.0', 24) for i in range(256)]), seg='nlri', long=True),
        D('attributes.unknown', 'keyword', 'foo 1', 'bad'),
    ]
    return Grammar('attributes', [('head', 'attributes'), ('next-hop', 'next-hop 10.255.0.1'), ('nlri', 'nlri 10.0.0.0/24 10.0.1.0/24')],
                   lambda: new_R(1, ('10.0.0.0', 24), '10.255.0.1', prefixes=[('10.0.0.0', 24), ('10.0.1.0', 24)]), devs, paths=('api', 'cb'))


def _family(name, word, afi, prefix, nh, extra_seg=None, qual=()):
    p = 'fam.'
    keep = lambda d: not d.long or d.bnd in ('n=255', 'n=256')  # noqa: E731
    devs = [d for d in prefix_devs(word, afi, p) + nexthop_devs(afi, p) + attribute_devs(p) + nlri_qualifier_devs(p) + syntax_devs(p) if keep(d)]
    if 'label' in qual:
        for d in label_devs(p):
            if keep(d):
                d.seg = 'label'
                devs.append(d)
    if 'rd' in qual:
        for d in rd_devs(p, with_label=None):
            d.seg = 'rd'
            devs.append(d)
    D = Dev
    other = '2001:db8::/32' if afi == 1 else '10.0.0.0/24'
    devs.append(D(p + 'prefix', 'afi-mismatch', f'{word} {other}', 'bad', seg='prefix'))
    segs = [('prefix', f'{word} {prefix[0]}/{prefix[1]}'), ('next-hop', f'next-hop {nh}')] + (extra_seg or [])
    kw = {}
    if 'label' in qual or 'rd' in qual:
        kw['labels'] = (3,)
    if 'rd' in qual:
        kw['rd'] = rd0(65000, 1)
    return Grammar(name, segs, lambda: new_R(afi, prefix, nh, **kw), devs)


def flow_R(afi=1):
    return {'kind': 'flow', 'afi': afi, 'rd': None, 'comps': {1: (24, 0, '0a0000')}, 'ext': {'rate': rate_hex(0)}, 'attrs': {}, 'skip': set(), 'generics': [], 'sid': None}


def rate_hex(v, packets=False, asn=0):
    return (bytes([0x80, 0x0C if packets else 0x06]) + asn.to_bytes(2, 'big') + struct.pack('!f', float(v))).hex()


def _flow():
    D = Dev

    def comp(t, v):
        def eff(R):
            R['comps'][t] = v
        return eff

    def pfx(t, addr, mask, afi=1):
        def eff(R):
            R.setdefault('afis', {})[t] = afi
            if t == 2 and 1 not in R['afis'] and 1 in R['comps']:
                R['afis'][1] = 1   # the base destination is IPv4
            R['mixed'] = len(set(R['afis'].values())) > 1
            R['afi'] = afi
            R['comps'][t] = (mask, 0, ipaddress.ip_address(addr).packed[: (mask + 7) // 8].hex())
        return eff

    def ext(name, hexv):
        def eff(R):
            if hexv is None:
                R['ext'].pop(name, None)
            else:
                R['ext'][name] = hexv
        return eff
    eq = lambda v, a=False: (a, False, False, True, v)  # noqa: E731
    devs = []
    for t, kw in ((1, 'destination'), (2, 'source')):
        K = 'flow.' + kw
        seg = 'destination' if t == 1 else None
        for m, net in ((0, '0.0.0.0'), (8, '10.0.0.0'), (24, '10.0.0.0'), (32, '10.0.0.1')):
            devs.append(D(K, f'v4-mask={m}', f'{kw} {net}/{m}', 'ok', pfx(t, net, m), seg=seg, block='match'))
        for m in (33, 129, 256, -1):
            devs.append(D(K, f'v4-mask={blabel(m)}', f'{kw} 10.0.0.0/{m}', 'bad', seg=seg, block='match'))
        devs += [D(K, 'no-mask', f'{kw} 10.0.0.1', 'either', pfx(t, '10.0.0.1', 32), seg=seg, block='match'),
                 D(K, 'mask-non-numeric', f'{kw} 10.0.0.0/abc', 'bad', seg=seg, block='match'), D(K, 'octet=256', f'{kw} 10.0.0.256/24', 'bad', seg=seg, block='match'),
                 D(K, 'non-address', f'{kw} abc', 'bad', seg=seg, block='match'), D(K, 'missing-value', f'{kw}', 'bad', seg=seg, block='match', tail=True)]
        if t == 1:
            devs += [D(K, 'v6-mask=32', f'{kw} 2001:db8::/32', 'ok', pfx(t, '2001:db8::', 32, 2), seg=seg, block='match'),
                     D(K, 'v6-mask=128', f'{kw} 2001:db8::1/128', 'ok', pfx(t, '2001:db8::1', 128, 2), seg=seg, block='match'),
                     D(K, 'v6-mask=0', f'{kw} ::/0', 'ok', pfx(t, '::', 0, 2), seg=seg, block='match'),
                     D(K, 'v6-mask=129', f'{kw} 2001:db8::/129', 'bad', seg=seg, block='match'),
                     D(K, 'missing', None, 'either', lambda R: R['comps'].pop(1, None), seg=seg, block='match')]
    K = 'flow.port'
    for v in (0, 80, P16 - 1):
        devs.append(D(K, f'={blabel(v)}', f'port ={v}', 'ok', comp(4, [eq(v)]), block='match'))
    for v in (P16, -1, P32, P64):
        devs.append(D(K, f'={blabel(v)}', f'port ={v}', 'bad', block='match'))
    devs += [D(K, 'non-numeric', 'port =abc', 'bad', block='match'), D(K, 'missing-value', 'port', 'either', nothing, block='match', tail=True),
             D(K, 'no-operator', 'port 80', 'either', comp(4, [eq(80)]), block='match'),
             D(K, 'n=2', 'port [ =80 =8080 ]', 'ok', comp(4, [eq(80), eq(8080)]), block='match'),
             D(K, 'range', 'port >=80&<=90', 'ok', comp(4, [(False, False, True, True, 80), (True, True, False, True, 90)]), block='match'),
             D(K, 'dangling-&', 'port >=80&', 'bad', block='match'), D(K, 'bad-operator', 'port !80', 'bad', block='match'),
             D(K, 'unclosed-[', 'port [ =80', 'either', comp(4, [eq(80)]), block='match', tail=True), D(K, 'n=0', 'port [ ]', 'either', nothing, block='match')]
    for n in (255, 256):
        devs.append(D(K, f'n={n}', 'port [ ' + ' '.join(f'={1000 + i}' for i in range(n)) + ' ]', 'ok', comp(4, [eq(1000 + i) for i in range(n)]), block='match', long=True))
    K = 'flow.rate-limit'
    for v in (0, 1, 9600, P24, 10**12, 10**12 + 1, P32, P64):
        devs.append(D(K, blabel(v) if v not in (10**12, 10**12 + 1) else ('10^12' if v == 10**12 else '10^12+1'), f'rate-limit {v}', 'ok', ext('rate', rate_hex(v)), seg='action', block='then'))
    devs += [D(K, '-1', 'rate-limit -1', 'bad', seg='action', block='then'), D(K, 'non-numeric', 'rate-limit abc', 'bad', seg='action', block='then'),
             D(K, 'missing-value', 'rate-limit', 'bad', seg='action', block='then', tail=True),
             D(K, 'packets', 'rate-limit 1000 packets', 'ok', ext('rate', rate_hex(1000, True)), seg='action', block='then'),
             D(K, 'packets=-1', 'rate-limit -1 packets', 'bad', seg='action', block='then'),
             D(K, 'float', 'rate-limit 1.5', 'either', ext('rate', rate_hex(1.5)), seg='action', block='then'),
             D('flow.action', 'missing', None, 'either', ext('rate', None), seg='action', block='then')]
    K = 'flow.redirect'

    def red(a, b):
        if a > 65535:
            return (bytes([0x82, 0x08]) + a.to_bytes(4, 'big') + b.to_bytes(2, 'big')).hex()
        return (bytes([0x80, 0x08]) + a.to_bytes(2, 'big') + b.to_bytes(4, 'big')).hex()
    for a, b in ((65000, 1), (0, 0), (P16 - 1, P32 - 1), (P16, P16 - 1), (P32 - 1, P16 - 1)):
        devs.append(D(K, f'{blabel(a)}:{blabel(b)}', f'redirect {a}:{b}', 'ok', ext('redirect', red(a, b)), block='then'))
    for a, b in ((P16 - 1, P32), (P16, P16), (P32, 1), (-1, 1), (1, -1), (P16, -1)):
        devs.append(D(K, f'{blabel(a)}:{blabel(b)}', f'redirect {a}:{b}', 'bad', block='then'))
    devs += [D(K, 'non-numeric', 'redirect abc', 'bad', block='then'), D(K, 'non-numeric-number', 'redirect 1:abc', 'bad', block='then'),
             D(K, 'missing-value', 'redirect', 'bad', block='then', tail=True),
             D(K, 'ipv4-admin', 'redirect 1.2.3.4:5', 'either', skip('ext'), block='then'),
             D(K, 'next-hop', 'redirect 1.2.3.4', 'either', both(ext('redirect', '0800000000000000'), skip('nexthop')), block='then')]
    K = 'flow.mark'
    for v in (0, 1, 63):
        devs.append(D(K, str(v), f'mark {v}', 'ok', ext('mark', '800900000000' + f'{v:04x}'), block='then'))
    for v in (64, 255, 256, -1, P32):
        devs.append(D(K, blabel(v), f'mark {v}', 'bad', block='then'))
    devs += [D(K, 'non-numeric', 'mark abc', 'bad', block='then'), D(K, 'missing-value', 'mark', 'bad', block='then', tail=True)]
    for d in rd_devs('flow.', with_label=None):
        if d.bnd in ('as2:plain', 'as4:plain', 'no-colon', 'as2:-1', 'ip:2^16', 'as2:2^32', 'ip:2^16-1', 'missing-value'):
            d.block = 'top'
            devs.append(d)
    devs += [D('flow.unknown', 'match-keyword', 'foo 1', 'bad', block='match'), D('flow.unknown', 'then-keyword', 'foo 1', 'bad', block='then'),
             D('flow.syntax', 'unclosed-route', None, 'either', nothing, post=lambda t: t[: t.rstrip().rfind('}')] if t.rstrip().endswith('}') else t + ' {'),
             D('flow.syntax', 'extra-}', None, 'either', skip('all'), post=lambda t: t + ' }')]
    return Grammar('flow', [('destination', 'destination 10.0.0.0/24'), ('action', 'discard')], flow_R, devs, forms=('nested', 'flat'))


def vpls_R():
    return {'kind': 'vpls', 'rd': rd1('192.168.201.1', 123), 'endpoint': 5, 'base': 10702, 'offset': 1, 'size': 8, 'nh': '192.168.201.1', 'attrs': {}, 'skip': set(),
            'generics': [], 'sid': None}


def _vpls():
    D = Dev
    devs = []
    for kw in ('endpoint', 'offset', 'size'):
        K = 'vpls.' + kw
        for v in (0, 1, P16 - 2, P16 - 1):
            devs.append(D(K, blabel(v), f'{kw} {v}', 'ok', set_field(kw, v), seg=kw))
        for v in (P16, -1, P32, P64):
            devs.append(D(K, blabel(v), f'{kw} {v}', 'bad', seg=kw))
        devs += [D(K, 'non-numeric', f'{kw} abc', 'bad', seg=kw), D(K, 'missing-value', f'{kw}', 'bad', seg=kw, tail=True), D(K, 'missing', None, 'bad', seg=kw),
                 D(K, 'twice', f'{kw} 2 {kw} 3', 'either', [set_field(kw, 2), set_field(kw, 3)], seg=kw)]
    K = 'vpls.base'
    # RFC 4761 3.2.2: the label base is a 20-bit label; the block is base .. base+size-1 (size 8 in the base definition)
    for v in (0, 1, P16 - 1, P16, 262145, P20 - 9, P20 - 8):
        devs.append(D(K, blabel(v) if v != P20 - 8 else '2^20-size', f'base {v}', 'ok', set_field('base', v), seg='base'))
    devs += [D(K, '2^20-size+1', f'base {P20 - 7}', 'either', set_field('base', P20 - 7), seg='base'),
             D(K, '2^20-1', f'base {P20 - 1}', 'either', set_field('base', P20 - 1), seg='base')]
    for v in (P20, -1, P32, P64):
        devs.append(D(K, blabel(v), f'base {v}', 'bad', seg='base'))
    devs += [D(K, 'non-numeric', 'base abc', 'bad', seg='base'), D(K, 'missing-value', 'base', 'bad', seg='base', tail=True), D(K, 'missing', None, 'bad', seg='base')]
    for d in rd_devs('', with_label=None):
        d.seg = 'rd'
        devs.append(d)
    devs.append(D('rd', 'missing', None, 'bad', seg='rd'))
    devs += [D('vpls.next-hop', 'missing', None, 'bad', seg='next-hop'), D('vpls.next-hop', 'bad-address', 'next-hop 192.168.201.256', 'bad', seg='next-hop'),
             D('vpls.next-hop', 'missing-value', 'next-hop', 'bad', seg='next-hop', tail=True),
             D('vpls.next-hop', 'self', 'next-hop self', 'either', set_field('nh', 'self'), seg='next-hop'),
             D('vpls.next-hop', 'ipv6', 'next-hop 2001:db8::1', 'either', set_field('nh', '2001:db8::1'), seg='next-hop')]
    devs += [d for d in attribute_devs('', vpls=True) if not d.long or d.bnd in ('n=255', 'n=256')]
    devs += [D('vpls.unknown', 'keyword', 'foo 1', 'bad')]
    segs = [('head', 'vpls'), ('endpoint', 'endpoint 5'), ('base', 'base 10702'), ('offset', 'offset 1'), ('size', 'size 8'), ('rd', 'rd 192.168.201.1:123'),
            ('next-hop', 'next-hop 192.168.201.1')]
    return Grammar('vpls', segs, vpls_R, devs, forms=('flat', 'nested'))


_G = None


def grammars():
    global _G
    if _G is None:
        _G = {g.name: g for g in (
            _static4(), _static6(), _attributes(), _flow(), _vpls(),
            _family('fam4u', 'ipv4 unicast', 1, ('10.0.0.0', 24), '10.255.0.1'),
            _family('fam6u', 'ipv6 unicast', 2, ('2001:db8:1::', 48), '2001:db8:ffff::1'),
            _family('fam4l', 'ipv4 nlri-mpls', 1, ('10.0.0.0', 24), '10.255.0.1', [('label', 'label 3')], qual=('label',)),
            _family('fam4v', 'ipv4 mpls-vpn', 1, ('10.0.0.0', 24), '10.255.0.1', [('label', 'label 3'), ('rd', 'rd 65000:1')], qual=('rd',)),
        )}
    return _G
