"""C12 - Hold and keepalive timers keep their RFC promises.   E-dev on the clock.

For each negotiated hold time H the real reactor is brought to ESTABLISHED in the virtual world, then the
remote follows one arrival-time vector: at each second of a (3H+5)-second horizon it sends nothing, a
KEEPALIVE or an UPDATE.  Every vector with at most k sends is run.  The only source of time is the
controller.  Oracle: virtual timestamps of the KEEPALIVE / NOTIFICATION bytes ExaBGP wrote.
"""

from __future__ import annotations

import itertools
import multiprocessing as mp
import os

from vt import core
from vt.ref import wire
from vt.world import EPOCH, World, edev
from vt.checks import c05

PROPERTY = 'C12'

GRANULARITY = 2.0  # integer-second timers: a deadline can be seen up to 2 s late
LOOP = 0.2  # reactor loop period (0.1 s read timeout) + scheduling slack


def routes_block(n):
    return ' '.join(f'route 10.{100 + i // 250}.{i % 250}.0/24 next-hop 1.1.1.1;' for i in range(n))


def establish(w, env, upto='ESTABLISHED', send_open=True, send_ka=True, max_steps=12, ka_delay=0.0):
    for i in range(max_steps):
        env.step = i
        a = env.default_action()
        if a.startswith('open') and not send_open:
            return
        if a.startswith('keepalive') and not send_ka:
            return
        if a.startswith('keepalive') and ka_delay:
            # the peer takes its (legal) time before confirming our OPEN
            w.advance(ka_delay)
        if a == 'time' and env.fsm() == upto:
            return
        env.do(a)
    raise core.HarnessError(f'session did not reach {upto}: {env.fsm()}')


def run_vector(args):
    """One execution.  vector: tuple of (second, kind) with kind in 'K','U'; phase: fraction of a second."""
    (ours, theirs, phase, nroutes, scenario), vector = args
    H = min(ours, theirs) if ours and theirs else 0
    cfg = edev.base_config(hold=ours, routes=routes_block(nroutes))
    mirror = scenario == 'mirror'
    if mirror:
        # local-as auto: the peer's OPEN is read before ours is sent; from then on an ordinary established session
        cfg = cfg.replace('local-as 65001;', 'local-as auto;')
        scenario = 'est'
    world_env = {'bgp.openwait': 6}
    horizon = horizon_for(H)
    with World(cfg, env=world_env) as w:
        env = c05.Env(w, hold=theirs, script=[], config_name='mirror' if mirror else 'active')
        if scenario == 'no-open':
            establish(w, env, send_open=False)
        elif scenario == 'no-keepalive':
            establish(w, env, send_ka=False)
        elif scenario.startswith('slow-ka'):
            establish(w, env, ka_delay=float(scenario.split(':')[1]))
        else:
            establish(w, env)
        s = env.current()
        if s is None or env.fsm() != 'ESTABLISHED' and scenario not in ('no-open', 'no-keepalive'):
            raise core.HarnessError(f'session not established for {scenario}: {env.fsm()}')
        t0 = w.clock.now
        arrivals = []
        sends = dict()
        for sec, kind in vector:
            sends.setdefault(sec, []).append(kind)
        n_upd = 0
        for sec in range(horizon):
            target = t0 + sec + phase
            if target > w.clock.now:
                w.advance(target - w.clock.now)
            for kind in sends.get(sec, ()):
                if s.closed:
                    break
                r = env.remote(s)
                if kind == 'K':
                    r.send_keepalive()
                elif kind == 'U':
                    n_upd += 1
                    r.send(wire.UPDATE, edev.upd_announce((f'192.0.{n_upd % 250}.0', 24)))
                elif kind == 'B':  # burst of 30 UPDATEs
                    for b in range(30):
                        r.send(wire.UPDATE, edev.upd_announce((f'198.{b}.{sec}.0', 24)))
                elif kind[0] in 'ST':
                    # an uninterrupted inbound stream: one UPDATE every 50 ms (S) / 90 ms (T) for <n> seconds, so that
                    # every 100 ms read slice of the session loop finds a message
                    gap = 0.05 if kind[0] == 'S' else 0.09
                    for b in range(int(float(kind[1:]) / gap)):
                        if s.closed:
                            break
                        r.send(wire.UPDATE, edev.upd_announce((f'198.{b % 250}.{b // 250}.0', 24)))
                        arrivals.append(round(w.clock.now - t0, 3))
                        w.settle()
                        w.advance(gap)
                    continue
                arrivals.append(round(w.clock.now - t0, 3))
                w.settle()
        w.advance(t0 + horizon - w.clock.now)
        sm = edev.summarize(w, env)
    sock = [x for x in sm['sockets'] if x['index'] == s.index][0]
    t0r = round(t0 - EPOCH, 3)
    tx = [(round(m[0] - t0r, 3), m[2], m[3][:4]) for m in sock['tx']]
    closed_at = None if sock['closed_at'] is None else round(sock['closed_at'] - t0r, 3)
    viols = oracle(H, scenario, arrivals, tx, closed_at, horizon, sm)
    ka_times = tuple(t for t, ty, _ in tx if ty == wire.KEEPALIVE and t >= 0)
    notif = tuple((t, b) for t, ty, b in tx if ty == wire.NOTIFICATION)
    outcome = (H, scenario, closed_at is not None, notif[0][1] if notif else None, len(ka_times))
    return viols, outcome, (arrivals, closed_at, notif, ka_times[:6])


def horizon_for(H):
    """seconds observed after establishment: three hold times for the small ones, one and a bit for the large ones"""
    return 3 * max(H, 3) + 5 if H <= 200 else H + H // 3 + 10


def oracle(H, scenario, arrivals, tx, closed_at, horizon, sm):
    viols = []
    notifs = [(t, int(b[:2], 16), int(b[2:4], 16)) for t, ty, b in tx if ty == wire.NOTIFICATION and len(b) >= 4]
    kas = [t for t, ty, _ in tx if ty == wire.KEEPALIVE and t >= -0.001]
    allow = GRANULARITY + LOOP
    if scenario == 'no-open':
        # (e) a peer OPEN that does not arrive within the configured wait ends the attempt with 5/1
        first = [n for n in notifs]
        if not first:
            viols.append(('openwait:no-notification', 'no OPEN for the whole horizon (openwait 6 s) and no NOTIFICATION was sent'))
        else:
            t, c, sc = first[0]
            if (c, sc) != (5, 1):
                viols.append((f'openwait:wrong-code:{c}/{sc}', f'OPEN withheld: NOTIFICATION {c}/{sc} instead of 5/1'))
        return viols
    # rx events: session is established at t=0 (the KEEPALIVE that completed it counts as a receipt)
    rx = [0.0] + list(arrivals) if scenario != 'no-keepalive' else [0.0]
    end = closed_at if closed_at is not None else horizon
    if H > 0:
        # (a) silence longer than H must have ended the session with 4/0 within the allowance
        for i, t in enumerate(rx):
            nxt = rx[i + 1] if i + 1 < len(rx) else None
            deadline = t + H + allow
            if nxt is not None and nxt <= deadline:
                continue
            # nothing received in (t, deadline]: the session must be closed by `deadline` with 4/0
            if deadline > horizon - 0.001:
                break
            hold_notifs = [n for n in notifs if (n[1], n[2]) == (4, 0)]
            if closed_at is None or closed_at > deadline + 0.001:
                where = 'OPENCONFIRM' if scenario == 'no-keepalive' else 'ESTABLISHED'
                viols.append((f'hold-not-enforced:{where}', f'H={H}: nothing received after t={t} but the session was still open at t={deadline} (closed_at={closed_at})'))
            elif not hold_notifs:
                got = [(n[1], n[2]) for n in notifs]
                viols.append((f'hold-expiry-wrong-notification:{got}', f'H={H}: silence after t={t} ended the session without NOTIFICATION 4/0 (sent {got})'))
            break
        # (b) never closed for a silence shorter than H
        for t, c, sc in notifs:
            if (c, sc) == (4, 0):
                last = max([r for r in rx if r <= t + 0.001] or [0.0])
                if t - last < H - 0.001:
                    viols.append(('hold-fired-early', f'H={H}: NOTIFICATION 4/0 at t={t} only {round(t - last, 3)} s after the last message received at t={last}'))
        if closed_at is not None and not notifs:
            viols.append(('closed-without-notification', f'H={H}: connection closed at t={closed_at} without any NOTIFICATION'))
        # (c) KEEPALIVE spacing while established
        if scenario != 'no-keepalive':
            limit = H / 3.0 + 1.0 + LOOP
            pts = [0.0] + [k for k in kas if k > 0.001]
            for a, b in zip(pts, pts[1:] + [end]):
                if b - a > limit + 0.001 and a < end:
                    viols.append(('keepalive-gap', f'H={H}: {round(b - a, 3)} s between KEEPALIVEs (t={a} -> t={b}), limit {round(limit, 3)} s'))
                    break
    else:
        # (d) H = 0: no periodic KEEPALIVE, hold timer never fires
        late = [k for k in kas if k > 0.5]
        if late:
            viols.append(('keepalive-with-hold-0', f'hold time 0 but KEEPALIVEs were sent at t={late[:3]}'))
        if any((c, sc) == (4, 0) for _, c, sc in notifs):
            viols.append(('hold-fired-with-hold-0', 'hold time 0 but NOTIFICATION 4/0 was sent'))
        if closed_at is not None and not arrivals:
            viols.append(('closed-with-hold-0', f'hold time 0 and a silent peer: connection closed at t={closed_at}'))
    if sm['loop_exceptions']:
        viols.append(('loop-exception', sm['loop_exceptions'][0][:200]))
    return viols


def vectors(horizon, k, kinds=('K', 'U'), stride=1):
    yield ()
    for n in range(1, k + 1):
        for secs in itertools.combinations(range(0, horizon, stride), n):
            for ks in itertools.product(kinds, repeat=n):
                yield tuple(zip(secs, ks))


def plan(tier):
    # (ours, theirs, phase, nroutes, scenario, k)
    if tier == 'quick':
        p = [
            (3, 9, 0.05, 0, 'est', 3),
            (9, 3, 0.95, 0, 'est', 2),
            (9, 9, 0.05, 0, 'est', 2),
            (0, 9, 0.05, 0, 'est', 1),
            (9, 9, 0.5, 200, 'est', 1),
        ]
    else:
        p = [
            (3, 9, 0.05, 0, 'est', 4),
            (9, 3, 0.95, 0, 'est', 4),
            (4, 4, 0.5, 0, 'est', 3),
            (9, 9, 0.05, 0, 'est', 3),
            (9, 9, 0.95, 0, 'est', 3),
            (0, 9, 0.05, 0, 'est', 2),
            (9, 0, 0.05, 0, 'est', 2),
            (9, 9, 0.5, 200, 'est', 2),
            (30, 30, 0.5, 0, 'est', 1),
        ]
    # the confirming KEEPALIVE arrives late (but inside the hold time): the hold timer must restart from it
    if tier == 'quick':
        p += [(9, 9, 0.05, 0, 'slow-ka:4.5', 1), (9, 9, 0.05, 0, 'slow-ka:7.5', 1), (3, 9, 0.05, 0, 'slow-ka:2.5', 1), (9, 9, 0.95, 0, 'slow-ka:8.5', 1)]
    else:
        p += [(9, 9, 0.05, 0, 'slow-ka:4.5', 2), (9, 9, 0.05, 0, 'slow-ka:7.5', 3), (3, 9, 0.05, 0, 'slow-ka:2.5', 3), (9, 9, 0.95, 0, 'slow-ka:8.5', 2)]
    p += [(9, 9, 0.05, 0, 'no-open', 0), (9, 9, 0.05, 0, 'no-keepalive', 0), (3, 3, 0.05, 0, 'no-keepalive', 0)]
    # the default hold time (180 s) and large ones on a coarse grid: the arithmetic must not depend on H being small
    if tier == 'quick':
        p += [(180, 180, 0.05, 0, 'est', 1, 45), (180, 90, 0.5, 0, 'est', 0), (9, 9, 0.05, 0, 'mirror', 1), (3, 9, 0.95, 0, 'mirror', 2)]
    else:
        p += [(180, 180, 0.05, 0, 'est', 2, 30), (180, 90, 0.5, 0, 'est', 1, 15), (3600, 3600, 0.05, 0, 'est', 1, 900), (3600, 240, 0.05, 0, 'est', 1, 60),
              (65535, 65535, 0.05, 0, 'est', 0), (65535, 0, 0.05, 0, 'est', 0), (9, 9, 0.05, 0, 'mirror', 3), (3, 9, 0.95, 0, 'mirror', 3), (9, 0, 0.05, 0, 'mirror', 1)]

    # cheapest first: when the time budget cuts the run short it is the largest enumerations that are reported as not run
    def cost(e):
        H = min(e[0], e[1]) if e[0] and e[1] else 0
        hz = horizon_for(H)
        stride = e[6] if len(e) > 6 else 1
        n = sum(1 for _ in vectors(min(hz, 40), e[5], stride=stride)) if hz <= 40 else (hz // stride + 1) ** e[5]
        return n * hz
    if tier != 'quick':
        p.sort(key=cost)
    return p


def signature(sig):
    return sig


def run(ctx: core.Ctx) -> None:
    ctx.rule = ('for each (our hold, peer hold, sub-second phase, configured routes, scenario): every arrival vector with <= k sends (KEEPALIVE or UPDATE, '
                'plus single 30-UPDATE bursts and uninterrupted streams of one UPDATE per 50 / 90 ms lasting H/3+1.5 and H+1.5 s) on a 1-second grid over 3H+5 virtual seconds (hold times 180 / 3600 / 65535: a coarse grid over 4H/3+10 s); non-trivial = distinct (H, scenario, closed, notification, keepalive count) outcome')
    ctx.assumptions += ['allowance on every deadline: 2 s integer-clock granularity + 0.2 s loop period', 'time only moves when the controller says so']
    pool = mp.Pool(min(16, os.cpu_count() or 1))
    budget = ctx.budget_s or (170 if ctx.tier == 'quick' else 1700)
    try:
        for entry in plan(ctx.tier):
            ours, theirs, phase, nroutes, scenario, k = entry[:6]
            stride = entry[6] if len(entry) > 6 else 1
            H = min(ours, theirs) if ours and theirs else 0
            horizon = horizon_for(H)
            params = (ours, theirs, phase, nroutes, scenario)
            vecs = list(vectors(horizon, k, stride=stride))
            if (scenario in ('est', 'mirror') or scenario.startswith('slow-ka')) and k >= 1 and stride == 1:
                vecs += [((sec, 'B'),) for sec in range(horizon)]
                if H:
                    # dense inbound streams lasting longer than a keepalive interval / longer than the hold time
                    for dur in (H / 3.0 + 1.5, H + 1.5):
                        vecs += [((sec, f'{c}{dur:g}'),) for sec in range(0, horizon - int(dur) - 1, 2) for c in 'ST']
            if ctx.elapsed() > budget:
                ctx.cap(f'{params} k={k}: {len(vecs)} vectors not run (time budget)')
                continue
            results = pool.map(run_vector, [(params, v) for v in vecs], chunksize=max(1, len(vecs) // 128))
            core.replay_check(ctx, pool, run_vector, [(params, v) for v in vecs], results, stride=32)
            for v, (viols, outcome, obs) in zip(vecs, results):
                ctx.count('executions')
                ctx.count('transitions', horizon)
                ctx.add_to_set('outcomes', outcome)
                for sig, what in viols:
                    ctx.violation(sig, f'{params} vector {v}: {what}', {'params': list(params), 'vector': [list(x) for x in v]})
            ctx.coverage_extra.setdefault('plan', []).append({'params': list(params), 'k': k, 'grid_s': stride, 'vectors': len(vecs), 'horizon_s': horizon})
            ctx.sample({'params': list(params), 'stride': stride, 'vector': [list(x) for x in vecs[len(vecs) // 2]], 'observed': str(results[len(vecs) // 2][2])[:300]})
        ctx.counters['states'] = ctx.set_size('outcomes')
        ctx.counters['nontrivial'] = ctx.set_size('outcomes')
    finally:
        pool.close()
        pool.join()


def replay(case):
    viols, outcome, obs = run_vector((tuple(case['params']), tuple(tuple(x) for x in case['vector'])))
    return [{'signature': s, 'what': w} for s, w in viols]
