"""C20 - Healthcheck announces and withdraws with rise/fall hysteresis.   E-seq on the real loop().

Case    = (configuration, sequence over {ok, fail, disabled}) - every sequence of every length 1..N.
Run     = the real `exabgp.application.healthcheck.loop(options)`, `options` from the real `parse()`,
          with only the environment rebound inside that module (check result, disable file, clock,
          stdout/stdin, signal, ip setup, subprocess).  The scripted sleep() that follows the last
          result delivers the stop request (KeyboardInterrupt, or the SIGTERM handler loop() installed).
Oracle1 = vt/ref/hysteresis.py run on the same sequence (safety S1-S4 + promptness P, tolerances T1-T6).
Oracle2 = every line written is fed to the daemon side exactly as Processes hands it over
          (rstrip + formated() -> real API.process -> real dispatch_v6 / dispatch_v4 -> real handler ->
          real Configuration.announce_route / withdraw_route -> real OutgoingRIB -> real
          UpdateCollection.messages()); the bytes are decoded by the reference codec vt/ref/wire.py and
          must show, on exactly the selected peers, exactly the configured MED, communities, AS path,
          next hop, local preference and path id of one of the three states.
The posture a peer holds for each (peer, NLRI) is tracked from those decoded effects, so a withdraw that
does not hit the NLRI that was announced (other path id, other peer) is seen as "not withdrawn".
"""

from __future__ import annotations

import ipaddress
import itertools
import multiprocessing as mp
import os
import sys

from vt import core, exa
from vt.ref import hysteresis as hy
from vt.ref import wire

PROPERTY = 'C20'

OK, FAIL, DIS = hy.OK, hy.FAIL, hy.DIS
SYM = {'o': OK, 'f': FAIL, 'd': DIS}
DISABLE_FILE = '/nonexistent/verif-c20-disable'
LOCAL_AS = 65001

# ---------------------------------------------------------------------------------------------------
# the daemon-side worlds: three peers each; A eBGP, B iBGP, C eBGP
# ---------------------------------------------------------------------------------------------------
WORLDS = {
    4: dict(local='192.0.2.100', peers={'A': ('192.0.2.1', 65002), 'B': ('192.0.2.2', 65001), 'C': ('192.0.2.3', 65003)}),
    6: dict(local='2001:db8::100', peers={'A': ('2001:db8::1', 65002), 'B': ('2001:db8::2', 65001), 'C': ('2001:db8::3', 65003)}),
}

# ---------------------------------------------------------------------------------------------------
# configurations
# ---------------------------------------------------------------------------------------------------
BASE = dict(
    rise=2, fall=2, wod=False, debounce=False, up_metric=None, down_metric=None, disabled_metric=None, increase=None,
    ips=['198.51.100.1/32'], community=None, disabled_community=None, ext_community=None, large_community=None,
    as_path=None, up_as_path=None, down_as_path=None, disabled_as_path=None, local_pref=None, next_hop=None,
    path_id=None, neighbors=[], no_ack=False, exit='int', interval=None, ip_dynamic=False, execute=False,
    disable=True,
)
DEFAULT_METRIC = {'U': 100, 'D': 1000, 'X': 500}  # documented defaults of --up/--down/--disabled-metric
DEFAULT_INCREASE = 1


def _cfg(name, **kw):
    c = dict(BASE)
    for k in kw:
        if k not in BASE:
            raise core.HarnessError(f'unknown config field {k}')
    c.update(kw)
    c['name'] = name
    return c


def configs():
    out = []
    for r in (1, 2, 3):
        for f in (1, 2, 3):
            out.append(_cfg(f'r{r}f{f}', rise=r, fall=f))
            out.append(_cfg(f'r{r}f{f}-debounce', rise=r, fall=f, debounce=True))
            out.append(_cfg(f'r{r}f{f}-wod', rise=r, fall=f, wod=True))
            out.append(_cfg(f'r{r}f{f}-wod-debounce', rise=r, fall=f, wod=True, debounce=True))
    two = ['198.51.100.1/32', '198.51.100.2/32']
    out += [
        _cfg('metrics-2ip', up_metric=10, down_metric=20, disabled_metric=30, increase=5, ips=two),
        _cfg('increase0-2ip', increase=0, ips=two, rise=1, fall=2),
        # the ends of the 32-bit fields the lines carry (RFC 4271 5.1.4 MED, 5.1.5 LOCAL_PREF, RFC 7911 path identifier, RFC 6793 AS numbers)
        _cfg('metric-ends', up_metric=0, down_metric=4294967295, disabled_metric=4294967294, rise=1, fall=2),
        _cfg('metric-top-2ip', up_metric=4294967294, down_metric=4294967293, disabled_metric=0, increase=1, ips=two, rise=2, fall=1),
        _cfg('u32-ends', local_pref=4294967295, path_id=4294967295, as_path='4294967295 65001', rise=1, fall=1),
        _cfg('community', community='65000:1 no-export'),
        _cfg('community+disabled', community='65000:1', disabled_community='65000:666 65000:667'),
        _cfg('disabled-community-only', disabled_community='65000:666', rise=1, fall=1),
        _cfg('ext+large', ext_community='target:65000:1', large_community='65000:1:2 65000:3:4'),
        _cfg('as-path', as_path='65001 65010'),
        _cfg('as-path-per-state', as_path='65001', up_as_path='65001 65011', down_as_path='65001 65012 65012',
             disabled_as_path='65001 65013 65013 65013', rise=2, fall=3),
        _cfg('down-as-path-only', down_as_path='65001 65001 65001', rise=3, fall=2),
        _cfg('local-pref', local_pref=200),
        _cfg('local-pref-0', local_pref=0, rise=1, fall=2),
        _cfg('next-hop', next_hop='192.0.2.77'),
        _cfg('path-id', path_id=7),
        _cfg('path-id-wod-2ip', path_id=7, wod=True, ips=two, rise=2, fall=1),
        _cfg('neighbor-one', neighbors=['A']),
        _cfg('neighbor-one-wod-debounce', neighbors=['B'], wod=True, debounce=True, rise=3, fall=2),
        _cfg('neighbor-two', neighbors=['A', 'B']),
        _cfg('neighbor-two-wod', neighbors=['A', 'B'], wod=True, rise=1, fall=1),
        _cfg('neighbor-star', neighbors=['*']),
        _cfg('neighbor-star+one', neighbors=['A', '*'], rise=1, fall=3),
        _cfg('ipv6', ips=['2001:db8:51::1/128']),
        _cfg('ipv6-nh-2ip-wod', ips=['2001:db8:51::1/128', '2001:db8:51::2/128'], next_hop='2001:db8::77', wod=True, increase=10),
        _cfg('network-24', ips=['203.0.113.0/24'], rise=3, fall=3, debounce=True),
        _cfg('no-ack', no_ack=True),
        _cfg('no-disable-option', disable=False, rise=2, fall=3),
        _cfg('sigterm', exit='term'),
        _cfg('sigterm-wod-debounce', exit='term', wod=True, debounce=True, rise=3, fall=1),
        _cfg('interval-0', interval=0),
        _cfg('dynamic-ip', ip_dynamic=True, rise=2, fall=1),
        _cfg('execute-hooks', execute=True, rise=1, fall=2),
        _cfg('all', rise=3, fall=2, debounce=True, up_metric=1, down_metric=2, disabled_metric=3, increase=100, ips=two,
             community='65000:1', disabled_community='65000:2', ext_community='target:65000:1', large_community='65000:1:2',
             as_path='65001', up_as_path='65001 65011', down_as_path='65001 65012', disabled_as_path='65001 65013',
             local_pref=50, next_hop='192.0.2.77', path_id=9, neighbors=['B']),
        _cfg('all-wod', rise=2, fall=3, wod=True, up_metric=1, down_metric=2, disabled_metric=3, increase=100, ips=two,
             community='65000:1', disabled_community='65000:2', ext_community='target:65000:1', large_community='65000:1:2',
             as_path='65001', up_as_path='65001 65011', down_as_path='65001 65012', disabled_as_path='65001 65013',
             local_pref=50, next_hop='192.0.2.77', path_id=9, neighbors=['A'], exit='term'),
    ]
    names = [c['name'] for c in out]
    if len(set(names)) != len(names):
        raise core.HarnessError('duplicate config names')
    return out


def world_of(cfg) -> int:
    vers = {ipaddress.ip_network(ip).version for ip in cfg['ips']}
    if len(vers) != 1:
        raise core.HarnessError('mixed-family configs are outside the space')
    return vers.pop()


def argv_of(cfg) -> list[str]:
    """The command line an operator would write for this configuration."""
    w = WORLDS[world_of(cfg)]
    a = ['--rise', str(cfg['rise']), '--fall', str(cfg['fall']), '--command', 'verif-scripted-check', '--no-syslog']
    if cfg['disable']:
        a += ['--disable', DISABLE_FILE]
    if cfg['wod']:
        a.append('--withdraw-on-down')
    if cfg['debounce']:
        a.append('--debounce')
    for opt, key in (('--up-metric', 'up_metric'), ('--down-metric', 'down_metric'), ('--disabled-metric', 'disabled_metric'),
                     ('--increase', 'increase'), ('--community', 'community'), ('--disabled-community', 'disabled_community'),
                     ('--extended-community', 'ext_community'), ('--large-community', 'large_community'),
                     ('--as-path', 'as_path'), ('--up-as-path', 'up_as_path'), ('--down-as-path', 'down_as_path'),
                     ('--disabled-as-path', 'disabled_as_path'), ('--local-preference', 'local_pref'),
                     ('--next-hop', 'next_hop'), ('--path-id', 'path_id'), ('--interval', 'interval')):
        if cfg[key] is not None:
            a += [opt, str(cfg[key])]
    for ip in cfg['ips']:
        a += ['--ip', ip]
    for n in cfg['neighbors']:
        a += ['--neighbor', '*' if n == '*' else w['peers'][n][0]]
    if cfg['no_ack']:
        a.append('--no-ack')
    if cfg['ip_dynamic']:
        a.append('--dynamic-ip-setup')
    if cfg['execute']:
        a += ['--execute', 'verif-any', '--up-execute', 'verif-up', '--down-execute', 'verif-down', '--disabled-execute', 'verif-disabled']
    return a


# ---------------------------------------------------------------------------------------------------
# what the configuration promises for each state (oracle side; written from the option help texts)
# ---------------------------------------------------------------------------------------------------
WELL_KNOWN = {'no-export': 0xFFFFFF01, 'no-advertise': 0xFFFFFF02, 'no-export-subconfed': 0xFFFFFF03}  # RFC 1997
EXT = {'target:65000:1': '0002fde800000001'}  # RFC 4360 3.1/4: type 0x00 sub-type 0x02, AS 65000 (0xfde8), value 1


def _communities(text):
    if not text:
        return ()
    out = []
    for t in text.split():
        if t in WELL_KNOWN:
            out.append(WELL_KNOWN[t])
        else:
            hi, lo = t.split(':')
            out.append((int(hi) << 16) | int(lo))
    return tuple(sorted(out))


def _large(text):
    return tuple(sorted(tuple(int(x) for x in t.split(':')) for t in text.split())) if text else ()


def _ext(text):
    return tuple(sorted(EXT[t] for t in text.split())) if text else ()


def _aspath(text):
    return tuple(int(x) for x in text.split()) if text else None


def promised(cfg, state: str, idx: int) -> dict:
    """Attributes the configuration promises for route number idx in state U/D/X."""
    key = {'U': 'up', 'D': 'down', 'X': 'disabled'}[state]
    base = cfg[f'{key}_metric']
    if base is None:
        base = DEFAULT_METRIC[state]
    inc = DEFAULT_INCREASE if cfg['increase'] is None else cfg['increase']
    if state == 'U':
        comm = {_communities(cfg['community'])}
    elif state == 'X':
        comm = {_communities(cfg['disabled_community'] or cfg['community'])}
    else:
        # --disabled-community "when disabled": upstream applies it to the down state too; the help
        # text read literally keeps --community there.  Both accepted (tolerance T7 in notes).
        comm = {_communities(cfg['disabled_community'] or cfg['community']), _communities(cfg['community'])}
    w = WORLDS[world_of(cfg)]
    return dict(
        med=base + idx * inc,
        comm=comm,
        ext=_ext(cfg['ext_community']),
        large=_large(cfg['large_community']),
        aspath=_aspath(cfg[f'{key}_as_path'] or cfg['as_path']),
        lp=cfg['local_pref'] if cfg['local_pref'] is not None and cfg['local_pref'] >= 0 else None,
        nh=str(ipaddress.ip_address(cfg['next_hop'])) if cfg['next_hop'] else w['local'],
    )


def mismatches(seen: dict, want: dict, ibgp: bool) -> tuple:
    """Names of the fields of a decoded announcement that differ from what is promised."""
    bad = []
    if seen['med'] != want['med']:
        bad.append('med')
    if seen['nh'] != want['nh']:
        bad.append('next-hop')
    if seen['comm'] not in want['comm']:
        bad.append('community')
    if seen['ext'] != want['ext']:
        bad.append('extended-community')
    if seen['large'] != want['large']:
        bad.append('large-community')
    ap = want['aspath']
    if seen['aspath'] is None:
        bad.append('as-path')  # AS_SET / confed segments are never configured here
    elif ap is None:
        if seen['aspath'] not in ((), (LOCAL_AS,)):  # the speaker may prepend its own AS on eBGP
            bad.append('as-path')
    elif seen['aspath'] != ap and seen['aspath'] != (LOCAL_AS,) + ap:
        bad.append('as-path')
    lp = want['lp']
    if lp is None:
        if seen['lp'] not in (None, 100):
            bad.append('local-preference')
    elif ibgp:
        if seen['lp'] != lp:
            bad.append('local-preference')
    elif seen['lp'] not in (None, lp):  # RFC 4271 5.1.5: not sent to external peers
        bad.append('local-preference')
    if seen['extra']:
        bad.append('unexpected-attribute')
    return tuple(bad)


# ---------------------------------------------------------------------------------------------------
# daemon side
# ---------------------------------------------------------------------------------------------------
class _Procs:
    def __init__(self):
        self.answers = []
        self.errors = []

    async def answer_done(self, service):
        self.answers.append('done')

    async def answer_error(self, service, message=''):
        self.answers.append('error')
        self.errors.append(str(message))

    def answer_error_sync(self, service, message=''):
        self.answers.append('error')
        self.errors.append(str(message))

    def get_sync(self, service):
        return False

    async def flush_write_queue(self):
        return None

    def reset(self):
        self.answers = []
        self.errors = []


class _Async:
    """Stands for reactor.asynchronous: runs the scheduled handler coroutine to completion at once."""

    def schedule(self, uid, command, coro):
        try:
            while True:
                coro.send(None)
        except StopIteration:
            pass


class _Reactor:
    def __init__(self, configuration):
        self.configuration = configuration
        self.processes = _Procs()
        self.asynchronous = _Async()
        self._peers = {}

    def peers(self, service=''):
        return list(self.configuration.neighbors)


class Daemon:
    """One parsed 3-neighbor configuration + real API object; evaluates one API line at a time on clean RIBs."""

    def __init__(self, version: int):
        from exabgp.reactor.api import API

        w = WORLDS[version]
        text = '\n'.join(
            'neighbor %s { router-id 1.2.3.4; local-address %s; local-as %d; peer-as %d; '
            'capability { add-path send/receive; } family { ipv4 unicast; ipv6 unicast; } }' % (ip, w['local'], LOCAL_AS, asn)
            for ip, asn in w['peers'].values()
        )
        exa.reset_process_state()
        cfg, ok = exa.parse_config(text)
        if not ok:
            raise core.HarnessError(f'daemon configuration refused: {getattr(cfg, "error", "?")}')
        self.cfg = cfg
        self.role = {}
        self.neg = {}
        by_ip = {ip: role for role, (ip, _a) in w['peers'].items()}
        for name, n in cfg.neighbors.items():
            role = by_ip[name.split()[1]]
            self.role[name] = role
            asn = w['peers'][role][1]
            self.neg[name] = exa.negotiated_for(n, exa.peer_open_body(asn, [(1, 1), (2, 1)], addpath=[(1, 1, 3), (2, 1, 3)]))
        if sorted(self.role.values()) != ['A', 'B', 'C']:
            raise core.HarnessError('daemon world incomplete')
        self.reactor = _Reactor(cfg)
        self.api = API(self.reactor)
        self.memo = {}

    def _drain(self):
        out = []
        for name, n in self.cfg.neighbors.items():
            rib = n.rib.outgoing
            for upd in rib.updates(False):
                for raw in upd.messages(self.neg[name]):
                    for mtype, body in exa.split_messages(raw):
                        if mtype != wire.UPDATE:
                            raise core.HarnessError('non-UPDATE from the RIB')
                        out += _effects(self.role[name], wire.decode_update(body, True, {(1, 1), (2, 1)}))
            rib.clear()
        return tuple(out)

    def _once(self, line: str, version: int):
        from exabgp.configuration.core.format import formated
        from exabgp.environment import getenv
        from exabgp.reactor.api.dispatch import dispatch_v4, dispatch_v6

        getenv().api.version = version
        command = formated(line.rstrip())  # what Processes.received() hands to API.process
        refused = ''
        try:
            (dispatch_v6 if version == 6 else dispatch_v4)(command, self.reactor, 'verif')
        except Exception as e:  # UnknownCommand / NoMatchingPeers
            refused = type(e).__name__
        self.reactor.processes.reset()
        for n in self.cfg.neighbors.values():
            n.rib.outgoing.clear()
        try:
            result = self.api.process(self.reactor, 'verif', command)
        except Exception as e:
            self._drain()
            return ('refused', f'exception:{type(e).__name__}', ())
        effects = self._drain()
        answers = list(self.reactor.processes.answers)
        if refused:
            return ('refused', refused, ())
        if not result or answers != ['done']:
            why = 'parse-error' if self.reactor.processes.errors and any(self.reactor.processes.errors) else 'error-answer'
            return ('refused', why + ':' + ';'.join(e.split(':')[0] for e in self.reactor.processes.errors if e)[:60], ())
        return ('done', '', effects)

    def line(self, line: str):
        """-> (status 'done'|'refused'|'malformed', reason, effects)."""
        r = self.memo.get(line)
        if r is None:
            if not line or line != line.strip() or any(ord(c) < 32 for c in line):
                r = ('malformed', 'blank-or-control-characters', ())
            else:
                try:
                    r6 = self._once(line, 6)
                    r4 = self._once(line, 4)
                except wire.RefError as e:
                    r6 = r4 = ('refused', f'undecodable-update:{e.code}/{e.subcode}', ())
                finally:
                    from exabgp.environment import getenv

                    getenv().api.version = 6
                r = r6 if r6 == r4 else ('refused', f'api-v4-v6-differ:{r6[0]}/{r4[0]}', ())
            self.memo[line] = r
        return r


def _flat(segments):
    out = []
    for stype, asns in segments:
        if stype != wire.AS_SEQUENCE:
            return None
        out += list(asns)
    return tuple(out)


def _effects(role, upd):
    """Decoded UPDATE -> [(role, 'W'|'A', nlri key, fields)]."""
    out = []
    for n in upd['withdrawn']:
        out.append((role, 'W', n, None))
    for _afi, _safi, nlris in upd['mp_unreach']:
        for n in nlris:
            out.append((role, 'W', n, None))
    a = upd['attrs']
    known = {wire.ORIGIN, wire.AS_PATH, wire.NEXT_HOP, wire.MED, wire.LOCAL_PREF, wire.COMMUNITIES, wire.EXT_COMMUNITIES, wire.LARGE_COMMUNITIES}

    def fields(nh):
        return dict(
            med=a.get(wire.MED), nh=nh, comm=tuple(sorted(a.get(wire.COMMUNITIES, ()))), ext=tuple(sorted(a.get(wire.EXT_COMMUNITIES, ()))),
            large=tuple(sorted(a.get(wire.LARGE_COMMUNITIES, ()))), aspath=_flat(a.get(wire.AS_PATH, ())), lp=a.get(wire.LOCAL_PREF),
            extra=tuple(sorted(set(a) - known)),
        )

    for n in upd['nlri']:
        out.append((role, 'A', n, fields(a.get(wire.NEXT_HOP))))
    for _afi, _safi, nh, nlris in upd['mp_reach']:
        for n in nlris:
            out.append((role, 'A', n, fields(nh)))
    return out


# ---------------------------------------------------------------------------------------------------
# the harness around the real loop()
# ---------------------------------------------------------------------------------------------------
class _Stop(BaseException):
    """Script exhausted and the implementation still asks for more."""


class _Proxy:
    def __init__(self, real, **over):
        self.__dict__['_real'] = real
        self.__dict__.update(over)

    def __getattr__(self, name):
        return getattr(self._real, name)


class _Out:
    def __init__(self, h):
        self.h = h

    def write(self, s):
        h = self.h
        (h.exit_text if h.exiting else h.round_text[h.i]).append(s)
        h.writes += 1
        if s.endswith('\n') and not h.exiting:
            k = h.round_lines
            h.round_lines += 1
            h.stop_here('written', k)   # the stop request lands right after the write returned
        return len(s)

    def flush(self):
        self.h.flushes += 1


class _In:
    def __init__(self, h):
        self.h = h

    def readline(self):
        h = self.h
        if h.in_readline:
            # what CPython does when a signal handler reads the stream its interrupted frame is reading
            raise RuntimeError("reentrant call inside <_io.BufferedReader name='<stdin>'>")
        if not h.exiting:
            k = h.round_acks
            h.round_acks += 1
            h.in_readline = True
            try:
                h.stop_here('readline', k)   # the stop request lands while the helper waits for this acknowledgement
            finally:
                h.in_readline = False
        h.acks += 1
        return 'done\n'


class Harness:
    """Per-process: rebinds, inside exabgp.application.healthcheck only, the environment loop() touches."""

    def __init__(self):
        import logging
        import os as real_os
        import signal as real_signal
        import subprocess as real_subprocess
        import sys as real_sys
        import time as real_time

        import exabgp.application.healthcheck as hc

        self.hc = hc
        h = self
        logging.getLogger('healthcheck').addHandler(logging.NullHandler())
        logging.getLogger('healthcheck').setLevel(logging.CRITICAL + 1)
        logging.getLogger('healthcheck').propagate = False

        def exists(path):
            if path != DISABLE_FILE:
                raise core.HarnessError(f'os.path.exists({path!r})')
            if h.i >= len(h.seq):
                raise _Stop()
            h.stop_here('begin', 0)
            return h.seq[h.i] == DIS

        def check(cmd, timeout):
            if h.i >= len(h.seq):
                raise _Stop()
            h.stop_here('begin', 0)   # (configurations without a disable file: the round begins with the check)
            h.checks += 1
            return h.seq[h.i] != FAIL

        def deliver():
            h.exiting = True
            h.stops += 1
            if h.stops > 1:
                raise _Stop()
            if h.exit_mode == 'term':
                handler = h.handlers.get(real_signal.SIGTERM)
                if handler is None:
                    raise core.HarnessError('loop() installed no SIGTERM handler')
                handler(real_signal.SIGTERM, None)
                if not h.handler_may_return:
                    raise core.HarnessError('SIGTERM handler returned')
                return
            raise KeyboardInterrupt()

        def stop_here(kind, k):
            """the stop request of this run, when it is due inside the last scripted round at this very point"""
            if h.stop_at == (kind, k) and h.i == len(h.seq) - 1 and not h.exiting:
                h.stop_at = None
                h.partial = True
                deliver()

        self.stop_here = stop_here

        def sleep(n):
            h.sleeps.append(n)
            h.i += 1
            h.round_lines = h.round_acks = 0
            if h.i >= len(h.seq) and not h.exiting:
                deliver()

        def set_signal(num, handler):
            h.handlers[num] = handler

        def sys_exit(code=0):
            raise SystemExit(code)

        def forbidden(*a, **k):
            raise core.HarnessError('healthcheck reached the real system (Popen/check_call)')

        def call(cmd, **k):
            h.executed.append((cmd, k.get('env', {}).get('STATE')))
            return 0

        def setup_ips(*a, **k):
            h.ipops.append('setup')

        def remove_ips(*a, **k):
            h.ipops.append('remove')

        hc.os = _Proxy(real_os, path=_Proxy(real_os.path, exists=exists))
        hc.time = _Proxy(real_time, sleep=sleep)
        hc.signal = _Proxy(real_signal, signal=set_signal, alarm=lambda n: h.alarms.append(n))
        hc.subprocess = _Proxy(real_subprocess, call=call, Popen=forbidden, check_call=forbidden)
        hc.sys = _Proxy(real_sys, stdout=_Out(self), stdin=_In(self), exit=sys_exit)
        hc.check = check
        hc.setup_ips = setup_ips
        hc.remove_ips = remove_ips
        self.options_memo = {}

    def options(self, cfg):
        key = cfg['name']
        o = self.options_memo.get(key)
        if o is None:
            saved = sys.argv
            sys.argv = ['healthcheck'] + argv_of(cfg)
            try:
                o = self.hc.parse()
            except SystemExit as e:
                raise core.HarnessError(f'parse() refused {sys.argv[1:]}: exit {e.code}')
            finally:
                sys.argv = saved
            self.options_memo[key] = o
        return o

    def run(self, cfg, seq, stop=None):
        """-> dict(rounds=[[line,...]...], exit=[line,...], ended=..., error=...)
        stop: None = the stop request comes in the sleep after the last scripted round; (kind, k) = it comes inside that round: 'begin' (as the
        round begins / during the check), ('readline', k) while the helper waits for the acknowledgement of its line k, ('written', k) right after
        line k was written.  A point the round never reaches leaves the request to the sleep."""
        self.seq = seq
        self.i = 0
        self.stop_at = tuple(stop) if stop else None
        self.partial = False
        self.in_readline = False
        self.handler_may_return = True   # a handler may also only take note of the request and let the loop act on it
        self.round_lines = self.round_acks = 0
        self.exiting = False
        self.stops = 0
        self.exit_mode = cfg['exit']
        self.handlers = {}
        self.round_text = [[] for _ in seq]
        self.exit_text = []
        self.sleeps = []
        self.executed = []
        self.ipops = []
        self.alarms = []
        self.acks = self.writes = self.flushes = self.checks = 0
        options = self.options(cfg)
        ended, error = 'returned', ''
        try:
            self.hc.loop(options)
            ended = 'interrupt' if self.exiting else 'self'
        except SystemExit as e:
            ended = 'interrupt' if self.exiting and e.code in (0, None) else 'sysexit'
            if ended == 'sysexit':
                error = f'SystemExit({e.code})'
        except _Stop:
            ended, error = 'runaway', 'loop() kept running after the stop request'
        except KeyboardInterrupt:
            ended, error = 'escaped', 'KeyboardInterrupt escaped loop()'
        except core.HarnessError:
            raise
        except Exception as e:
            ended, error = 'exception', f'{type(e).__name__}: {e}'
        unterminated = False
        rounds = []
        for parts in self.round_text:
            text = ''.join(parts)
            if text and not text.endswith('\n'):
                unterminated = True
            rounds.append(text.split('\n')[:-1] if text.endswith('\n') else (text.split('\n') if text else []))
        text = ''.join(self.exit_text)
        if text and not text.endswith('\n'):
            unterminated = True
        exit_lines = text.split('\n')[:-1] if text.endswith('\n') else (text.split('\n') if text else [])
        return dict(rounds=rounds, exit=exit_lines, ended=ended, error=error, unterminated=unterminated, partial=self.partial, stopped=self.exiting,
                    rounds_run=min(len(seq), self.i + (0 if (self.exiting and not self.partial) else 1)), acks=self.acks, writes=self.writes)


# ---------------------------------------------------------------------------------------------------
# judge
# ---------------------------------------------------------------------------------------------------
_P = {}  # per-process singletons


def _harness():
    if 'h' not in _P:
        _P['h'] = Harness()
    return _P['h']


def _daemon(version):
    k = ('d', version)
    if k not in _P:
        _P[k] = Daemon(version)
    return _P[k]


def _targets(cfg):
    """{(role, nlri key): ip index} the configuration is meant to drive."""
    roles = ['A', 'B', 'C'] if not cfg['neighbors'] or '*' in cfg['neighbors'] else sorted(set(cfg['neighbors']))
    pid = cfg['path_id'] if cfg['path_id'] else 0  # add-path is negotiated: "no path id" travels as 0
    out = {}
    for idx, ip in enumerate(cfg['ips']):
        net = ipaddress.ip_network(ip)
        key = wire.nlri_ip(1 if net.version == 4 else 2, 1, str(net.network_address), net.prefixlen, path_id=pid)
        for r in roles:
            out[(r, key)] = idx
    return out


def _classify(cfg, role, idx, fields):
    """-> (candidate states whose promise the announcement meets, fields off against the nearest promise)."""
    cands, best = [], None
    for st in ('U', 'D', 'X'):
        bad = mismatches(fields, promised(cfg, st, idx), ibgp=(role == 'B'))
        if not bad:
            cands.append(st)
        if best is None or len(bad) < len(best):
            best = bad
    return tuple(cands), best


def _plan(cfg, daemon, targets, line, memo):
    """What one written line means at the peers (memoised per configuration: few distinct lines exist)."""
    p = memo.get(line)
    if p is None:
        status, reason, effects = daemon.line(line)
        if status != 'done':
            tag = ':comma-separated-peers' if ', peer ' in line else ''
            p = ('bad', f'line-{status}:{reason}{tag}', f'daemon side does not accept {line!r} ({reason})')
        elif not effects:
            p = ('bad', 'line-without-effect', f'{line!r} was accepted but changed no Adj-RIB-Out')
        else:
            items = []
            for role, kind, key, fields in effects:
                idx = targets.get((role, key))
                if idx is None:
                    items.append(('stray', (role, key), None, None, None))
                elif kind == 'W':
                    items.append(('W', (role, key), None, None, None))
                else:
                    cands, off = _classify(cfg, role, idx, fields)
                    items.append(('A', (role, key), cands, off, fields))
            p = ('ok', tuple(items), None)
        memo[line] = p
    return p


def judge(cfg, seq, stop=None):
    """Run one case.  -> (violations [(signature, what)], info dict)"""
    h = _harness()
    res = h.run(cfg, seq, stop)
    d = _daemon(world_of(cfg))
    memo = _P.setdefault(('plan', cfg['name']), {})
    targets = _P.get(('targets', cfg['name']))
    if targets is None:
        targets = _P[('targets', cfg['name'])] = _targets(cfg)
    viols = []
    seen_sig = set()

    def bad(sig, what):
        if sig not in seen_sig:
            seen_sig.add(sig)
            viols.append((sig, what))

    if res['error']:
        bad(f'loop-{res["ended"]}:{res["error"].split(":")[0]}', res['error'])
    if res['unterminated']:
        bad('unterminated-line', 'output does not end with a newline')
    table = dict.fromkeys(targets, hy.NONE)
    ref = hy.Hysteresis(cfg['rise'], cfg['fall'], cfg['wod'])
    blind = False  # a refused / stray / unclassifiable line makes the peer-side posture unknowable: stop judging the run there
    trace = []
    states = set()

    def apply(lines, where, may_change):
        nonlocal blind
        for line in lines:
            status, items, detail = _plan(cfg, d, targets, line, memo)
            if status == 'bad':
                bad(items, f'{where}: {detail}')
                blind = True
                continue
            for kind, target, cands, off, fields in items:
                if kind == 'stray':
                    bad('unexpected-target', f'{where}: {line!r} touches {wire.nlri_str(target[1])} on peer {target[0]}, which the configuration does not select')
                    blind = True
                    continue
                cur = table[target]
                if kind == 'W':
                    new = hy.WITHDRAWN
                elif not cands:
                    bad('wrong-attributes:' + '+'.join(off),
                        f'{where}: {line!r} reaches peer {target[0]} as {_show(fields)}: matches no state of the configuration (nearest differs in {list(off)})')
                    blind = True
                    continue
                elif cur in cands:
                    new = cur
                elif len(cands) == 1:
                    new = cands[0]
                else:  # configuration renders two states alike: take a reading the model allows, if any
                    ok_c = [c for c in cands if may_change(cur, c)[0]]
                    new = ok_c[0] if ok_c else cands[0]
                if new != cur:
                    allowed, tag = may_change(cur, new)
                    if not allowed:
                        bad(f'hysteresis:{tag}', f'{where}: {wire.nlri_str(target[1])}@{target[0]} goes {cur}->{new} by {line!r} '
                            f'(rise={cfg["rise"]} fall={cfg["fall"]} ok-run={ref.ok_run} fail-run={ref.fail_run})')
                    table[target] = new

    n_rounds = res['rounds_run']
    rounds = res['rounds']
    for t in range(n_rounds):
        ref.step(seq[t])
        if rounds[t]:
            apply(rounds[t], f'round {t + 1} ({seq[t]})', ref.may_change)
            if blind:
                break
        want, tag = ref.must_be()
        if res['partial'] and t == n_rounds - 1:
            want = None   # the stop request came inside this round: what it had written so far is judged, not what it had yet to write
        if want is not None:
            for target, p in table.items():
                if p not in want:
                    bad(f'hysteresis:{tag}', f'after round {t + 1} of {_word(seq[:t + 1])}: {wire.nlri_str(target[1])}@{target[0]} is {p}, must be in {sorted(want)} '
                        f'(rise={cfg["rise"]} fall={cfg["fall"]} ok-run={ref.ok_run} fail-run={ref.fail_run})')
                    break
        post = ''.join(sorted(set(table.values())))
        trace.append(post)
        states.add((min(ref.ok_run, 4), min(ref.fail_run, 4), seq[t], post))
    for t in range(n_rounds, len(seq)):
        if rounds[t]:
            bad('harness-lines-after-end', 'lines attributed to a round that did not run')
    if not blind:
        before = dict(table)
        apply(res['exit'], 'exit', hy.Hysteresis.exit_may_change)
        if (res['ended'] == 'interrupt' or (res['stopped'] and res['ended'] in ('exception', 'escaped', 'sysexit'))) and not blind:
            for t_, p0 in before.items():
                if table[t_] not in hy.Hysteresis.exit_must_be(p0):
                    bad('exit:not-withdrawn' + (f':{stop[0]}' if stop else ''), f'stop request ({cfg["exit"]}{", " + str(stop[0]) + " " + str(stop[1]) if stop else ""}) after {_word(seq)}: {wire.nlri_str(t_[1])}@{t_[0]} was {p0} and is {table[t_]} after the exit lines {res["exit"]}')
                    break
        elif res['ended'] == 'self' and cfg['interval'] != 0:
            bad('loop-returned-unasked', 'loop() returned without a stop request')
    info = dict(trace='.'.join(trace) + '|' + ''.join(sorted(set(table.values()))), states=states, ended=res['ended'], blind=blind,
                rounds=n_rounds, lines=sum(len(r) for r in rounds) + len(res['exit']),
                postures=len({p for p in trace if p != hy.NONE}))
    return viols, info


def _word(seq):
    return ''.join(s[0] for s in seq)


def _show(f):
    return ' '.join(f'{k}={v}' for k, v in f.items() if v not in (None, (), ''))


# ---------------------------------------------------------------------------------------------------
# enumeration
# ---------------------------------------------------------------------------------------------------
SHARDS = 8


def _alphabet(cfg):
    return (OK, FAIL, DIS) if cfg['disable'] else (OK, FAIL)


_CFGS = None


def stop_depth(tier):
    return 4 if tier == 'quick' else 6


def stop_points(cfg):
    n = len(cfg['ips'])
    pts = [('begin', 0)] + [('written', k) for k in range(n)]
    if not cfg['no_ack']:
        pts += [('readline', k) for k in range(n)]
    return pts


def _shard(args):
    global _CFGS
    tier, cfg_idx, lengths, shard = args
    if _CFGS is None:
        _CFGS = configs()
    cfg = _CFGS[cfg_idx]
    c = core.Ctx(PROPERTY, tier, 0)
    n = -1
    for length in lengths:
        for seq in itertools.product(_alphabet(cfg), repeat=length):
            n += 1
            if n % SHARDS != shard:
                continue
            viols, info = judge(cfg, seq)
            c.count('executions')
            c.count(f'executions_length_{length:02d}')
            c.count('transitions', info['rounds'])
            c.count('lines_parsed_by_daemon_side', info['lines'])
            if info['postures'] >= 2:
                c.count('nontrivial')
            if info['blind']:
                c.count('runs_blind_after_refused_line')
            c.add_to_set('outcomes', info['trace'])
            for s in info['states']:
                c.add_to_set('states', (cfg_idx,) + s)
            for sig, what in viols:
                c.violation(sig, f'[{cfg["name"]}] {_word(seq)}: {what}', {'config': cfg, 'seq': list(seq)})
            if length <= stop_depth(tier):
                # the stop request inside the last round, at every point where the helper can be found waiting or between two steps
                for stop in stop_points(cfg):
                    viols, info = judge(cfg, seq, stop)
                    c.count('executions')
                    c.count('executions_stop_inside_round')
                    c.count('transitions', info['rounds'])
                    c.add_to_set('outcomes', info['trace'] + '/' + stop[0] + str(stop[1]) + ':' + info['ended'])
                    for sig, what in viols:
                        c.violation(sig, f'[{cfg["name"]}] {_word(seq)} stop at {stop}: {what}', {'config': cfg, 'seq': list(seq), 'stop': list(stop)})
    r = c.shard_result()
    r['distinct_lines'] = sorted(set(_daemon(world_of(cfg)).memo))
    return r


def run(ctx: core.Ctx) -> None:
    hy.selftest()
    depth = int(os.environ.get('C20_DEPTH', '8' if ctx.tier == 'quick' else '11'))
    cfgs = configs()
    ctx.rule = ('every sequence over {ok, fail, disabled} of every length 1..%d (each its own run of the real loop(), ended by a stop '
                'request so the exit path runs) x %d configurations; for the sequences of length <= %d the stop request (Ctrl-C or SIGTERM, by configuration) also inside the last round: as it begins, right after each line written, and while the helper waits for the acknowledgement of each line (a handler that reads the stream its interrupted frame is reading gets the RuntimeError CPython raises); a case is non-trivial when the peers see at least two different '
                'postures (up / down / disabled / withdrawn) before the stop request' % (depth, len(cfgs), stop_depth(ctx.tier)))
    ctx.assumptions += [
        'reference hysteresis automaton vt/ref/hysteresis.py (statement clauses S1-S4, promptness P, tolerances T1-T6)',
        'reference UPDATE decoder vt/ref/wire.py',
        'loop() is entered directly with parse() options (main()\'s ip discovery, --start-ip rotation, deaggregation, privilege drop are outside)',
        'a disabled round masks the check result (the check is not consulted by the implementation in that round)',
        'daemon side = real API.process/dispatch/handlers/Configuration/OutgoingRIB/UpdateCollection on a 3-peer configuration with a stub reactor',
    ]
    lines = set()
    phases = [list(range(1, depth - 1)), [depth - 1], [depth]] if depth >= 3 else [list(range(1, depth + 1))]
    pool = mp.Pool(min(16, os.cpu_count() or 1))
    try:
        for pi, lengths in enumerate(phases):
            tasks = [(ctx.tier, ci, lengths, s) for ci in range(len(cfgs)) for s in range(SHARDS)]
            for r in pool.map(_shard, tasks, chunksize=1):
                lines.update(r.pop('distinct_lines'))
                ctx.merge(r)
            if ctx.budget_s and ctx.elapsed() > ctx.budget_s and pi + 1 < len(phases):
                ctx.cap(f'stopped after length {lengths[-1]} of {depth} (budget)')
                break
    finally:
        pool.close()
        pool.join()
    ctx.counters['states'] = ctx.set_size('states')
    ctx.coverage_extra['depth'] = depth
    ctx.coverage_extra['configurations'] = len(cfgs)
    ctx.coverage_extra['distinct_api_lines'] = len(lines)
    if ctx.counters.get('runs_blind_after_refused_line'):
        ctx.coverage_extra['not_judged'] = ('%d runs were judged only up to the first line the daemon side refuses (see known finding): the '
                                            'peer-side posture is unknowable after it, so hysteresis and exit clauses are not evaluated for '
                                            'the rest of such a run' % ctx.counters['runs_blind_after_refused_line'])
    for c in (cfgs[5], cfgs[-2]):
        seq = (OK, OK, OK, FAIL, DIS, OK)[: max(1, min(6, depth))]
        res = _harness().run(c, seq)
        ctx.sample({'config': c['name'], 'argv': argv_of(c), 'seq': _word(seq), 'rounds': res['rounds'], 'exit': res['exit']})


def replay(case):
    hy.selftest()
    viols, _info = judge(case['config'], tuple(case['seq']), tuple(case['stop']) if case.get('stop') else None)
    return [{'signature': s, 'what': w} for s, w in viols]
