"""C06 - Message framing is independent of how TCP delivers the bytes.   E-in x E-dev.

Part A (component): every stream of <=2 (thorough 3) messages from the alphabet x every segmentation with
<=2 (3) cuts, all uniform chunk sizes 1..32, and coalesced, is fed to the real Connection.reader_async()
(and its generator twin reader()) on an in-memory socket under the virtual loop; Protocol.read_message()
provides the error mapping.  Oracle: vt/ref/wire.split_stream.
Part B (session): the same kind of streams are fed, segment by segment with a delay of 0 or 0.15 s between
segments, to an ESTABLISHED Peer._main in the full virtual world (where reads are wrapped in wait_for(0.1)).
"""

from __future__ import annotations

import itertools
import multiprocessing as mp
import os

from vt import core
from vt.ref import wire
from vt.world import EPOCH, FakeSocket, LoopOnly, World, edev
from vt.checks import c05, c12

PROPERTY = 'C06'


def alphabet(max_size):
    upd23 = wire.frame(wire.UPDATE, bytes(4))
    upd60 = wire.frame(wire.UPDATE, edev.upd_announce(('192.0.2.0', 24)) + bytes([24, 10, 1, 1]) * 2)
    a = {
        'KA': wire.frame(wire.KEEPALIVE, b''),
        'UPD23': upd23,
        'UPD60': upd60,
        'OPEN': wire.frame(wire.OPEN, wire.encode_open(65002, 9, '9.9.9.9', [wire.cap_mp(1, 1)])),
        'NOTIF': wire.frame(wire.NOTIFICATION, wire.encode_notification(6, 2)),
        'RR': wire.frame(wire.ROUTE_REFRESH, wire.encode_route_refresh(1, 1)),
        'UPDMAX': wire.frame(wire.UPDATE, _max_withdraw(max_size - 19 - 4)),
        # header faults
        'LEN18': wire.MARKER + (18).to_bytes(2, 'big') + b'\x04',
        'LEN0': wire.MARKER + (0).to_bytes(2, 'big') + b'\x02',
        'LENMAX+1': wire.MARKER + (max_size + 1).to_bytes(2, 'big') + b'\x02' + bytes(40) if max_size < 65535 else wire.MARKER + (65535).to_bytes(2, 'big') + b'\x04',
        'KA20': wire.MARKER + (20).to_bytes(2, 'big') + b'\x04' + b'\x00',
        'UPD22': wire.MARKER + (22).to_bytes(2, 'big') + b'\x02' + bytes(3),
        'OPEN28': wire.MARKER + (28).to_bytes(2, 'big') + b'\x01' + bytes(9),
        'NOTIF20': wire.MARKER + (20).to_bytes(2, 'big') + b'\x03' + bytes(1),
        # a bare header (19 octets, the KEEPALIVE size) under a type that needs a body
        'NOTIF19': wire.MARKER + (19).to_bytes(2, 'big') + b'\x03',
        'UPD19': wire.MARKER + (19).to_bytes(2, 'big') + b'\x02',
        'RR19': wire.MARKER + (19).to_bytes(2, 'big') + b'\x05',
        'TYPE0': wire.frame(0, b''),
        'TYPE7': wire.frame(7, b'\x00'),
        'TYPE255': wire.frame(255, b'ab'),
    }
    for pos in (0, 7, 15):
        m = bytearray(wire.frame(wire.KEEPALIVE, b''))
        m[pos] = 0xFE
        a[f'MARK{pos}'] = bytes(m)
    return a


def _max_withdraw(w: int) -> bytes:
    """A valid UPDATE body of exactly w+4 bytes: w bytes of withdrawn /32 and /24 IPv4 prefixes."""
    b = 0
    while (w - 4 * b) % 5:
        b += 1
    a = (w - 4 * b) // 5
    wd = b''.join(bytes([32, 10, (i >> 16) & 255, (i >> 8) & 255, i & 255]) for i in range(a))
    wd += b''.join(bytes([24, 11, (i >> 8) & 255, i & 255]) for i in range(b))
    assert len(wd) == w
    return w.to_bytes(2, 'big') + wd + bytes(2)


VALID = ('KA', 'UPD23', 'UPD60', 'OPEN', 'NOTIF', 'RR', 'UPDMAX')


def reference(stream: bytes, max_size: int):
    """Expected successive results: [('msg', type, body)...] then optional ('err', code, subcode)."""
    out = []
    msgs, err, rest = wire.split_stream(stream, max_size)
    for t, b in msgs:
        if t not in (1, 2, 3, 4, 5):
            # the framer hands unknown types to the protocol layer, which must refuse them with 1/3
            out.append(('err', 1, 3))
            return out, True
        out.append(('msg', t, bytes(b)))
    if err is not None:
        out.append(('err', err[0], err[1]))
        return out, True
    return out, False


def segmentations(n: int, cuts: int):
    """All ways to cut a stream of n bytes at <= cuts positions (as tuples of cut offsets)."""
    yield ()
    for k in range(1, cuts + 1):
        for c in itertools.combinations(range(1, n), k):
            yield c


def interesting_offsets(stream_parts):
    """Cut positions that matter: every byte inside each header (19 bytes) and the first/last body bytes of each message."""
    offs = set()
    base = 0
    for part in stream_parts:
        for i in range(0, min(len(part), 21)):
            offs.add(base + i)
        offs.add(base + len(part) - 1)
        offs.add(base + len(part))
        base += len(part)
    total = base
    return sorted(o for o in offs if 0 < o < total)


def feed_async(stream: bytes, cuts, max_size: int, use_protocol: bool):
    """Drive the real reader on a fake socket; return list of results in reference form."""
    from exabgp.protocol.family import AFI
    from exabgp.reactor.network.incoming import Incoming

    res = []
    with LoopOnly() as lw:
        sock = FakeSocket(lw, 'in')
        conn = Incoming(AFI.ipv4, '127.0.0.2', '127.0.0.1', sock)
        conn.msg_size = max_size
        bounds = [0] + list(cuts) + [len(stream)]
        segs = [stream[a:b] for a, b in zip(bounds, bounds[1:])]

        async def pump():
            while True:
                length, mtype, header, body, err = await conn.reader_async()
                if err is not None:
                    res.append(('err', err.code, err.subcode))
                    return
                res.append(('msg', mtype, bytes(body)))

        task = lw.loop.create_task(pump())
        lw.run_until_blocked(task)
        for seg in segs:
            sock.feed(seg)
            lw.run_until_blocked(task)
        if task.done() and task.exception() is not None:
            res.append(('exc', type(task.exception()).__name__, str(task.exception())[:80]))
    return res


def feed_generator(stream: bytes, cuts, max_size: int):
    from exabgp.protocol.family import AFI
    from exabgp.reactor.network.incoming import Incoming

    res = []
    with LoopOnly() as lw:
        sock = FakeSocket(lw, 'in')
        conn = Incoming(AFI.ipv4, '127.0.0.2', '127.0.0.1', sock)
        conn.msg_size = max_size
        bounds = [0] + list(cuts) + [len(stream)]
        segs = [stream[a:b] for a, b in zip(bounds, bounds[1:])]
        gen = None
        stopped = False

        def spin():
            nonlocal gen, stopped
            for _ in range(200000):
                if stopped:
                    return
                if gen is None:
                    gen = conn.reader()
                try:
                    length, mtype, header, body, err = next(gen)
                except StopIteration:
                    gen = None
                    continue
                except Exception as e:  # noqa: BLE001
                    res.append(('exc', type(e).__name__, str(e)[:80]))
                    stopped = True
                    return
                if err is not None:
                    res.append(('err', err.code, err.subcode))
                    stopped = True
                    return
                if not length and not mtype and not len(header):
                    if not sock.rx:
                        return  # would block
                    continue
                if len(header) == 19:
                    res.append(('msg', mtype, bytes(body)))
                    gen = None
            raise core.HarnessError('generator reader did not block')

        spin()
        for seg in segs:
            sock.feed(seg)
            spin()
    return res


CORE = ('KA', 'UPD60', 'NOTIF', 'LEN18', 'LENMAX+1', 'NOTIF19', 'TYPE7', 'MARK7')


def case_streams(max_size, nmsgs, core=False, exactly=None):
    a = alphabet(max_size)
    names = [x for x in a if not core or x in CORE]
    for n in (range(1, nmsgs + 1) if exactly is None else (exactly,)):
        for combo in itertools.product(names, repeat=n):
            # anything after the first faulty element is only there to check nothing after it is interpreted:
            # keep streams whose faults (if any) come last or second to last
            bad = [i for i, c in enumerate(combo) if c not in VALID]
            if bad and bad[0] < n - 2:
                continue
            if sum(1 for c in combo if c == 'UPDMAX') > 1:
                continue
            yield combo, [a[c] for c in combo]


def part_a_worker(args):
    max_size, nmsgs, cuts, shard, nshards = args[:5]
    core, exactly = (args[5], args[6]) if len(args) > 5 else (False, None)
    out = {'exec': 0, 'viol': [], 'outcomes': set(), 'nontrivial': 0, 'samples': []}
    for idx, (combo, parts) in enumerate(case_streams(max_size, nmsgs, core, exactly)):
        if idx % nshards != shard:
            continue
        stream = b''.join(parts)
        expected, ends = reference(stream, max_size)
        offs = interesting_offsets(parts)
        segsets = [()]
        for k in range(1, cuts + 1):
            segsets += list(itertools.combinations(offs, k))
        # uniform chunking 1..32 (bounded by a cap on stream size for the 1-byte case)
        for size in range(1, 33):
            if len(stream) // size <= 200:
                segsets.append(tuple(range(size, len(stream), size)))
        for c in segsets:
            for mode in ('async', 'gen'):
                got = feed_async(stream, c, max_size, False) if mode == 'async' else feed_generator(stream, c, max_size)
                out['exec'] += 1
                exp = [e for e in expected]
                # unknown type: the reader itself returns it as a message; the 1/3 mapping is checked in part B/C
                exp_reader = []
                for e in reference_reader(stream, max_size):
                    exp_reader.append(e)
                if got != exp_reader:
                    out['viol'].append((mode, combo, c, max_size, _short(exp_reader), _short(got)))
                out['outcomes'].add((combo, tuple(x[:2] if x[0] == 'msg' else x for x in got)))
                if c:
                    out['nontrivial'] += 1
        if len(out['samples']) < 2:
            out['samples'].append({'stream': list(combo), 'max_size': max_size, 'segmentations': len(segsets)})
    out['outcomes'] = len(out['outcomes'])
    return out


def reference_reader(stream, max_size):
    """What Connection.reader*() must return: unknown types are still framed (their refusal is read_message's job)."""
    out = []
    msgs, err, rest = wire.split_stream(stream, max_size)
    for t, b in msgs:
        out.append(('msg', t, bytes(b)))
    if err is not None:
        out.append(('err', err[0], err[1]))
    return out


def _short(res):
    return [(r[0], r[1], (len(r[2]) if isinstance(r[2], (bytes, bytearray)) else r[2])) for r in res]


# ------------------------------------------------------------------------------------------------
# part B: ESTABLISHED session, segments with delays
# ------------------------------------------------------------------------------------------------
SESSION_STREAMS = {
    'KA': ['KA'],
    'UPD60': ['UPD60'],
    'KA+UPD60': ['KA', 'UPD60'],
    'UPD60+KA': ['UPD60', 'KA'],
    'UPD60+MARK7': ['UPD60', 'MARK7'],
    'KA+LEN18': ['KA', 'LEN18'],
    'KA+TYPE7': ['KA', 'TYPE7'],
    'KA+TYPE0': ['KA', 'TYPE0'],
    'KA+UPD22': ['KA', 'UPD22'],
    'KA+LENMAX+1': ['KA', 'LENMAX+1'],
    'UPDMAX+KA': ['UPDMAX', 'KA'],
}


def session_worker(args):
    name, cuts, delays, ext = args[:4]
    mirror = len(args) > 4 and args[4]  # 'local-as auto': our OPEN is sent after the peer's
    # ext: True (both sides), False (ours by default, not the peer), 'ours' (asked for here, not by the peer),
    # 'theirs' (disabled here, advertised by the peer): RFC 8654 - 65535 only when both advertised it
    max_size = 65535 if ext is True else 4096
    a = alphabet(max_size)
    parts = [a[n] for n in SESSION_STREAMS[name]]
    stream = b''.join(parts)
    caps = {True: 'extended-message enable;', False: '', 'ours': 'extended-message enable;', 'theirs': 'extended-message disable;'}[ext]
    cfg = edev.base_config(hold=30, caps=caps, apiopts='receive { parsed; update; }')
    if mirror:
        cfg = cfg.replace('local-as 65001;', 'local-as auto;')
    with World(cfg) as w:
        env = c05.Env(w, hold=30, script=[], config_name='active', remote_opts={'ext_msg': ext in (True, 'theirs')})
        if mirror:
            for i in range(6):
                env.step = i
                a = env.default_action()
                if a == 'time' and env.fsm() == 'CONNECT':
                    a = f'open:{env.current().index}'  # the peer speaks first
                    env.do(a)
                    break
                env.do(a)
        c12.establish(w, env)
        w.advance(0.35)
        s = env.current()
        n0 = len(s.tx)
        api0 = len(w.api_output())
        bounds = [0] + list(cuts) + [len(stream)]
        segs = [stream[x:y] for x, y in zip(bounds, bounds[1:])]
        for i, seg in enumerate(segs):
            s.feed(seg)
            w.settle()
            d = delays[i] if i < len(delays) else 0
            if d:
                w.advance(d)
        w.advance(0.5)
        sm = edev.summarize(w, env)
        api = w.api_output()[api0:].decode('ascii', 'replace')
    sock = [x for x in sm['sockets'] if x['index'] == s.index][0]
    notifs = [(int(m[3][:2], 16), int(m[3][2:4], 16)) for m in sock['tx'][n0:] if m[2] == wire.NOTIFICATION]
    # what the protocol layer was handed: count API 'update' / 'keepalive' events is not enabled; use peer stats instead
    expected, ends = reference(stream, max_size)
    viols = []
    exp_err = [(e[1], e[2]) for e in expected if e[0] == 'err']
    if exp_err:
        if not notifs:
            viols.append((f'header-fault-not-notified:{exp_err[0][0]}/{exp_err[0][1]}', f'stream {name}{" (local-as auto)" if mirror else ""} cuts {cuts} delays {delays}: expected NOTIFICATION {exp_err[0]}, none sent (closed={sock["closed"]})'))
        elif notifs[0] != exp_err[0]:
            viols.append((f'header-fault-wrong-code:{exp_err[0][0]}/{exp_err[0][1]}->{notifs[0][0]}/{notifs[0][1]}', f'stream {name}{" (local-as auto)" if mirror else ""} cuts {cuts} delays {delays}: expected NOTIFICATION {exp_err[0]}, got {notifs[0]}'))
    else:
        if notifs or sock['closed']:
            viols.append((f'valid-stream-reset:{"mirror-as:" if mirror else ""}{"delayed" if any(delays) else "nodelay"}:{notifs[0] if notifs else "closed"}', f'stream {name} (all valid) cuts {cuts} delays {delays}: session reset with {notifs} closed={sock["closed"]}'))
    # messages handed over: receive counters in peer stats are exposed through summarize? use API events
    nmsg_expected = sum(1 for e in expected if e[0] == 'msg' and e[1] == wire.UPDATE)
    got_updates = api.count('"type": "update"')
    if got_updates != nmsg_expected and not viols:
        viols.append((f'update-count:{nmsg_expected}->{got_updates}', f'stream {name}{" (local-as auto)" if mirror else ""} cuts {cuts} delays {delays}: {nmsg_expected} UPDATEs in the stream, {got_updates} delivered to the API'))
    return viols, (name, tuple(notifs), sock['closed'], got_updates)


def run(ctx: core.Ctx) -> None:
    thorough = ctx.tier != 'quick'
    nmsgs = 2
    cuts = 2
    ctx.rule = (f'A: every stream of <= {nmsgs} messages over a {len(alphabet(4096))}-message alphabet (7 valid, 16 header faults) x every segmentation with <= {cuts} cuts at header/body-boundary offsets ' + ('(thorough: also <= 4 cuts for single messages, <= 3 cuts for pairs and <= 1 cut for triples over an 8-message core alphabet) ' if thorough else '') +
                f'+ uniform chunks 1..32 + coalesced, max size 4096 and 65535, through reader_async() and reader(); B: {len(SESSION_STREAMS)} streams x <= {2 if not thorough else 3} cuts x delay vectors over {{0, 0.15 s}} into an ESTABLISHED session (extended messages on both sides, on neither, and on one side only; our OPEN first or second); '
                'non-trivial = segmented (at least one cut)')
    ctx.assumptions += ['reference framer vt/ref/wire.split_stream', 'a read returns at most one queued segment']
    pool = mp.Pool(min(16, os.cpu_count() or 1))
    try:
        nshards = 64
        jobs = []
        for max_size in (4096, 65535):
            for sh in range(nshards):
                jobs.append((max_size, nmsgs, cuts, sh, nshards))
                if thorough and max_size == 4096:
                    jobs.append((max_size, 1, 4, sh, nshards, False, 1))      # single messages, <= 4 cuts
                    jobs.append((max_size, 2, 3, sh, nshards, True, 2))       # pairs over the core alphabet, <= 3 cuts
                    jobs.append((max_size, 3, 1, sh, nshards, True, 3))       # triples over the core alphabet, <= 1 cut
        for out in pool.imap_unordered(part_a_worker, jobs):
            ctx.count('executions', out['exec'])
            ctx.count('transitions', out['exec'])
            ctx.count('nontrivial', out['nontrivial'])
            ctx.count('states', out['outcomes'])
            for s in out['samples']:
                ctx.sample(s)
            for mode, combo, c, max_size, exp, got in out['viol']:
                sig = f'reader-{mode}:{classify_a(exp, got)}'
                ctx.violation(sig, f'{mode} reader, stream {combo} cuts {c} max {max_size}: expected {exp} got {got}', {'part': 'A', 'mode': mode, 'combo': list(combo), 'cuts': list(c), 'max_size': max_size})
        # part B
        bjobs = []
        a = alphabet(4096)
        for name, parts in SESSION_STREAMS.items():
            for ext in (False, True):
                quick_big = name.startswith('UPDMAX') and not thorough and ext  # only unsegmented in the quick tier
                ps = [alphabet(65535 if ext else 4096)[n] for n in parts]
                offs_all = interesting_offsets(ps)
                offs_few = [o for o in offs_all if o in (1, 16, 18, 19, 20) or o >= len(ps[0]) - 1][:14]
                ncuts = 2 if not thorough else 3
                for k in range(0, (0 if quick_big else ncuts) + 1):
                    # thorough: every pair of cut positions, and triples over the reduced set of positions the quick tier uses
                    offs = offs_all if thorough and k <= 2 else offs_few
                    for c in itertools.combinations(offs, k):
                        for delays in itertools.product((0, 0.15), repeat=k):
                            bjobs.append((name, c, delays, ext, False))
                            if k <= 1 and not any(delays):
                                bjobs.append((name, c, delays, ext, True))
        # extended messages advertised by one side only: the limit stays 4096
        for name in ('KA+LENMAX+1', 'UPDMAX+KA', 'KA+UPD60'):
            ps = [a[n] for n in SESSION_STREAMS[name]]
            for ext in ('ours', 'theirs'):
                for mirror in (False, True):
                    bjobs.append((name, (), (), ext, mirror))
                    for o in (19, len(ps[0]) + 1):
                        bjobs.append((name, (o,), (0,), ext, mirror))
        bres = pool.map(session_worker, bjobs, chunksize=8)
        core.replay_check(ctx, pool, session_worker, bjobs, bres, stride=64)
        for (viols, outcome), job in zip(bres, bjobs):
            ctx.count('executions')
            ctx.count('transitions', len(job[1]) + 1)
            ctx.add_to_set('session_outcomes', outcome)
            if job[1]:
                ctx.count('nontrivial')
            for sig, what in viols:
                ctx.violation(sig, what, {'part': 'B', 'name': job[0], 'cuts': list(job[1]), 'delays': list(job[2]), 'ext': job[3], 'mirror': job[4]})
        ctx.coverage_extra['session_runs'] = len(bjobs)
    finally:
        pool.close()
        pool.join()


def classify_a(exp, got):
    if any(g[0] == 'exc' for g in got):
        return 'exception:' + [g[1] for g in got if g[0] == 'exc'][0]
    if len(got) < len(exp):
        return 'lost-or-stalled'
    if len(got) > len(exp):
        return 'extra-after-fault'
    for e, g in zip(exp, got):
        if e != g:
            return f'mismatch:{e[0]}:{e[1]}->{g[0]}:{g[1]}'
    return 'other'


def replay(case):
    if case['part'] == 'A':
        a = alphabet(case['max_size'])
        stream = b''.join(a[c] for c in case['combo'])
        exp = reference_reader(stream, case['max_size'])
        got = feed_async(stream, case['cuts'], case['max_size'], False) if case['mode'] == 'async' else feed_generator(stream, case['cuts'], case['max_size'])
        if got != exp:
            return [{'signature': f'reader-{case["mode"]}:{classify_a(_short(exp), _short(got))}', 'what': f'expected {_short(exp)} got {_short(got)}'}]
        return []
    viols, outcome = session_worker((case['name'], tuple(case['cuts']), tuple(case['delays']), case['ext'], case.get('mirror', False)))
    return [{'signature': s, 'what': w} for s, w in viols]
