"""C11 - After any session loss the peer is fully resynchronised.   E-dev crash points x E-seq histories.

Full virtual world.  Session 1 is cut at every possible point (during establishment, after each emitted
message of the initial batch, after the batch), RIB operations arrive as real API lines before the cut, while
down, or right at re-establishment; the messages of session 2 are applied to an empty reference peer table.
"""

from __future__ import annotations

import itertools
import multiprocessing as mp
import os

from vt import core
from vt.ref import wire as w
from vt.world import EPOCH, World, edev
from vt.checks import c05

PROPERTY = 'C11'


def filler(n):
    return ' '.join(f'route 10.200.{i}.0/24 next-hop 1.1.1.1;' for i in range(n))


OPS = {
    'annAy': (b'peer * announce route 10.0.0.0/24 next-hop 1.1.1.1 med 20\n', ('set', (1, 1, '10.0.0.0', 24), ('1.1.1.1', 20))),
    'annAz': (b'peer * announce route 10.0.0.0/24 next-hop 1.1.1.1 med 30\n', ('set', (1, 1, '10.0.0.0', 24), ('1.1.1.1', 30))),
    'annD': (b'peer * announce route 10.9.0.0/24 next-hop 2.2.2.2 med 5\n', ('set', (1, 1, '10.9.0.0', 24), ('2.2.2.2', 5))),
    'wdrD': (b'peer * withdraw route 10.9.0.0/24\n', ('del', (1, 1, '10.9.0.0', 24), None)),
    'wdrA': (b'peer * withdraw route 10.0.0.0/24\n', ('del', (1, 1, '10.0.0.0', 24), None)),
    'annD6': (b'peer * announce route 2001:db8:9::/48 next-hop 2001:db8::9\n', ('set', (2, 1, '2001:db8:9::', 48), ('2001:db8::9', None))),
    'wdrB6': (b'peer * withdraw route 2001:db8::/48\n', ('del', (2, 1, '2001:db8::', 48), None)),
    # "send everything again" (what a received ROUTE-REFRESH does too) changes nothing in what is intended ...
    'flush': (b'rib flush out\n', ('none', None, None)),
    # ... and "withdraw everything" empties it
    'clear': (b'rib clear out\n', ('clear', None, None)),
}
PHASES = ('up1', 'down', 'down2', 'up2')


def key(fam):
    afi, safi, a, m = fam
    return w.nlri_key(w.nlri_ip(afi, safi, a, m))


def intended(nfill, history, keep):
    t = {key((1, 1, '10.0.0.0', 24)): ('1.1.1.1', None), key((2, 1, '2001:db8::', 48)): ('2001:db8::1', None)}
    for i in range(nfill):
        t[key((1, 1, f'10.200.{i}.0', 24))] = ('1.1.1.1', None)
    configured = dict(t)
    for phase, op in history:
        kind, fam, val = OPS[op][1]
        if kind == 'set':
            t[key(fam)] = val
        elif kind == 'clear':
            t.clear()
        elif kind == 'del':
            t.pop(key(fam), None)
    return t, configured


def run_one(args):
    nfill, keep, cut, history = args[:4]
    cut2 = args[4] if len(args) > 4 else None
    grouped = keep == 'grouped'   # adj-rib-out kept, routes with equal attributes share an UPDATE
    keep = bool(keep)
    cfg = edev.base_config(hold=30, routes=filler(nfill), extra=(('group-updates true;' if grouped else 'group-updates false;') + ('' if keep else ' adj-rib-out false;')))
    if not keep:
        # `route-refresh enable` makes the parser keep the Adj-RIB-Out whatever `adj-rib-out` says: without the capability the option is in force
        cfg = cfg.replace('route-refresh enable;', 'route-refresh disable;')
    viols = []
    with World(cfg) as wd:
        wd.settle()
        kept = {bool(n.rib.outgoing.cache) for n in wd.cfg.neighbors.values()}
        if kept != {keep}:
            raise core.HarnessError(f'adj-rib-out {"kept" if keep else "off"} asked for, the RIB of the neighbor says cache={kept}')
        env = c05.Env(wd, hold=30, script=[], config_name='active')
        # --- session 1, with the cut armed
        first = None
        cut_kind, cut_n = cut
        done_ops = []

        def do_ops(phase):
            for ph, op in history:
                if ph == phase:
                    wd.api_write(OPS[op][0])
                    wd.settle()
                    done_ops.append((ph, op))

        for i in range(14):
            env.step = i
            a = env.default_action()
            if a.startswith('connect-ok') and first is None:
                first = wd.sockets[int(a.split(':')[1])]
                if cut_kind == 'tx':
                    first.cut_after_tx = cut_n
            if a == 'time' and env.fsm() == 'ESTABLISHED':
                break
            if a == 'time' and first is not None and first.closed:
                break
            env.do(a)
        if first is None:
            raise core.HarnessError('no first connection')
        if not first.closed:
            wd.advance(0.35)
            do_ops('up1')
            wd.advance(0.35)
        if not first.closed:
            if cut_kind == 'eof':
                first.feed('EOF')
            elif cut_kind == 'rst':
                import errno
                first.feed(OSError(errno.ECONNRESET, 'reset'))
            elif cut_kind == 'tx':
                # the write budget was not reached during establishment/batch: force the loss now
                first.cut_after_tx = 0
                first.feed('EOF')
            wd.settle()
            wd.advance(0.2)
        if not first.closed:
            viols.append(('session-not-lost', 'the first connection was cut but ExaBGP never closed it'))
        do_ops('down')
        if cut2 is not None:
            # a second attempt which fails during establishment (write budget cut2), then more operations while down
            failed = None
            for i in range(30):
                env.step = 100 + i
                a = env.default_action()
                if a.startswith('connect-ok') and failed is None:
                    s2 = wd.sockets[int(a.split(':')[1])]
                    if s2 is not first:
                        failed = s2
                        failed.cut_after_tx = cut2[1]
                if failed is not None and failed.closed:
                    break
                if a == 'time' and env.fsm() == 'ESTABLISHED':
                    break
                env.do(a)
            if failed is not None and not failed.closed:
                failed.cut_after_tx = 0
                failed.feed('EOF')
                wd.settle()
                wd.advance(0.2)
            do_ops('down2')
            first_sockets = {first.index, failed.index if failed is not None else -1}
        else:
            first_sockets = {first.index}
        # --- the session that is observed
        second = None
        for i in range(40):
            env.step = 20 + i
            a = env.default_action()
            if a.startswith('connect-ok'):
                s2 = wd.sockets[int(a.split(':')[1])]
                if s2.index not in first_sockets and second is None:
                    second = s2
            if a == 'time' and env.fsm() == 'ESTABLISHED':
                break
            if a.startswith('keepalive') and second is not None:
                # operations arriving at the very moment the session comes up
                env.do(a)
                do_ops('up2')
                continue
            env.do(a)
        if second is None or env.fsm() != 'ESTABLISHED':
            return [('no-second-session', f'ExaBGP did not re-establish after the loss (fsm {env.fsm()})')], ('none',), 0
        wd.advance(1.5)
        do_ops('up2') if not any(p == 'up2' for p, _ in history) else None
        wd.advance(1.0)
        sm = edev.summarize(wd, env)
    sock = [x for x in sm['sockets'] if x['index'] == second.index][0]
    table = w.PeerTable(asn4=True)
    eors = []
    at_last_eor = None
    fams_needed = {(1, 1), (2, 1)}
    nmsg = 0
    for t, st, mtype, body in sock['tx']:
        if mtype != w.UPDATE:
            continue
        nmsg += 1
        b = bytes.fromhex(body)
        e = w.is_eor(b)
        if e is not None:
            eors.append(e)
            if set(eors) >= fams_needed and at_last_eor is None:
                at_last_eor = {k: (v[0], dict(v[1]).get(w.MED)) for k, v in table.table.items()}
            continue
        try:
            table.apply_update(b)
        except w.RefError as ex:
            viols.append((f'undecodable:{ex.code}/{ex.subcode}', f'session 2 message does not decode: {ex}'))
    final = {k: (v[0], dict(v[1]).get(w.MED)) for k, v in table.table.items()}
    history = tuple(done_ops)  # operations that could not be issued (the first session never came up) do not count
    want, configured = intended(nfill, history, keep)
    # operations that arrive while the initial batch is being sent may legitimately land after the EORs:
    # the table is judged at quiescence; the EOR clause is judged on the configured routes
    def diff(got, exp, what):
        out = []
        for k in sorted(set(got) | set(exp)):
            g, e = got.get(k), exp.get(k)
            if e is not None and g is None:
                out.append((f'{what}:missing', f'{k} expected {e} but the peer does not have it'))
            elif e is None and g is not None:
                out.append((f'{what}:stale', f'{k} is at the peer ({g}) but is not intended'))
            elif g is not None and e is not None and (g[0] != e[0] or (e[1] is not None and g[1] != e[1])):
                out.append((f'{what}:wrong-value', f'{k}: peer has {g}, intended {e}'))
        return out

    if keep:
        viols += diff(final, want, 'table')
    else:
        # without adj-rib-out, API routes are not kept: only the configured routes are promised, minus later withdraws
        exp = {k: v for k, v in want.items() if k in configured}
        got = {k: v for k, v in final.items() if k in configured or k not in want}
        # ... and nothing remembers what the API did to a configured route (withdrawn, other attributes, cleared): such a route as the API left
        # it or as the configuration has it are both readings of "the configured routes"
        for k, v in configured.items():
            if want.get(k) != v and final.get(k) is not None and final[k][0] == v[0] and (v[1] is None or final[k][1] == v[1]):
                exp[k] = v
        viols += diff(got, exp, 'table-norib')
    # EOR: exactly one per negotiated family, after the routes of the initial batch
    for fam in fams_needed:
        c = eors.count(fam)
        if c != 1:
            viols.append((f'eor-count:{fam[0]}/{fam[1]}:{c}', f'{c} End-of-RIB markers for {fam} on the new session (all: {eors})'))
    extra = [e for e in eors if e not in fams_needed]
    if extra:
        viols.append((f'eor-foreign:{extra[0][0]}/{extra[0][1]}', f'End-of-RIB for a family that was not negotiated: {extra}'))
    if at_last_eor is not None:
        # every route that was intended when the session came up and is still intended must be there before the last EOR
        base_hist = [(p, o) for p, o in history if p != 'up2']
        base, _ = intended(nfill, base_hist, keep)
        if not keep:
            base = {k: v for k, v in base.items() if k in configured}
        still = {k: v for k, v in base.items() if k in want and want[k] == v}
        miss = [k for k in still if k not in at_last_eor]
        if miss:
            viols.append(('eor-before-routes', f'End-of-RIB received before {len(miss)} route(s) of the initial table, e.g. {miss[0]}'))
    seen = set()
    out = []
    for sig, what in viols:
        if sig not in seen:
            seen.add(sig)
            out.append((sig, what))
    if not keep:
        out = [(sg + ':norib', wh) for sg, wh in out]   # (the runs without adj-rib-out)
    return out, (len(final), tuple(sorted(set(eors))), nmsg), nmsg


def cuts(nfill):
    out = [('eof', 0), ('rst', 0)]
    # a write budget of k: OPEN is write 1, KEEPALIVE write 2, then the batch
    for k in range(0, nfill + 2 + 2 + 4):
        out.append(('tx', k))
    return out


def histories(maxlen):
    yield ()
    items = [(p, o) for p in PHASES for o in OPS]
    for n in range(1, maxlen + 1):
        for h in itertools.product(items, repeat=n):
            # phases must be in order
            if [PHASES.index(p) for p, _ in h] != sorted(PHASES.index(p) for p, _ in h):
                continue
            yield h


def plan(tier):
    jobs = []
    if tier == 'quick':
        for nfill in (0, 23, 24):   # batch of 2, 25 and 26 routes (+ EORs)
            for keep in (True, False, 'grouped'):
                for cut in cuts(nfill):
                    jobs.append((nfill, keep, cut, ()))
        for h in histories(2):
            if not h or any(p == 'down2' for p, _ in h):
                continue
            for cut in (('eof', 0), ('rst', 0), ('tx', 0), ('tx', 1), ('tx', 2), ('tx', 3), ('tx', 4)):
                jobs.append((0, True, cut, h))
            jobs.append((0, 'grouped', ('tx', 3), h))
        for h in histories(1):
            if h and h[0][0] != 'down2':
                jobs.append((0, False, ('eof', 0), h))
        # two losses in a row with operations in between: every phase-ordered sequence of 3 operations on prefix A / D
        ops3 = ['annAy', 'annAz', 'wdrA', 'annD', 'wdrD']
        for ops in itertools.product(ops3, repeat=3):
            for phases in (('down', 'down', 'down2'), ('down', 'down2', 'down2'), ('down', 'down', 'down'), ('down2', 'down2', 'down2')):
                jobs.append((0, True, ('eof', 0), tuple(zip(phases, ops)), ('tx', 1)))
            # the second session is lost in the middle of its own initial batch (OPEN, KEEPALIVE, two UPDATEs written)
            jobs.append((0, True, ('eof', 0), tuple(zip(('down', 'down', 'down2'), ops)), ('tx', 4)))
    else:
        for nfill in (0, 22, 23, 24, 49):
            for keep in (True, False, 'grouped'):
                for cut in cuts(nfill):
                    for h in histories(1):
                        if not any(p == 'down2' for p, _ in h):
                            jobs.append((nfill, keep, cut, h))
        for h in histories(3):
            if len(h) >= 2 and not any(p == 'down2' for p, _ in h):
                for cut in (('eof', 0), ('tx', 3), ('tx', 1), ('rst', 0)):
                    jobs.append((0, True, cut, h))
        for h in histories(3):
            if len(h) == 3 and all(p in ('down', 'down2') for p, _ in h):
                for cut2 in (('tx', 1), ('tx', 2), ('tx', 0), ('tx', 3), ('tx', 4)):
                    jobs.append((0, True, ('eof', 0), h, cut2))
    return jobs


def run(ctx: core.Ctx) -> None:
    jobs = plan(ctx.tier)
    ctx.rule = ('crash points: EOF, RST, and a write budget of k messages for every k from 0 to past the end of the initial batch (batches of 2, 25, 26 messages; thorough also 24, 51), adj-rib-out kept (with and without group-updates) or not; '
                'histories: every phase-ordered sequence of <= 2 (thorough 3) API operations {re-announce configured prefix with new attributes, announce/withdraw an API prefix (v4, v6), withdraw a configured prefix} '
                'placed before the cut / while down / at re-establishment; non-trivial = distinct (final table size, EOR set, message count) outcome')
    ctx.assumptions += ['reference peer table vt/ref/wire.PeerTable', 'a lost connection = EOF/RST on read or every further write failing']
    pool = mp.Pool(min(16, os.cpu_count() or 1))
    try:
        results = pool.map(run_one, jobs, chunksize=4)
        core.replay_check(ctx, pool, run_one, jobs, results)
        for job, (viols, outcome, nmsg) in zip(jobs, results):
            ctx.count('executions')
            ctx.count('transitions', nmsg + 1)
            ctx.add_to_set('outcomes', outcome)
            for sig, what in viols:
                nfill, keep, cut, hist = job[:4]
                ctx.violation(sig, f'[batch {nfill + 2}, adj-rib-out {keep}, cut {cut}, second failed attempt {job[4] if len(job) > 4 else None}, history {hist}] {what}', {'nfill': nfill, 'keep': keep, 'cut': list(cut), 'history': [list(x) for x in hist], 'cut2': list(job[4]) if len(job) > 4 else None})
            if len(ctx.samples) < 4 and job[3]:
                ctx.sample({'batch': job[0] + 2, 'adj_rib_out': job[1], 'cut': list(job[2]), 'history': [list(x) for x in job[3]], 'outcome': str(outcome)})
        ctx.counters['states'] = ctx.set_size('outcomes')
        ctx.counters['nontrivial'] = ctx.set_size('outcomes')
    finally:
        pool.close()
        pool.join()


def replay(case):
    args = (case['nfill'], case['keep'], tuple(case['cut']), tuple(tuple(x) for x in case['history']))
    if case.get('cut2'):
        args = args + (tuple(case['cut2']),)
    viols, outcome, n = run_one(args)
    return [{'signature': s, 'what': wh} for s, wh in viols]

