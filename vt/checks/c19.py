"""C19 - Decoding does not depend on what was decoded before.   E-seq, differential.

Several real Negotiated objects (sessions with different negotiated parameters) live in one
process, as the reactor has them.  A *letter* is (session, message).  Every sequence of letters
up to a length bound is executed from a reset process state through the real receive path
(Message.unpack -> JSON and text API encoders -> UpdateHandler on the session's Adj-RIB-In);
the observation made at the last position must equal the observation the same letter gives
ALONE in a fresh interpreter (the 'alone' table is produced by one fresh subprocess per letter
and cross-checked against the in-process reset), every object returned earlier in the sequence is
rendered again at the end and must not have changed, and the Adj-RIB-In of every session must equal a
dict model folded from the alone effects.

Process-wide state is not listed by hand: a reflective scan over every loaded exabgp module (module
globals, class attributes, nested containers/objects to depth 4) is taken after the world is built;
the entries that a calibration run over the alphabet changes form the hot set.  canon(state) is the
digest of the hot set (+ the Adj-RIB-In tables); reset restores the hot set to its baseline.

The comparison itself never calls ExaBGP: it compares plain strings produced by ExaBGP in two histories.
"""

from __future__ import annotations

import collections
import hashlib
import inspect
import json
import multiprocessing as mp
import os
import re
import subprocess
import sys
from concurrent.futures import ThreadPoolExecutor

from vt import core, exa
from vt.ref import wire

PROPERTY = 'C19'

# ----------------------------------------------------------------------------------------------
# sessions
# ----------------------------------------------------------------------------------------------

CONFIG = """
neighbor 127.0.0.%(n)d {
  router-id 1.2.3.4;
  local-address 127.0.0.1;
  local-as 65001;
  peer-as %(peer_as)d;
  adj-rib-in true;
  capability { route-refresh enable; %(cap)s }
  family { %(fam)s }
}
"""

# name -> parameters.  'params' is what the signature function compares between two sessions.
SESSIONS = {
    'A4': dict(n=2, peer_as=65002, cap='', fam='ipv4 unicast;', families=[(1, 1)], asn4=True, addpath=None, ext_msg=False),
    'A2': dict(n=3, peer_as=65003, cap='', fam='ipv4 unicast;', families=[(1, 1)], asn4=False, addpath=None, ext_msg=False),
    'AP': dict(n=4, peer_as=65004, cap='add-path receive;', fam='ipv4 unicast;', families=[(1, 1)], asn4=True,
               addpath=[(1, 1, 2)], ext_msg=False),
    'F6': dict(n=5, peer_as=65005, cap='extended-message enable;', fam='ipv4 unicast; ipv6 unicast;',
               families=[(1, 1), (2, 1)], asn4=True, addpath=None, ext_msg=True),
}
OPEN_SESSION = 'O'  # pseudo-session on which OPEN bodies are decoded (Negotiated.UNSET), neighbor .6
OPEN_NEIGHBOR = dict(n=6, peer_as=65006, cap='', fam='ipv4 unicast;')


def session_params(name: str) -> dict:
    if name == OPEN_SESSION:
        return {'open': True}
    s = SESSIONS[name]
    return {'asn4': s['asn4'], 'addpath': bool(s['addpath']), 'families': tuple(s['families']), 'extmsg': s['ext_msg']}


# ----------------------------------------------------------------------------------------------
# messages (reference encoder only)
# ----------------------------------------------------------------------------------------------

P1 = wire.nlri_ip(1, 1, '10.0.1.0', 24)
P2 = wire.nlri_ip(1, 1, '10.0.2.0', 24)
P6 = wire.nlri_ip(2, 1, '2001:db8:1::', 48)

ORIGIN_IGP = wire.encode_attr(wire.ORIGIN, b'\x00')
ORIGIN_BAD = wire.encode_attr(wire.ORIGIN, b'\x05')
NEXT_HOP = wire.encode_attr(wire.NEXT_HOP, bytes([10, 0, 0, 9]))
# valid under both encodings: 4-byte: SEQ[65538, 33619971]; 2-byte: SEQ[1, 2] SEQ[3]
ASPATH_AMB_RAW = bytes.fromhex('020200010002' '02010003')
# valid 2-byte SEQ[1, 2]; truncated when read as 4-byte
ASPATH_HALF_RAW = bytes.fromhex('020200010002')
# 2-byte: SEQ[23456, 3] SEQ[4]; 4-byte: SEQ[0x5ba00003, 0x02010004]
ASPATH_TRANS_RAW = bytes.fromhex('02025ba00003' '02010004')
ASPATH_AMB = wire.encode_attr(wire.AS_PATH, ASPATH_AMB_RAW)
ASPATH_HALF = wire.encode_attr(wire.AS_PATH, ASPATH_HALF_RAW)
ASPATH_TRANS = wire.encode_attr(wire.AS_PATH, ASPATH_TRANS_RAW)
AS4PATH = wire.encode_attr(wire.AS4_PATH, wire.encode_as_path([(wire.AS_SEQUENCE, [65538])], True))
AGGREGATOR2 = wire.encode_attr(wire.AGGREGATOR, wire.encode_attr_value(wire.AGGREGATOR, (wire.AS_TRANS, '10.0.0.7'), False))
AS4_AGGREGATOR = wire.encode_attr(wire.AS4_AGGREGATOR, wire.encode_attr_value(wire.AS4_AGGREGATOR, (65538, '10.0.0.7'), True))
COMMUNITIES = wire.encode_attr(wire.COMMUNITIES, wire.encode_attr_value(
    wire.COMMUNITIES, ((65000 << 16) | 1, 0xFFFFFF01, (65000 << 16) | 1), True))
EXT_A = wire.encode_attr(wire.EXT_COMMUNITIES, bytes.fromhex('0002fde800000001'))  # rt 65000:1
EXT_B = wire.encode_attr(wire.EXT_COMMUNITIES, bytes.fromhex('0002fde800000002'))  # rt 65000:2
LARGE = wire.encode_attr(wire.LARGE_COMMUNITIES, wire.encode_attr_value(wire.LARGE_COMMUNITIES, ((1, 2, 3), (1, 2, 3)), True))
UNKNOWN = wire.encode_attr(99, bytes.fromhex('deadbeef'), flags=wire.F_OPTIONAL | wire.F_TRANSITIVE)
MP_REACH6 = wire.encode_attr(wire.MP_REACH, wire.encode_mp_reach(2, 1, '2001:db8::1', [P6], False))
# the same NLRI bytes are one prefix with a path identifier, or five prefixes without
NLRI_AMB_RAW = wire.encode_nlri(wire.nlri_ip(1, 1, '10.0.1.0', 24, path_id=1), True)
WD_AMB_RAW = wire.encode_nlri(wire.nlri_ip(1, 1, '10.0.2.0', 24, path_id=1), True)

BASE = [ORIGIN_IGP, ASPATH_AMB, NEXT_HOP]

UPDATES = {
    # the attribute block every other "amb*" message repeats byte for byte
    'amb': wire.encode_update(attrs=BASE, nlri=[P1]),
    # same attribute block, withdrawn and announced NLRI bytes whose meaning depends on ADD-PATH (and, carrying withdrawals, an
    # API rendering of the same attribute set that differs from the one 'amb' asks for)
    'amb-ap': wire.encode_update(attrs=BASE).replace(b'\x00\x00', len(WD_AMB_RAW).to_bytes(2, 'big') + WD_AMB_RAW, 1) + NLRI_AMB_RAW,
    # same attribute block again on a withdrawal without an NLRI field (RFC 4271 4.3 allows the attributes there; nothing they describe is announced)
    'amb-wd': wire.encode_update(attrs=BASE, withdrawn=[P2]),
    # AS_PATH valid for a 2-byte-AS peer, malformed (treat-as-withdraw) for a 4-byte one
    'half': wire.encode_update(attrs=[ORIGIN_IGP, ASPATH_HALF, NEXT_HOP], nlri=[P1]),
    # malformed for everybody (treat-as-withdraw is not cached: the previous cache entry survives it)
    'badorigin': wire.encode_update(attrs=[ORIGIN_BAD, ASPATH_AMB, NEXT_HOP], nlri=[P1]),
    # AS_PATH + AS4_PATH (merge)
    'as4': wire.encode_update(attrs=[ORIGIN_IGP, ASPATH_TRANS, NEXT_HOP, AS4PATH], nlri=[P2]),
    # AGGREGATOR (2-byte form) + AS4_AGGREGATOR
    'agg': wire.encode_update(attrs=BASE + [AGGREGATOR2, AS4_AGGREGATOR], nlri=[P1]),
    # communities with a repeat and a well-known value, EXTENDED_COMMUNITIES twice, large communities repeated
    'comms': wire.encode_update(attrs=BASE + [COMMUNITIES, EXT_A, EXT_B, LARGE], nlri=[P1]),
    # unknown optional transitive attribute
    'unk': wire.encode_update(attrs=BASE + [UNKNOWN], nlri=[P1]),
    # MP_REACH_NLRI (resets the attribute cache) with the same ORIGIN/AS_PATH bytes
    'mp6': wire.encode_update(attrs=[ORIGIN_IGP, ASPATH_AMB, MP_REACH6]),
    # plain withdraw, no attributes
    'wd': wire.encode_update(withdrawn=[P1]),
    # End-of-RIB: IPv4 unicast, IPv6 unicast as ExaBGP/most senders write it (extended length), and the short form
    'eor4': b'\x00\x00\x00\x00',
    'eor6': bytes.fromhex('00000007900f0003000201'),
    'eor6s': bytes.fromhex('00000006800f03000201'),
}

CAP_MS, CAP_MS_CISCO = 68, 131
OPENS = {
    'rr-rfc': wire.encode_open(65006, 180, '9.9.9.6', [wire.cap_mp(1, 1), wire.cap_asn4(65006), (wire.CAP_RR, b''), (CAP_MS, b'\x00')]),
    'rr-cisco': wire.encode_open(65006, 180, '9.9.9.6', [wire.cap_mp(1, 1), wire.cap_asn4(65006), (wire.CAP_RR_CISCO, b'')]),
    'ms-cisco': wire.encode_open(65006, 180, '9.9.9.6', [wire.cap_mp(1, 1), wire.cap_asn4(65006), (wire.CAP_RR, b''),
                                                        (CAP_MS_CISCO, b'\x00')]),
}

LETTERS = [(s, m) for s in SESSIONS for m in UPDATES] + [(OPEN_SESSION, m) for m in OPENS]
NLET = len(LETTERS)
CACHING = ('on', 'off')  # Attribute.caching: the daemon sets it from env.cache.attributes (default true); library default false


def letter_name(letter) -> str:
    return f'{letter[0]}:{letter[1]}'


def attr_block(body: bytes) -> bytes:
    wlen = int.from_bytes(body[:2], 'big')
    alen = int.from_bytes(body[2 + wlen:4 + wlen], 'big')
    return body[4 + wlen:4 + wlen + alen]


def design_selfcheck() -> None:
    """The collisions the alphabet is built on are real (reference codec only)."""
    a4 = wire.decode_as_path(ASPATH_AMB_RAW, True)
    a2 = wire.decode_as_path(ASPATH_AMB_RAW, False)
    assert a4 == ((2, (65538, 33619971)),) and a2 == ((2, (1, 2)), (2, (3,))), (a4, a2)
    assert wire.decode_as_path(ASPATH_HALF_RAW, False) == ((2, (1, 2)),)
    try:
        wire.decode_as_path(ASPATH_HALF_RAW, True)
        raise AssertionError('half AS_PATH decodes as 4-byte')
    except wire.RefError:
        pass
    assert len(wire.decode_nlris(NLRI_AMB_RAW, 1, 1, True)) == 1 and len(wire.decode_nlris(NLRI_AMB_RAW, 1, 1, False)) == 5
    for ap in (True, False):
        u = wire.decode_update(UPDATES['amb-ap'], True, {(1, 1)} if ap else set())
        assert len(u['withdrawn']) == (1 if ap else 5) and len(u['nlri']) == (1 if ap else 5), u
    blocks = {attr_block(UPDATES[m]) for m in ('amb', 'amb-ap', 'amb-wd')}
    assert len(blocks) == 1
    assert wire.is_eor(UPDATES['eor4']) == (1, 1) and wire.is_eor(UPDATES['eor6']) == (2, 1) and wire.is_eor(UPDATES['eor6s']) == (2, 1)
    for name, body in OPENS.items():
        wire.decode_open(body)


# ----------------------------------------------------------------------------------------------
# the world: real objects, built once per process
# ----------------------------------------------------------------------------------------------

_W = None

_ENVELOPE = re.compile(r'^\{ "exabgp": "[^"]*", "time": [-0-9.e+]+, "host" : "[^"]*", "pid" : \d+, "ppid" : \d+, (?:"counter": \d+, )?')


class _Stats(collections.defaultdict):
    def __init__(self):
        collections.defaultdict.__init__(self, int)


def world(only=None):
    """only: build just that session (the fresh 'alone' interpreters), default all of them."""
    global _W
    if _W is not None:
        return _W
    exa.reset_process_state()
    from exabgp.bgp.message import Message
    from exabgp.bgp.message.notification import Notify
    from exabgp.bgp.message.open.capability.negotiated import Negotiated
    from exabgp.bgp.message.update.attribute import Attribute
    from exabgp.reactor.api.response import Response
    from exabgp.reactor.peer.context import PeerContext
    from exabgp.reactor.peer.handlers import UpdateHandler
    from exabgp.version import json as json_version
    from exabgp.version import text_v4

    w = dict(Message=Message, Notify=Notify, Attribute=Attribute, PeerContext=PeerContext,
             UpdateHandler=UpdateHandler, sessions={}, order=[n for n in SESSIONS if only in (None, n)])
    for name, s in SESSIONS.items():
        if name not in w['order']:
            continue
        _cfg, nb = exa.neighbor_from_text(CONFIG % s)
        neg = exa.negotiated_for(nb, exa.peer_open_body(s['peer_as'], s['families'], asn4=s['asn4'], addpath=s['addpath'],
                                                        ext_msg=s['ext_msg']), direction_out=False)
        if bool(neg.asn4) != s['asn4'] or bool(neg.required(*neg.families[0])) != bool(s['addpath']) \
                or len(neg.families) != len(s['families']) or (neg.msg_size > 4096) != s['ext_msg']:
            raise core.HarnessError(f'session {name} did not negotiate as designed: asn4={neg.asn4} families={neg.families} '
                                    f'msg_size={neg.msg_size}')
        if not nb.rib.incoming.cache:
            raise core.HarnessError('adj-rib-in is not enabled')
        w['sessions'][name] = dict(neighbor=nb, neg=neg, cfg=_cfg)
    if only in (None, OPEN_SESSION):
        _cfg, nb = exa.neighbor_from_text(CONFIG % OPEN_NEIGHBOR)
        w['sessions'][OPEN_SESSION] = dict(neighbor=nb, neg=Negotiated.UNSET, cfg=_cfg)
    w['json'] = Response.JSON(json_version)
    w['text'] = Response.V4.Text(text_v4)
    _W = w
    new_run_objects(w)
    return w


def new_run_objects(w) -> None:
    """What a (re)started set of peers has: empty Adj-RIB-In, fresh handler and counters."""
    for name in w['order']:
        s = w['sessions'][name]
        s['neighbor'].rib.incoming.clear()
        s['handler'] = w['UpdateHandler']()
        s['ctx'] = w['PeerContext'](proto=None, neighbor=s['neighbor'], negotiated=s['neg'], refresh_enhanced=False,
                                    routes_per_iteration=25, peer_id=name, stats=_Stats())


def _strip(js: str) -> str:
    return _ENVELOPE.sub('{ ', js, count=1)


def _exc(w, e) -> str:
    if isinstance(e, w['Notify']):
        return f'Notify:{e.code}/{e.subcode}:{bytes(e.data)!r}'
    return f'{type(e).__name__}:{e}'


def _struct_update(msg) -> str:
    """Force everything lazy on a decoded UPDATE and write it down."""
    parsed = msg.data
    ann = [(r.nlri.extensive(), str(r.nexthop), str(r.nlri.family().afi_safi())) for r in parsed.announces]
    wd = [(n.extensive(), str(n.family().afi_safi())) for n in parsed.withdraws]
    attrs = parsed.attributes
    al = []
    for code in sorted(attrs.keys()):
        a = attrs[code]
        al.append((code, type(a).__name__, int(a.ID), int(a.FLAG), str(a)))
    return json.dumps({'announce': ann, 'withdraw': wd, 'attributes': al, 'index': attrs.index().decode('latin-1')})


def _attr_codes(struct: str) -> dict:
    try:
        d = json.loads(struct)
    except Exception:
        return {}
    return {a[0]: a for a in d.get('attributes', [])} if isinstance(d, dict) else {}


class Decoded:
    """What the receive path produced for one letter, kept so it can be rendered again later."""

    __slots__ = ('letter', 'kind', 'msg', 'obs')

    def __init__(self, letter):
        self.letter = letter
        self.kind = 'none'
        self.msg = None
        self.obs = None


def render(w, d: Decoded) -> tuple:
    """(json, text, struct) of an already decoded message; exceptions are values."""
    s = w['sessions'][d.letter[0]]
    nb, neg = s['neighbor'], s['neg']
    out = []
    if d.kind == 'open':
        fns = (lambda: _strip(w['json'].open(nb, 'receive', d.msg, b'', b'', neg)),
               lambda: w['text'].open(nb, 'receive', d.msg, b'', b'', neg),
               lambda: json.dumps({'open': str(d.msg), 'caps': sorted((int(k), type(v).__name__, int(v.ID), str(v))
                                                                    for k, v in d.msg.capabilities.items())}))
    elif d.kind == 'eor':
        fns = (lambda: _strip(w['json'].update(nb, 'receive', d.msg, b'', b'', neg)),
               lambda: w['text'].update(nb, 'receive', d.msg, b'', b'', neg),
               lambda: json.dumps({'eor': [n.extensive() for n in d.msg.nlris], 'attributes': len(d.msg.attributes)}))
    elif d.kind == 'update':
        fns = (lambda: _strip(w['json'].update(nb, 'receive', d.msg.data, b'', b'', neg)),
               lambda: w['text'].update(nb, 'receive', d.msg.data, b'', b'', neg),
               lambda: _struct_update(d.msg))
    else:
        return ('', '', '')
    for fn in fns:
        try:
            out.append(fn())
        except Exception as e:  # noqa: BLE001 - an exception while rendering is an observation
            out.append('!' + _exc(w, e))
    return tuple(out)


def step(w, letter) -> Decoded:
    """One message through the receive path, as Protocol.read_message + Peer main loop do it."""
    sname, mname = letter
    s = w['sessions'][sname]
    d = Decoded(letter)
    exc = ''
    if sname == OPEN_SESSION:
        try:
            d.msg = w['Message'].unpack(wire.OPEN, OPENS[mname], s['neg'])
            d.kind = 'open'
        except Exception as e:  # noqa: BLE001
            exc = _exc(w, e)
        d.obs = (exc, d.kind) + render(w, d) + ('',)
        return d
    try:
        msg = w['Message'].unpack(wire.UPDATE, UPDATES[mname], s['neg'])
        d.msg = msg
        d.kind = 'eor' if getattr(msg, 'IS_EOR', False) else 'update'
    except Exception as e:  # noqa: BLE001
        exc = _exc(w, e)
    r = render(w, d)
    hexc = ''
    if d.kind != 'none':
        try:
            discard = d.kind == 'update' and w['Attribute'].CODE.INTERNAL_DISCARD in d.msg.data.attributes
            if discard:
                hexc = 'discarded'
            elif s['handler'].can_handle(d.msg):
                for _ in s['handler'].handle(s['ctx'], d.msg):
                    pass
        except Exception as e:  # noqa: BLE001
            hexc = '!' + _exc(w, e)
    d.obs = (exc, d.kind) + r + (hexc,)
    return d


OBS_FIELDS = ('exception', 'kind', 'json', 'text', 'struct', 'handler')


def rib_snapshot(w) -> dict:
    out = {}
    for name in w['order']:
        rib = w['sessions'][name]['neighbor'].rib.incoming
        rows = []
        for route in rib.cached_routes():
            try:
                rows.append([str(route.nlri.family().afi_safi()), route.nlri.extensive(), str(route.nexthop), str(route.attributes)])
            except Exception as e:  # noqa: BLE001
                rows.append(['!', _exc(w, e), '', ''])
        out[name] = sorted(rows)
    return out


def set_caching(w, mode: str) -> None:
    w['Attribute'].caching = (mode == 'on')


# ----------------------------------------------------------------------------------------------
# reflective process-wide state: scan, digest, restore
# ----------------------------------------------------------------------------------------------

_SKIP_MODULES = ('exabgp.logger', 'exabgp.environment', 'exabgp.vendoring', 'exabgp.debug')
# the API envelope counter: legitimately history dependent and canonicalised out of every observation
# (and RIB._cache: the Adj-RIB-In tables enter canon through rib_snapshot(), which is cheaper and complete)
_NOT_CANON = ('exabgp.reactor.api.response.json:JSON._count', 'exabgp.rib:RIB._cache')


def _not_canon(key: str) -> bool:
    """the envelope counter of the API encoders (whatever it is called) and the table of RIBs"""
    return key in _NOT_CANON or (key.startswith('exabgp.reactor.api.response.') and 'count' in key.rsplit('.', 1)[-1].lower())
_SCALARS = (int, str, bytes, bool, float, type(None), tuple, frozenset)
_MAXD = 4


def _is_exa_instance(v) -> bool:
    t = type(v)
    return getattr(t, '__module__', '').startswith('exabgp') and not inspect.isclass(v)


def _r(v, depth, seen):
    """Structural rendering (no default repr, so no addresses)."""
    if v is None or isinstance(v, (bool, float)):
        return repr(v)
    if isinstance(v, int):
        return f'{type(v).__name__}:{int(v)}' if type(v) is not int else int(v)
    if isinstance(v, str):
        return str(v)
    if isinstance(v, (bytes, bytearray, memoryview)):
        return 'x' + bytes(v).hex()
    if isinstance(v, type):
        return f'<class {v.__module__}.{v.__qualname__}>'
    if not isinstance(v, (dict, list, tuple, set, frozenset)) and not type(v).__module__.startswith('exabgp'):
        if inspect.isroutine(v) or isinstance(v, (property, classmethod, staticmethod)):
            return f'<fn {getattr(v, "__qualname__", type(v).__name__)}>'
        return f'<{type(v).__module__}.{type(v).__qualname__}>'
    if id(v) in seen:
        return '<cycle>'
    if depth <= 0:
        return f'<{type(v).__name__}>'
    seen = seen | {id(v)}
    body = None
    if isinstance(v, dict):
        body = sorted(((repr(_r(k, depth - 1, seen)), _r(x, depth - 1, seen)) for k, x in list(v.items())), key=lambda p: p[0])
    elif isinstance(v, (list, tuple)):
        body = [_r(x, depth - 1, seen) for x in v]
    elif isinstance(v, (set, frozenset)):
        body = sorted((repr(_r(x, depth - 1, seen)) for x in v))
    inst = None
    if _is_exa_instance(v):
        dd = getattr(v, '__dict__', None)
        slots = {}
        for klass in type(v).__mro__:
            for sname in getattr(klass, '__slots__', ()) or ():
                if isinstance(sname, str) and hasattr(v, sname):
                    slots[sname] = getattr(v, sname)
        fields = dict(dd or {})
        fields.update(slots)
        inst = (type(v).__qualname__, sorted((k, _r(x, depth - 1, seen)) for k, x in fields.items()))
    if body is None and inst is None:
        return f'<{type(v).__module__}.{type(v).__qualname__}>'
    return (type(v).__name__, body, inst)


def _digest(v) -> str:
    return hashlib.sha1(repr(_r(v, _MAXD, frozenset())).encode()).hexdigest()[:16]


def _roots():
    """Every module global / class attribute of a loaded exabgp module that can hold state:
    key -> (owner, attribute name)."""
    out = {}
    for modname in sorted(sys.modules):
        if not modname.startswith('exabgp') or modname.startswith(_SKIP_MODULES):
            continue
        mod = sys.modules[modname]
        if mod is None:
            continue
        for name, val in list(vars(mod).items()):
            if name.startswith('__'):
                continue
            if inspect.isclass(val):
                if val.__module__ == modname:
                    _class_roots(modname, val, out)
            elif inspect.ismodule(val) or inspect.isroutine(val):
                continue
            elif isinstance(val, (dict, list, set)) or _is_exa_instance(val) or isinstance(val, _SCALARS):
                out[f'{modname}:{name}'] = (mod, name)
    return out


def _class_roots(modname, klass, out, depth=0):
    for an, av in list(vars(klass).items()):
        if an.startswith('__') and an.endswith('__'):
            continue
        if inspect.isclass(av):
            if depth < 3 and av.__qualname__.startswith(klass.__qualname__ + '.'):
                _class_roots(modname, av, out, depth + 1)
            continue
        if inspect.isroutine(av) or isinstance(av, (property, classmethod, staticmethod)):
            continue
        if hasattr(av, '__get__') and not _is_exa_instance(av) and not isinstance(av, (dict, list, set) + _SCALARS):
            continue  # descriptors (slots, cached properties)
        out[f'{modname}:{klass.__qualname__}.{an}'] = (klass, an)


def _get(owner, name):
    return vars(owner)[name]


class _Holder:
    def __init__(self, v):
        self.v = v


class Snapshot:
    """Baseline of a set of roots with enough to put them back: identity of the root value, and for
    every container / exabgp instance reachable from it (depth 4) a shallow copy of its contents."""

    def __init__(self, roots: dict, digests: bool = True, depth: int = _MAXD, stop=()):
        self.roots = roots
        self.values = {}
        self.nodes = {}   # root key -> list of (obj, kind, saved)
        self.digests = {}
        for key, (owner, name) in roots.items():
            v = _get(owner, name)
            self.values[key] = v
            nodes = []
            self._walk(v, depth, set(stop), nodes)
            self.nodes[key] = nodes
            if digests:
                self.digests[key] = _digest(v)

    def _walk(self, v, depth, seen, nodes):
        if depth <= 0 or id(v) in seen or inspect.isclass(v) or inspect.isroutine(v):
            return
        if isinstance(v, dict):
            seen.add(id(v))
            nodes.append((v, 'dict', dict(v)))
            for k, x in list(v.items()):
                self._walk(k, depth - 1, seen, nodes)
                self._walk(x, depth - 1, seen, nodes)
        elif isinstance(v, list):
            seen.add(id(v))
            nodes.append((v, 'list', list(v)))
            for x in list(v):
                self._walk(x, depth - 1, seen, nodes)
        elif isinstance(v, set):
            seen.add(id(v))
            nodes.append((v, 'set', set(v)))
        elif isinstance(v, (tuple, frozenset)):
            for x in v:
                self._walk(x, depth - 1, seen, nodes)
        if _is_exa_instance(v) and isinstance(getattr(v, '__dict__', None), dict):
            seen.add(id(v))
            nodes.append((v, 'obj', dict(v.__dict__)))
            for x in list(v.__dict__.values()):
                self._walk(x, depth - 1, seen, nodes)

    def changed(self, keys=None) -> list:
        out = []
        for key in (keys if keys is not None else self.roots):
            owner, name = self.roots[key]
            try:
                v = _get(owner, name)
            except KeyError:
                out.append(key)
                continue
            if v is not self.values[key] and not (isinstance(v, _SCALARS) and not _is_exa_instance(v)):
                out.append(key)
            elif _digest(v) != self.digests[key]:
                out.append(key)
        return out

    @staticmethod
    def _node_differs(obj, kind, saved, missing=object()) -> bool:
        if kind == 'dict':
            return len(obj) != len(saved) or any(obj.get(k, missing) is not x for k, x in saved.items())
        if kind == 'list':
            return len(obj) != len(saved) or any(a is not b for a, b in zip(obj, saved))
        if kind == 'set':
            return obj != saved
        dd = obj.__dict__
        return len(dd) != len(saved) or any(dd.get(k, missing) is not x for k, x in saved.items())

    def dirty(self, keys) -> bool:
        """Did anything recorded under these roots change (identity of the root value, shallow content of every node)?"""
        for key in keys:
            owner, name = self.roots[key]
            v = vars(owner).get(name, self)
            base = self.values[key]
            if v is not base and not (isinstance(base, _SCALARS) and not _is_exa_instance(base) and type(v) is type(base) and v == base):
                return True
            for obj, kind, saved in self.nodes[key]:
                if self._node_differs(obj, kind, saved):
                    return True
        return False

    def restore(self, keys) -> None:
        for key in keys:
            owner, name = self.roots[key]
            base = self.values[key]
            if vars(owner).get(name, self) is not base:
                setattr(owner, name, base)
            for obj, kind, saved in self.nodes[key]:
                if not self._node_differs(obj, kind, saved):
                    continue
                if kind == 'dict':
                    dict.clear(obj)
                    dict.update(obj, saved)
                elif kind == 'list':
                    obj[:] = saved
                elif kind == 'set':
                    obj.clear()
                    obj.update(saved)
                else:
                    obj.__dict__.clear()
                    obj.__dict__.update(saved)

    def canon(self, keys) -> tuple:
        return tuple((key, _digest(_get(*self.roots[key]))) for key in keys)


def new_roots_since(snap: Snapshot) -> list:
    """Roots that exist now but did not when the baseline was taken (modules imported lazily, new globals)."""
    return sorted(k for k in _roots() if k not in snap.roots)


# ----------------------------------------------------------------------------------------------
# the harness of one process
# ----------------------------------------------------------------------------------------------

_IMPORT_ALL = ('exabgp.bgp', 'exabgp.protocol', 'exabgp.rib', 'exabgp.util', 'exabgp.reactor.api.response', 'exabgp.reactor.peer')
ATTR_CACHE_KEYS = ('exabgp.bgp.message.update.attribute.collection:AttributeCollection.cached',
                   'exabgp.bgp.message.update.attribute.collection:AttributeCollection.previous')
ATTR_NAMES = {1: 'origin', 2: 'as-path', 3: 'next-hop', 4: 'med', 5: 'local-pref', 6: 'atomic-aggregate', 7: 'aggregator',
              8: 'community', 9: 'originator-id', 10: 'cluster-list', 14: 'mp-reach', 15: 'mp-unreach', 16: 'ext-community',
              17: 'as4-path', 18: 'as4-aggregator', 32: 'large-community', 0xFFFE: 'discard', 0xFFFF: 'treat-as-withdraw'}


def import_all() -> None:
    """Load every module of the packages the receive path lives in, so that the reflective scan sees the same
    set of modules in every process whatever was decoded first."""
    import importlib
    import pkgutil

    for pkg in _IMPORT_ALL:
        p = importlib.import_module(pkg)
        for mi in pkgutil.walk_packages(p.__path__, pkg + '.'):
            importlib.import_module(mi.name)
    freeze_cache_clock()


class _FrozenTime:
    """exabgp.util.cache.Cache stamps itself with int(time.time()) on every access: the wall clock is not part of what a
    message decodes to, and must not make two executions of the same sequence differ (it is owned here: one instant)."""

    @staticmethod
    def time() -> float:
        return 1790000000.0


def freeze_cache_clock() -> None:
    try:
        import exabgp.util.cache as cache_mod
    except ImportError:
        return
    if hasattr(cache_mod, 'time'):
        cache_mod.time = _FrozenTime


def alone_fresh(mode: str, letter) -> dict:
    """The observation of one letter in a genuinely fresh interpreter that decodes nothing else."""
    env = dict(os.environ)
    env['PYTHONHASHSEED'] = '0'
    # bytecode of the tree under test is kept outside it (nothing is ever written below /repo)
    env.pop('PYTHONDONTWRITEBYTECODE', None)
    env['PYTHONPYCACHEPREFIX'] = '/tmp/verif-c19-pycache'
    p = subprocess.run([core.PYTHON, '-m', 'vt.checks.c19', '--alone', mode, letter[0], letter[1]], cwd=core.ROOT, env=env,
                       capture_output=True, text=True, timeout=300)
    if p.returncode != 0:
        raise core.HarnessError(f'alone subprocess failed for {mode} {letter}: {p.stdout[-500:]} {p.stderr[-1500:]}')
    line = [ln for ln in p.stdout.splitlines() if ln.startswith('{"alone"')]
    if len(line) != 1:
        raise core.HarnessError(f'alone subprocess printed no result for {mode} {letter}: {p.stdout[-500:]}')
    return json.loads(line[0])['alone']


def _alone_here(mode: str, letter) -> dict:
    """Runs in the fresh subprocess (and nowhere else)."""
    w = world(only=letter[0])
    set_caching(w, mode)
    d = step(w, tuple(letter))
    return {'obs': list(d.obs), 'rib': rib_snapshot(w)}


class Harness:
    def __init__(self):
        self.w = world()
        import_all()
        set_caching(self.w, 'off')
        self.snap = Snapshot(_roots())
        self.hot = []
        self.canon_keys = []
        self.alone = {}      # (mode, letter) -> {'obs': tuple, 'rows': [...], 'wd': [...], 'applied': bool}
        self.memo = {}       # classification memo
        self.pair_memo = {}  # verdicts of 1- and 2-letter sequences run from a reset process
        self.calibration = {}

    # -- calibration: which roots does the alphabet touch --------------------------------------------------------
    def calibrate(self) -> None:
        hot = set(ATTR_CACHE_KEYS)
        per_letter = {}
        for mode in CACHING:
            for letter in LETTERS:
                set_caching(self.w, mode)
                step(self.w, letter)
                set_caching(self.w, 'off')
                ch = self.snap.changed()
                per_letter.setdefault(letter_name(letter), set()).update(ch)
                hot.update(ch)
                self.snap.restore(ch)
                new_run_objects(self.w)
        missing = [k for k in ATTR_CACHE_KEYS if k not in self.snap.roots]
        if missing:
            hot -= set(missing)
        # the Adj-RIB-In tables hang off RIB._cache: new_run_objects() empties them, checkpoints save them through rib_roots()
        hot.discard('exabgp.rib:RIB._cache')
        self.hot = sorted(hot)
        self.canon_keys = [k for k in self.hot if not _not_canon(k)]
        self.calibration = {k: sorted(v) for k, v in sorted(per_letter.items())}
        left = self.snap.changed()
        if left:
            raise core.HarnessError(f'process-wide state not restored by reset: {left}')

    def reset(self, mode: str) -> None:
        self.snap.restore(self.hot)
        new_run_objects(self.w)
        set_caching(self.w, mode)

    def stray_state(self) -> list:
        """Roots outside the hot set that differ from the baseline (the calibration missed them), and roots created since."""
        self.snap.restore(self.hot)
        new_run_objects(self.w)
        set_caching(self.w, 'off')
        return self.snap.changed() + new_roots_since(self.snap)

    # -- the alone table ----------------------------------------------------------------------------------------
    def load_alone(self, table: dict) -> None:
        for (mode, letter), rec in table.items():
            self.alone[(mode, letter)] = self._alone_entry(letter, rec)

    def _alone_entry(self, letter, rec) -> dict:
        obs = tuple(rec['obs'])
        rows = [tuple(r) for r in rec['rib'].get(letter[0], [])]
        for other, r in rec['rib'].items():
            if other != letter[0] and r:
                raise core.HarnessError(f'alone {letter}: Adj-RIB-In of another session is not empty')
        wd = []
        if obs[1] == 'update' and not obs[4].startswith('!'):
            wd = [(x[1], x[0]) for x in json.loads(obs[4])['withdraw']]
        return {'obs': obs, 'rows': rows, 'wd': wd}

    def alone_for(self, mode: str, letter) -> dict:
        key = (mode, tuple(letter))
        if key not in self.alone:
            self.alone[key] = self._alone_entry(tuple(letter), alone_fresh(mode, tuple(letter)))
        return self.alone[key]

    def alone_inprocess(self, mode: str, letter) -> dict:
        self.reset(mode)
        d = step(self.w, letter)
        return {'obs': list(d.obs), 'rib': rib_snapshot(self.w)}

    # -- one sequence -------------------------------------------------------------------------------------------
    def collides(self, seq) -> bool:
        """Measured just before the last step: does the last letter meet state an earlier letter left behind?"""
        if len(seq) < 2:
            return False
        s, m = seq[-1]
        if s == OPEN_SESSION:
            return any(a == OPEN_SESSION and b != m for a, b in seq[:-1])
        try:
            AC = self.snap.roots[ATTR_CACHE_KEYS[0]][0]
            if AC.cached and bytes(AC.previous) == attr_block(UPDATES[m]):
                return True
        except (KeyError, AttributeError, TypeError):
            pass  # the cache is no longer kept under these names: this only feeds the "non-trivial" count
        if m.startswith('eor'):
            return any(b == m for a, b in seq[:-1])
        return False

    def rib_roots(self) -> dict:
        return {f'rib:{name}': (self.w['sessions'][name]['neighbor'].rib, 'incoming') for name in self.w['order']}

    def expected_ribs(self, mode, before: dict, letter) -> dict:
        """Dict model: the tables before the step + the effect the letter has when decoded alone."""
        out = {name: [tuple(r) for r in rows] for name, rows in before.items()}
        if letter[0] == OPEN_SESSION:
            return out
        al = self.alone_for(mode, letter)
        tab = {(r[0], r[1]): r for r in out[letter[0]]}
        for row in al['rows']:
            tab[(row[0], row[1])] = row
        for key in al['wd']:
            tab.pop(key, None)
        out[letter[0]] = sorted(tab.values())
        return out

    def judge(self, mode, seq, decs, ribs_before, want_state, before_rerender=None, rerender_from: int = 0, canon=None, carried=()):
        """The oracle for the last step of seq (decs = what every step returned, in order)."""
        w = self.w
        n = len(seq)
        last = decs[-1]
        mism = []
        want = self.alone_for(mode, seq[-1])['obs']
        if last.obs != want:
            fields = [OBS_FIELDS[k] for k in range(len(OBS_FIELDS)) if last.obs[k] != want[k]]
            mism.append(('decode', n - 1, fields, last.obs, want))
        ribs = rib_snapshot(w)
        expect = self.expected_ribs(mode, ribs_before, seq[-1])
        bad = [name for name in w['order'] if [tuple(r) for r in ribs[name]] != expect[name]]
        if bad:
            mism.append(('rib', n - 1, bad, {b: ribs[b] for b in bad}, {b: expect[b] for b in bad}))
        info = {'outcome': core.digest(list(last.obs))}
        if want_state:
            pstate = canon() if canon is not None else self.snap.canon(self.canon_keys)
            info['pstate'] = core.digest(pstate)
            info['state'] = core.digest([pstate, ribs])
        if before_rerender is not None:
            before_rerender()
        mism += [m for m in carried if m[1] < rerender_from]
        mism += self.rerender(decs, rerender_from)
        return mism, info

    def rerender(self, decs, start: int = 0) -> list:
        """Render again what was returned at positions >= start; a difference with what it gave when decoded is a mismatch."""
        out = []
        for i, d in enumerate(decs):
            if d.kind == 'none' or i < start:
                continue
            r = render(self.w, d)
            then = d.obs[2:5]
            if r != then:
                fields = [OBS_FIELDS[2 + k] for k in range(3) if r[k] != then[k]]
                out.append(('mutated', i, fields, (d.obs[0], d.kind) + r + (d.obs[5],), d.obs))
        return out

    def evaluate(self, mode: str, seq, intervene=None, want_state: bool = False):
        """Run seq from a reset state and judge its last step.  Returns (mismatches, info).
        intervene = (k, keys, frm): just before step k (k == len(seq): before the final re-rendering) put the roots `keys`
        back to their baseline (frm None) or to what they were right after step frm."""
        w = self.w
        self.reset(mode)
        decs = []
        n = len(seq)
        collide = False
        capture = [None]
        ribs_before = None

        def put_back():
            (capture[0] if intervene[2] is not None else self.snap).restore(intervene[1])

        for i, letter in enumerate(seq):
            if intervene is not None and intervene[0] == i:
                put_back()
            if i == n - 1:
                collide = self.collides(seq)
                ribs_before = rib_snapshot(w)
            decs.append(step(w, letter))
            if intervene is not None and intervene[2] == i:
                capture[0] = Snapshot({k: self.snap.roots[k] for k in self.hot}, digests=False)
        hook = put_back if (intervene is not None and intervene[0] == n) else None
        mism, info = self.judge(mode, seq, decs, ribs_before, want_state, hook)
        info['collide'] = collide
        return mism, info

    def run_prefix(self, mode: str, prefix, visit, audit: bool = False) -> None:
        """Every one-letter extension of prefix, sharing the execution of the prefix: the process-wide hot roots and the
        Adj-RIB-In tables are checkpointed after the prefix and put back before each extension.  A mismatch seen this way is only a
        lead: classify() reproduces it on a minimal sequence run from a reset process before it becomes a violation."""
        w = self.w
        prefix = [tuple(x) for x in prefix]
        self.reset(mode)
        decs = [step(w, letter) for letter in prefix]
        # objects of the prefix that the prefix itself already altered: carried to every extension that touches nothing
        carried = self.rerender(decs)
        roots = {k: self.snap.roots[k] for k in self.hot}
        roots.update(self.rib_roots())
        cp = Snapshot(roots, digests=False)
        keys = list(roots)
        # roots an already decoded object may read when it is rendered: every hot root but the attribute-block cache (only
        # read by unpack, and rewritten by nearly every letter) and the API counter
        read_keys = [k for k in self.hot if k not in ATTR_CACHE_KEYS and not _not_canon(k)]
        ribs_before = rib_snapshot(w)
        # the objects the prefix returned, to depth 7 (Update -> UpdateCollection -> AttributeCollection -> dict -> Attribute -> fields)
        # (the session objects every message points at are not part of a message)
        stop = [id(x) for sess in w['sessions'].values() for x in (sess['neighbor'], sess['neg'])]
        graph = Snapshot({f'dec{i}': (_Holder(d.msg), 'v') for i, d in enumerate(decs)}, digests=False, depth=7, stop=stop)
        gkeys = list(graph.roots)
        base_canon = dict(self.snap.canon(self.canon_keys))

        def canon():
            return tuple((k, base_canon[k] if not cp.dirty([k]) else _digest(_get(*self.snap.roots[k]))) for k in self.canon_keys)

        for letter in LETTERS:
            cp.restore(keys)
            seq = prefix + [letter]
            collide = self.collides(seq)
            d = step(w, letter)
            # an earlier object is rendered again when the step touched anything it is made of, or any other hot root (a
            # rewritten class ID, a memo); always for the short sequences.  Otherwise what the prefix had already done to it stands.
            again = len(prefix) < 2 or graph.dirty(gkeys) or cp.dirty(read_keys)
            mism, info = self.judge(mode, seq, decs + [d], ribs_before, True, rerender_from=0 if again else len(prefix), canon=canon,
                                    carried=carried)
            info['collide'] = collide
            # a mismatch seen here is only a lead: classify() runs the minimal sequence again from a reset process
            if audit:
                mism2, info2 = self.evaluate(mode, seq, want_state=True)
                if ([m[:2] for m in mism], info) != ([m[:2] for m in mism2], info2):
                    raise core.HarnessError(f'checkpointed execution of {seq} differs from execution after a reset: '
                                            f'{[m[:3] for m in mism]} {info} vs {[m[:3] for m in mism2]} {info2}')
            visit(seq, mism, info)

    # -- classification -----------------------------------------------------------------------------------------
    def _has(self, mode, seq, kind, pos, intervene=None):
        """The mismatch of that kind at that position when seq is run from a reset process, or None."""
        key = None
        if intervene is None and len(seq) <= 2:
            key = (mode, tuple(seq))
            mism = self.pair_memo.get(key)
            if mism is None:
                mism, _ = self.evaluate(mode, seq)
                self.pair_memo[key] = mism
        else:
            mism, _ = self.evaluate(mode, seq, intervene)
        for m in mism:
            if m[0] == kind and m[1] == pos:
                return m
        return None

    def minimise(self, mode, seq, kind, pos):
        """Smallest subsequence showing the same kind of mismatch: (subsequence, position of the object/letter)."""
        seq = [tuple(x) for x in seq]
        n = len(seq)
        if kind == 'mutated':
            for j in range(pos + 1, n):
                cand = [seq[pos], seq[j]]
                if self._has(mode, cand, kind, 0):
                    return cand, 0
            if self._has(mode, seq[pos:], kind, 0):
                return seq[pos:], 0
            return seq, pos
        for j in range(n - 2, -1, -1):
            cand = [seq[j], seq[-1]]
            if self._has(mode, cand, kind, 1):
                return cand, 1
        for j in range(n - 1):
            for k in range(j + 1, n - 1):
                cand = [seq[j], seq[k], seq[-1]]
                if len(cand) < n and self._has(mode, cand, kind, 2):
                    return cand, 2
        return seq, n - 1

    def classify(self, mode, seq, kind, pos):
        key = (mode, tuple(tuple(x) for x in seq), kind, pos)
        got = self.memo.get(key)
        if got is None:
            mseq, mpos = self.minimise(mode, seq, kind, pos)
            mkey = (mode, tuple(mseq), kind, mpos)
            got = self.memo.get(mkey)
            if got is None:
                got = self._classify_minimal(mode, mseq, kind, mpos)
                self.memo[mkey] = got
            self.memo[key] = got
        return got

    def _attribute(self, mode, seq, kind, pos) -> str:
        """Which process-wide state carries the dependency: put one hot root back (to the baseline just before the victim step for
        a decode/rib mismatch; to what it was when the object was decoded, just before the re-rendering, for a mutated object)
        and see whether the mismatch goes away."""
        n = len(seq)
        if n == 1:
            return 'no-history'
        at, frm = (n, pos) if kind == 'mutated' else (n - 1, None)
        resp = [k for k in self.hot if self._has(mode, seq, kind, pos, intervene=(at, [k], frm)) is None]
        if not resp:
            if self._has(mode, seq, kind, pos, intervene=(at, list(self.hot), frm)) is None:
                return 'hot-state-combined'
            return 'state-outside-scan'
        if set(resp) <= set(ATTR_CACHE_KEYS):
            return 'attr-cache'
        return '+'.join(k.split(':', 1)[1] for k in resp)

    def _classify_minimal(self, mode, seq, kind, pos):
        m = self._has(mode, seq, kind, pos)
        if m is None:
            raise core.HarnessError(f'mismatch {kind}@{pos} of {seq} does not repeat in the same process')
        state = self._attribute(mode, seq, kind, pos)
        what = _what(kind, m)
        # the closest pair of sessions (in negotiated parameters) on which the same two messages show the same thing
        if len(seq) == 2 and seq[0][0] != seq[1][0] and OPEN_SESSION not in (seq[0][0], seq[1][0]):
            cur = len(_param_diff(seq[0][0], seq[1][0]))
            pairs = sorted(((len(_param_diff(a, b)), a, b) for a in SESSIONS for b in SESSIONS if a != b))
            for dist, a, b in pairs:
                if dist >= cur:
                    break
                cand = [(a, seq[0][1]), (b, seq[1][1])]
                m2 = self._has(mode, cand, kind, pos)
                if m2 is not None and _what(kind, m2) == what and self._attribute(mode, cand, kind, pos) == state:
                    seq, m = cand, m2
                    break
        sessions = []
        for sname, _m in seq:
            if sname not in sessions:
                sessions.append(sname)
        relation = _relation(sessions)
        sig = f'{kind}:{state}:{relation}:{what}'
        text = _describe(mode, seq, kind, pos, m, state)
        return sig, text, {'caching': mode, 'seq': [list(x) for x in seq], 'kind': kind, 'pos': pos}


def _param_diff(a: str, b: str) -> frozenset:
    pa, pb = session_params(a), session_params(b)
    return frozenset(k for k in pa if pa[k] != pb.get(k))


def _relation(sessions) -> str:
    if len(sessions) == 1:
        return 'open-open' if sessions[0] == OPEN_SESSION else 'session-same'
    if OPEN_SESSION in sessions:
        return 'open-update'
    d = set()
    for a in sessions:
        for b in sessions:
            d |= _param_diff(a, b)
    return 'session-' + '+'.join(sorted(d)) + '-mismatch' if d else 'session-twin'


def _what(kind, m) -> str:
    if kind == 'rib':
        return 'adj-rib-in'
    got, want = m[3], m[4]
    if got[1] != want[1]:
        return f'kind-{want[1]}-became-{got[1]}'
    if got[1] == 'open':
        try:
            a = {c[0]: c for c in json.loads(got[4])['caps']}
            b = {c[0]: c for c in json.loads(want[4])['caps']}
            codes = sorted(c for c in set(a) | set(b) if a.get(c) != b.get(c))
            if codes:
                return '+'.join(f'capability-{c}' for c in codes)
        except Exception:  # noqa: BLE001
            pass
        return '+'.join(m[2])
    a, b = _attr_codes(got[4]), _attr_codes(want[4])
    codes = sorted(c for c in set(a) | set(b) if a.get(c) != b.get(c))
    if codes:
        return '+'.join(ATTR_NAMES.get(c, f'attr-{c}') for c in codes)
    if got[0] != want[0]:
        return 'exception'
    try:
        ga, wa = json.loads(got[4]), json.loads(want[4])
        if (ga.get('announce'), ga.get('withdraw')) != (wa.get('announce'), wa.get('withdraw')):
            return 'nlri'
    except Exception:  # noqa: BLE001
        pass
    return '+'.join(m[2])


def _short(s, n=220) -> str:
    s = str(s)
    return s if len(s) <= n else s[:n] + '...'


def _snip(a, b, n=150):
    """The two strings around their first difference."""
    a, b = str(a), str(b)
    i = 0
    m = min(len(a), len(b))
    while i < m and a[i] == b[i]:
        i += 1
    lo = max(0, i - 60)
    pre = '...' if lo else ''
    return pre + a[lo:i + n] + ('...' if len(a) > i + n else ''), pre + b[lo:i + n] + ('...' if len(b) > i + n else '')


def _describe(mode, seq, kind, pos, m, state) -> str:
    names = [letter_name(x) for x in seq]
    if kind == 'rib':
        got, want = _snip(m[3], m[4], 260)
        return (f'caching={mode} {names}: Adj-RIB-In of {m[2]} after the sequence is {got}; the tables before the last message plus its '
                f'effect observed alone give {want} (state: {state})')
    got, want = m[3], m[4]
    k = 4 if 'struct' in m[2] else (OBS_FIELDS.index(m[2][0]) if m[2][0] in OBS_FIELDS else 4)
    g, w_ = _snip(got[k], want[k])
    if kind == 'mutated':
        return (f'caching={mode} {names}: the object decoded at position {pos} ({names[pos]}) renders differently after the rest of '
                f'the sequence ({", ".join(m[2])}): then {w_} now {g} (state: {state})')
    return (f'caching={mode} {names}: {names[-1]} decoded at position {pos} differs from the same message decoded alone in a fresh '
            f'process ({", ".join(m[2])}): in-history {g} alone {w_} (state: {state})')


# ----------------------------------------------------------------------------------------------
# workers
# ----------------------------------------------------------------------------------------------

_H = None


def harness() -> Harness:
    global _H
    if _H is None:
        _H = Harness()
        _H.calibrate()
    return _H


def seq_of(index: int, length: int):
    out = []
    for _ in range(length):
        index, r = divmod(index, NLET)
        out.append(LETTERS[r])
    out.reverse()
    return out


class Part:
    """Picklable partial result of a chunk."""

    def __init__(self):
        self.counters = collections.Counter()
        self.outcomes = set()
        self.states = set()
        self.pstates = set()
        self.viol = {}

    def add_violation(self, sig, text, case):
        cur = self.viol.get(sig)
        rank = (len(json.dumps(case)), json.dumps(case))
        if cur is None:
            self.viol[sig] = [1, text, case, rank]
        else:
            cur[0] += 1
            if rank < cur[3]:
                cur[1], cur[2], cur[3] = text, case, rank

    def merge_into(self, ctx: core.Ctx) -> None:
        for k, n in self.counters.items():
            ctx.count(k, n)
        for o in self.outcomes:
            ctx.add_to_set('outcomes', o)
        for s in self.states:
            ctx.add_to_set('states_with_adj_rib_in', s)
        for s in self.pstates:
            ctx.add_to_set('process_states', s)
        ctx.merge({'viol': {sig: {'what': v[1], 'case': v[2], 'count': v[0]} for sig, v in sorted(self.viol.items())}})


def _record(H: Harness, part: Part, mode: str, seq, mism, info) -> None:
    part.counters['executions'] += 1
    part.counters['transitions'] += 1
    if info['collide']:
        part.counters['nontrivial'] += 1
    part.outcomes.add(info['outcome'])
    part.states.add(info['state'])
    part.pstates.add(info['pstate'])
    seen_kinds = {m[0] for m in mism}
    if mism:
        part.counters['mismatching_sequences'] += 1
    for m in mism:
        if m[0] == 'rib' and 'decode' in seen_kinds:
            continue  # consequence of the decode mismatch at the same position
        sig, text, case = H.classify(mode, seq, m[0], m[1])
        part.add_violation(sig, text, case)


# every 97th prefix is also executed sequence by sequence from a reset process and compared (C19_AUDIT_EVERY=1: all of them)
AUDIT_EVERY = int(os.environ.get('C19_AUDIT_EVERY', '97'))


def prefix_of(index: int, length: int):
    return seq_of(index, length) if length else []


def _chunk(args):
    """All sequences of `length` whose (length-1)-prefix has an index in [lo, hi)."""
    mode, length, lo, hi = args
    H = harness()
    part = Part()

    def visit(seq, mism, info):
        _record(H, part, mode, seq, mism, info)

    for idx in range(lo, hi):
        H.run_prefix(mode, prefix_of(idx, length - 1), visit, audit=(idx % AUDIT_EVERY == 0))
        part.counters['messages_decoded'] += length - 1 + NLET
        if idx % AUDIT_EVERY == 0:
            part.counters['audited_prefixes'] += 1
            part.counters['messages_decoded'] += NLET * length + (length - 1) * NLET
    stray = H.stray_state()
    if stray:
        raise core.HarnessError(f'process-wide state outside the calibrated hot set changed: {stray[:8]}')
    return part


def _expand(args):
    mode, hists, record = args
    H = harness()
    part = Part()
    out = []

    def visit(seq, mism, info):
        if record:
            _record(H, part, mode, seq, mism, info)
        out.append((tuple(seq), info['pstate'], info['state'], bool(mism)))

    for h in hists:
        H.run_prefix(mode, list(h), visit)
        if record:
            part.counters['messages_decoded'] += len(h) + NLET
    stray = H.stray_state()
    if stray:
        raise core.HarnessError(f'process-wide state outside the calibrated hot set changed: {stray[:8]}')
    return part, out


def _alone_task(args):
    mode, letter = args
    return (mode, letter), alone_fresh(mode, letter)


# ----------------------------------------------------------------------------------------------
# run / replay
# ----------------------------------------------------------------------------------------------

BOUNDS = {
    # tier: (full enumeration: {mode: max length}, dedup BFS depth)
    'quick': ({'on': 3, 'off': 3}, 4),
    'thorough': ({'on': 4, 'off': 3}, 9),
}


def run(ctx: core.Ctx) -> None:
    design_selfcheck()
    full, bfs_depth = BOUNDS[ctx.tier]
    if os.environ.get('C19_FULL'):
        full = {m: int(x) for m, x in zip(CACHING, os.environ['C19_FULL'].split(','))}
    if os.environ.get('C19_BFS'):
        bfs_depth = int(os.environ['C19_BFS'])
    ctx.rule = ('letters = (session, message): 4 established sessions (ASN4, 2-byte AS, ADD-PATH receive, ipv4+ipv6 with extended '
                'message) x %d UPDATE bodies + %d OPEN bodies = %d letters; every sequence of letters of length <= %s (Attribute.caching on/off) '
                'is run from a reset process through Message.unpack + JSON/text encoders + UpdateHandler, then sequences reached by BFS with '
                'canonical process-state dedup to depth %d; a sequence is non-trivial when its last letter meets state left by an earlier one '
                '(attribute-block cache hit, same EOR family again, or an OPEN registering a shared capability class under another code)'
                % (len(UPDATES), len(OPENS), NLET, full, bfs_depth))
    ctx.assumptions += [
        'the alone table comes from one fresh interpreter per (caching, letter) that builds the same sessions and decodes only that letter',
        'process-wide state = every module global / class attribute (containers and objects to depth 4) of the loaded exabgp.bgp, '
        'protocol, rib, util, reactor.api.response, reactor.peer modules; the roots the alphabet changes are found by calibration and '
        'restored between sequences; any other root changing aborts the run as a harness error',
        'positions before the last one of a sequence are judged when that prefix is enumerated as a sequence of its own',
        'JSON envelope (version, time, host, pid, ppid, counter) is stripped before comparison',
        'reference encoder vt/ref/wire.py builds every message; the comparison is string equality between two ExaBGP runs',
    ]
    phases = ctx.coverage_extra.setdefault('phase_wall_s', {})
    H = harness()
    phases['world+scan+calibration'] = round(ctx.elapsed(), 1)
    ctx.coverage_extra['hot_state'] = list(H.hot)
    ctx.coverage_extra['calibration'] = H.calibration
    ctx.coverage_extra['letters'] = NLET
    ctx.coverage_extra['roots_scanned'] = len(H.snap.roots)

    # 1. alone table: fresh interpreters
    jobs = [(mode, letter) for mode in CACHING for letter in LETTERS]
    with ThreadPoolExecutor(max_workers=min(16, os.cpu_count() or 1)) as tp:
        table = dict(tp.map(_alone_task, jobs))
    H.load_alone(table)
    ctx.count('alone_fresh_interpreters', len(jobs))
    # cross-check: the in-process reset gives what a fresh interpreter gives
    for mode, letter in jobs:
        here = H.alone_inprocess(mode, letter)
        there = table[(mode, letter)]
        if here['obs'] != there['obs'] or {k: v for k, v in here['rib'].items() if v} != {k: v for k, v in there['rib'].items() if v}:
            raise core.HarnessError(f'in-process reset is not equivalent to a fresh interpreter for {mode} {letter}: '
                                    f'{_short(here, 600)} vs {_short(there, 600)}')
        ctx.add_to_set('alone_outcomes', core.digest(there['obs']))
    phases['alone_table'] = round(ctx.elapsed(), 1)
    ctx.sample({'alone': letter_name(LETTERS[0]), 'caching': 'on', 'obs': [_short(x, 160) for x in table[('on', LETTERS[0])]['obs']]})

    # 2. workers are forked from this calibrated, loaded harness
    pool = mp.get_context('fork').Pool(min(16, os.cpu_count() or 1))
    try:
        tasks = []
        for mode in CACHING:
            for length in range(1, full[mode] + 1):
                total = NLET ** (length - 1)   # prefixes; each is extended by every letter
                size = max(8, min(400, total // 96 + 1))
                tasks += [(mode, length, lo, min(total, lo + size)) for lo in range(0, total, size)]
        done = 0
        for part in pool.imap(_chunk, tasks):
            part.merge_into(ctx)
            done += 1
            if ctx.budget_s and ctx.elapsed() > ctx.budget_s and done < len(tasks):
                ctx.cap(f'full enumeration stopped after {done} of {len(tasks)} chunks (budget {ctx.budget_s}s); next chunk was {tasks[done]}')
                pool.terminate()
                pool = mp.get_context('fork').Pool(min(16, os.cpu_count() or 1))
                break
        phases['full_enumeration'] = round(ctx.elapsed(), 1)
        ctx.coverage_extra['full_enumeration'] = {m: {'max_length': full[m], 'sequences': sum(NLET ** k for k in range(1, full[m] + 1))}
                                                  for m in CACHING}
        # 3. deeper: BFS over histories, one representative history per canonical process-wide state (hot roots; the
        #    Adj-RIB-In tables are judged at every transition but are not part of the dedup key)
        for mode in CACHING:
            seen = set()
            frontier = [()]
            per_depth = {}
            for d in range(1, bfs_depth + 1):
                if not frontier:
                    break
                nshards = min(64, len(frontier))
                shards = [frontier[i::nshards] for i in range(nshards)]
                results = pool.map(_expand, [(mode, sh, d > full[mode]) for sh in shards])
                nxt = []
                for part, out in results:
                    part.merge_into(ctx)
                    for seq, pstate, _state, _bad in out:
                        if pstate in seen:
                            continue
                        seen.add(pstate)
                        nxt.append(seq)
                nxt.sort()
                frontier = nxt
                per_depth[f'depth{d}'] = len(seen)
            # an empty frontier: every reachable canonical process-wide state has been extended by every letter
            per_depth['closed'] = not frontier
            ctx.coverage_extra.setdefault('bfs_process_states', {})[mode] = per_depth
            for st in seen:
                ctx.add_to_set('process_states', st)
        ctx.counters['states'] = ctx.set_size('states_with_adj_rib_in')
        phases['bfs'] = round(ctx.elapsed(), 1)
    finally:
        pool.close()
        pool.join()
    ctx.sample({'sequence': [letter_name(x) for x in seq_of(NLET ** 3 // 2 + 7, 3)]})
    ctx.sample({'sequence': [letter_name(x) for x in seq_of(NLET ** 3 // 3 + 11, 3)]})
    for sig in sorted(ctx.viol)[:3]:
        ctx.sample({'mismatch': sig, 'witness': ctx.viol[sig]['case']})


def replay(case):
    H = harness()
    mode = case['caching']
    seq = [tuple(x) for x in case['seq']]
    mism, _ = H.evaluate(mode, seq)
    out = []
    kinds = {m[0] for m in mism}
    for m in mism:
        if m[0] == 'rib' and 'decode' in kinds:
            continue
        sig, text, _c = H.classify(mode, seq, m[0], m[1])
        out.append({'signature': sig, 'what': text})
    return out


if __name__ == '__main__':
    if len(sys.argv) == 5 and sys.argv[1] == '--alone':
        print(json.dumps({'alone': _alone_here(sys.argv[2], (sys.argv[3], sys.argv[4]))}))
        sys.exit(0)
    print('usage: python -m vt.checks.c19 --alone <on|off> <session> <message>')
    sys.exit(2)
