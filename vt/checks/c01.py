"""C01 - Sent UPDATEs say exactly what the operator asked for.   E-in.

Abstract route (prefix, path-id, labels, rd, next hop, attribute map) -> text rendered here -> real API /
configuration parser -> real Neighbor.resolve_self -> real OutgoingRIB -> real UpdateCollection.messages under a
real Negotiated (our OPEN from the neighbor, peer OPEN from reference bytes) -> reference decoder -> compare with
the value computed from the abstract route and the session by the RFC rules.
"""

from __future__ import annotations

import ipaddress
import itertools
import multiprocessing as mp
import os

from vt import core, exa
from vt.ref import wire

PROPERTY = 'C01'

LOCAL_ADDR4 = '127.0.0.1'

# ---------------------------------------------------------------------------------------------
# sessions
# ---------------------------------------------------------------------------------------------
NEIGHBOR = """
neighbor 127.0.0.2 {
  router-id 1.2.3.4;
  local-address 127.0.0.1;
  local-as %(local_as)d;
  peer-as %(peer_as)d;
  group-updates %(group)s;
  capability { asn4 %(asn4)s; %(addpath)s %(extnh)s %(extmsg)s %(aigp)s }
  family { ipv4 unicast; ipv6 unicast; ipv4 nlri-mpls; ipv6 nlri-mpls; ipv4 mpls-vpn; ipv6 mpls-vpn; }
  %(addpath_fam)s
  %(nexthop_fam)s
}
"""

FAMILIES = [(1, 1), (2, 1), (1, 4), (2, 4), (1, 128), (2, 128)]


def sessions(tier):
    out = []
    for (local_as, peer_as) in [(65001, 65001), (65001, 65002), (4200000001, 65002), (4200000001, 4200000001), (65001, 4200000002)]:
        for our_asn4, peer_asn4 in [(True, True), (True, False), (False, True)]:
            if peer_as > 65535 and not (peer_asn4 and our_asn4):
                continue  # the peer could not tell us its AS
            if local_as > 65535 and not our_asn4:
                continue
            for addpath in (False, True):
                for extnh in (False, True):
                    for extmsg in ((False, True) if (local_as, peer_as) == (65001, 65002) else (False,)):
                        out.append(dict(local_as=local_as, peer_as=peer_as, our_asn4=our_asn4, peer_asn4=peer_asn4, addpath=addpath,
                                        extnh=extnh, extmsg=extmsg, aigp=True))
    # AIGP capability off: one session
    out.append(dict(local_as=65001, peer_as=65001, our_asn4=True, peer_asn4=True, addpath=False, extnh=False, extmsg=False, aigp=False))
    return out


def session_text(s):
    return NEIGHBOR % dict(
        local_as=s['local_as'], peer_as=s['peer_as'], group='true',
        asn4='enable' if s['our_asn4'] else 'disable',
        addpath='add-path send;' if s['addpath'] else '',
        extnh='nexthop enable;' if s['extnh'] else '',
        extmsg='extended-message enable;' if s['extmsg'] else 'extended-message disable;',
        aigp='aigp enable;' if s['aigp'] else '',
        addpath_fam='add-path { ipv4 unicast; ipv6 unicast; ipv4 nlri-mpls; ipv4 mpls-vpn; }' if s['addpath'] else '',
        nexthop_fam='nexthop { ipv4 unicast ipv6; ipv4 nlri-mpls ipv6; ipv4 mpls-vpn ipv6; }' if s['extnh'] else '',
    )


ADDPATH_FAMS = [(1, 1), (2, 1), (1, 4), (1, 128)]


def peer_open(s):
    addpath = [(a, sa, 1) for a, sa in ADDPATH_FAMS] if s['addpath'] else None
    extnh = [(1, 1, 2), (1, 4, 2), (1, 128, 2)] if s['extnh'] else None
    return exa.peer_open_body(s['peer_as'], FAMILIES, asn4=s['peer_asn4'], addpath=addpath, ext_nh=extnh, ext_msg=s['extmsg'])


# ---------------------------------------------------------------------------------------------
# abstract routes
# ---------------------------------------------------------------------------------------------
P4 = [('0.0.0.0', 0), ('10.0.0.0', 8), ('10.1.2.0', 23), ('10.1.2.3', 32), ('192.168.1.128', 25)]
P6 = [('::', 0), ('2001:db8::', 32), ('2001:db8:1::', 49), ('2001:db8::1', 128)]
PIDS = [None, 0, 1, 2**32 - 1]
# a stack may hold the same value at two depths: the bottom of the stack is a position, not a value
LABELS = [(0,), (3,), (2**20 - 1,), (16, 17), (16, 16), (100, 200, 100)]
RDS = [('65000:1', wire.rd_type0(65000, 1)), ('1.2.3.4:5', wire.rd_type1('1.2.3.4', 5)), ('4200000000:9', wire.rd_type2(4200000000, 9))]

ATTR_ALPHABET = {
    'origin': ['igp', 'egp', 'incomplete'],
    'as-path': [[], [(2, [65010])], [(2, [65010, 65011, 65012])], [(2, [70000])], [(2, [65010, 70000]), (1, [65020, 65021])], [(2, list(range(64512, 64512 + 256)))]],
    'med': [0, 100, 2**32 - 1],
    'local-preference': [0, 200, 2**32 - 1],
    'atomic-aggregate': [True],
    'aggregator': [(65010, '10.9.8.7'), (70000, '10.9.8.7')],
    'community': [[(65000, 1)], [(65000, 1), (65000, 2), (0, 0), (65535, 65535)], ['no-export'], ['no-advertise', (1, 2)]],
    'large-community': [[(1, 2, 3)], [(4294967295, 0, 1), (1, 2, 3)]],
    'extended-community': [['target:65000:1'], ['origin:1.2.3.4:5', 'target:65000:1'], ['target:4200000000:7']],
    'originator-id': ['10.0.0.9'],
    'cluster-list': [['10.0.0.1'], ['10.0.0.1', '10.0.0.2', '10.0.0.3']],
    'aigp': [0, 100, 2**64 - 1],
    # the fourth asks for the Extended Length bit on a 4-octet value (legal: RFC 4271 4.3 only says when it MUST be used)
    'attribute': [(0x99, 0xC0, '0102'), (0x99, 0x80, ''), (0xF0, 0xC0, 'ab' * 300), (0x99, 0xD0, '00000064')],
}
WELLKNOWN_COMM = {'no-export': 0xFFFFFF01, 'no-advertise': 0xFFFFFF02, 'no-export-subconfed': 0xFFFFFF03}


def render_route(r) -> str:
    addr, mask = r['prefix']
    parts = [f'route {addr}/{mask}']
    if r.get('pid') is not None:
        parts.append(f'path-information {ipaddress.ip_address(r["pid"])}')
    parts.append('next-hop ' + r['nh'])
    if r.get('labels') is not None:
        parts.append('label [ ' + ' '.join(str(x) for x in r['labels']) + ' ]')
    if r.get('rd') is not None:
        parts.append('rd ' + r['rd'][0])
    for k, v in r['attrs'].items():
        parts.append(render_attr(k, v))
    return ' '.join(parts)


SAFI_WORD = {1: 'unicast', 2: 'multicast', 4: 'nlri-mpls', 128: 'mpls-vpn'}


def render_family(r) -> str:
    """the same route in the `announce <afi> <safi> <prefix> ...` grammar of the API"""
    addr, mask = r['prefix']
    parts = [f'ipv{4 if r["afi"] == 1 else 6} {SAFI_WORD[r["safi"]]} {addr}/{mask}']
    if r.get('pid') is not None:
        parts.append(f'path-information {ipaddress.ip_address(r["pid"])}')
    parts.append('next-hop ' + r['nh'])
    if r.get('rd') is not None:
        parts.append('rd ' + r['rd'][0])
    if r.get('labels') is not None:
        parts.append('label [ ' + ' '.join(str(x) for x in r['labels']) + ' ]')
    for k, v in r['attrs'].items():
        parts.append(render_attr(k, v))
    return ' '.join(parts)


def render_attr(k, v) -> str:
    if k == 'origin':
        return f'origin {v}'
    if k == 'as-path':
        if not v:
            return 'as-path [ ]'
        segs = []
        for t, asns in v:
            o, c = ('[', ']') if t == 2 else ('(', ')')
            segs.append(f'{o} ' + ' '.join(str(a) for a in asns) + f' {c}')
        return 'as-path ' + ' '.join(segs)
    if k in ('med', 'local-preference', 'aigp'):
        return f'{k} {v}'
    if k == 'atomic-aggregate':
        return 'atomic-aggregate'
    if k == 'aggregator':
        return f'aggregator ( {v[0]}:{v[1]} )'
    if k == 'community':
        return 'community [ ' + ' '.join(c if isinstance(c, str) else f'{c[0]}:{c[1]}' for c in v) + ' ]'
    if k == 'large-community':
        return 'large-community [ ' + ' '.join(f'{a}:{b}:{c}' for a, b, c in v) + ' ]'
    if k == 'extended-community':
        return 'extended-community [ ' + ' '.join(v) + ' ]'
    if k == 'originator-id':
        return f'originator-id {v}'
    if k == 'cluster-list':
        return 'cluster-list [ ' + ' '.join(v) + ' ]'
    if k == 'attribute':
        return f'attribute [ 0x{v[0]:02x} 0x{v[1]:02x} 0x{v[2]} ]'
    raise core.HarnessError(k)


def extcomm_bytes(text: str) -> str:
    kind, a, b = text.split(':')
    sub = {'target': 2, 'origin': 3}[kind]
    if '.' in a:
        return (bytes([0x01, sub]) + ipaddress.ip_address(a).packed + int(b).to_bytes(2, 'big')).hex()
    if int(a) > 65535:
        return (bytes([0x02, sub]) + int(a).to_bytes(4, 'big') + int(b).to_bytes(2, 'big')).hex()
    return (bytes([0x00, sub]) + int(a).to_bytes(2, 'big') + int(b).to_bytes(4, 'big')).hex()


def nlri_shapes(tier):
    """(afi, safi, prefix, pid, labels, rd)"""
    out = []
    for afi, plist in ((1, P4), (2, P6)):
        for p in plist:
            for pid in PIDS:
                out.append((afi, 1, p, pid, None, None))
        for p in plist[1:3]:
            for pid in PIDS[:3:2]:
                for lab in LABELS:
                    out.append((afi, 4, p, pid, lab, None))
        for p in plist[1:3]:
            for pid in PIDS[:3:2]:
                for lab in LABELS[1::2]:
                    for rd in RDS:
                        out.append((afi, 128, p, pid, lab, rd))
    return out


def nexthops(afi, session):
    if afi == 1:
        nh = ['10.255.0.1', 'self']
        if session['extnh']:
            nh.append('2001:db8:ffff::1')
        return nh
    # next-hop self on an IPv6 family needs an IPv6 transport session: not part of this alphabet (IPv4 sessions)
    return ['2001:db8:ffff::1']


def attr_sets(k):
    """default (no attribute) + every way to give <= k attributes a value from the alphabet."""
    keys = list(ATTR_ALPHABET)
    yield {}
    for n in range(1, k + 1):
        for ks in itertools.combinations(keys, n):
            for vals in itertools.product(*[range(len(ATTR_ALPHABET[x])) for x in ks]):
                yield {x: ATTR_ALPHABET[x][i] for x, i in zip(ks, vals)}


# ---------------------------------------------------------------------------------------------
# expectation (RFC rules, from the abstract route and the session only)
# ---------------------------------------------------------------------------------------------
def expected(r, s):
    ibgp = s['local_as'] == s['peer_as']
    asn4 = s['our_asn4'] and s['peer_asn4']
    a = r['attrs']
    exp = {}
    exp[wire.ORIGIN] = {'igp': 0, 'egp': 1, 'incomplete': 2}[a.get('origin', 'igp')]
    if 'as-path' in a:
        path = tuple((t, tuple(x)) for t, x in a['as-path'])
        exp['path'] = [wire.merge_segments(path)]
        if not ibgp:
            # tolerance: an operator-given path may be sent as given or with the local AS prepended
            exp['path'].append(wire.merge_segments(((2, (s['local_as'],)),) + path))
    else:
        exp['path'] = [()] if ibgp else [((2, (s['local_as'],)),)]
    if 'med' in a:
        exp[wire.MED] = a['med']
    if ibgp:
        exp[wire.LOCAL_PREF] = a.get('local-preference', 100)
    elif 'local-preference' in a:
        exp['lp_optional'] = a['local-preference']
    if 'atomic-aggregate' in a:
        exp[wire.ATOMIC_AGGREGATE] = True
    if 'aggregator' in a:
        exp['aggregator'] = a['aggregator']
    if 'community' in a:
        exp[wire.COMMUNITIES] = tuple(sorted(WELLKNOWN_COMM[c] if isinstance(c, str) else (c[0] << 16) | c[1] for c in a['community']))
    if 'large-community' in a:
        exp[wire.LARGE_COMMUNITIES] = tuple(sorted(tuple(c) for c in a['large-community']))
    if 'extended-community' in a:
        exp[wire.EXT_COMMUNITIES] = tuple(sorted(extcomm_bytes(c) for c in a['extended-community']))
    if 'originator-id' in a:
        exp[wire.ORIGINATOR_ID] = a['originator-id']
    if 'cluster-list' in a:
        exp[wire.CLUSTER_LIST] = tuple(a['cluster-list'])
    if 'aigp' in a:
        exp['aigp'] = a['aigp']
    if 'attribute' in a:
        exp['generic'] = a['attribute']
    return exp, asn4, ibgp


def compare(r, s, msgs):
    """-> list of (signature, what)"""
    viols = []
    exp, asn4, ibgp = expected(r, s)
    afi, safi = r['afi'], r['safi']
    ap = set(ADDPATH_FAMS) if s['addpath'] else set()
    table = {}
    seen_updates = []
    for mtype, body in msgs:
        if mtype != wire.UPDATE:
            viols.append(('non-update-emitted', f'message type {mtype} emitted for an announce'))
            continue
        try:
            u = wire.decode_update(body, asn4=asn4, addpath=ap)
        except wire.RefError as e:
            viols.append((f'undecodable:{e.code}/{e.subcode}', f'reference decoder refused the emitted UPDATE: {e}'))
            return viols
        seen_updates.append(u)
    if not seen_updates:
        viols.append(('nothing-emitted', 'no UPDATE was generated for the route'))
        return viols
    nl = []
    for u in seen_updates:
        if u['withdrawn'] or u['mp_unreach']:
            viols.append(('withdraw-in-announce', 'the UPDATE for an announce carries withdrawn routes'))
        nh_attr = u['attrs'].get(wire.NEXT_HOP)
        for n in u['nlri']:
            nl.append((n, nh_attr, u))
        for mafi, msafi, mnh, nlris in u['mp_reach']:
            for n in nlris:
                nl.append((n, mnh, u))
    want_pid = (r.get('pid') or 0) if (afi, safi) in ap else None
    want_nlri = wire.nlri_ip(afi, safi, r['prefix'][0], r['prefix'][1], want_pid, r.get('labels'), r['rd'][1] if r.get('rd') else None)
    want_nh = r['nh']
    if want_nh == 'self':
        want_nh = LOCAL_ADDR4 if afi == 1 else None
    got_keys = [wire.nlri_key(n) for n, _, _ in nl]
    if len(nl) != 1:
        viols.append((f'nlri-count:{len(nl)}', f'expected exactly one NLRI, got {[wire.nlri_str(n) for n, _, _ in nl]}'))
    for n, nh, u in nl:
        if wire.nlri_key(n) != wire.nlri_key(want_nlri) or n[:2] != want_nlri[:2]:
            field = 'path-id' if n[2] != want_nlri[2] else ('rd' if n[4] != want_nlri[4] else 'prefix')
            viols.append((f'nlri-{field}:{afi}/{safi}', f'NLRI on the wire {wire.nlri_str(n)} != requested {wire.nlri_str(want_nlri)}'))
        elif n[3] != want_nlri[3]:
            viols.append((f'nlri-labels:{afi}/{safi}', f'labels on the wire {n[3]} != requested {want_nlri[3]}'))
        if want_nh is None:
            # next-hop self on an IPv6 family over an IPv4 session: the statement says "the local address of that session";
            # an IPv4-mapped or the IPv4 local address are both that address
            ok = nh is not None
        else:
            ok = nh is not None and ipaddress.ip_address(nh.split('+')[0]) == ipaddress.ip_address(want_nh)
        if not ok:
            viols.append((f'nexthop:{afi}/{safi}:{"self" if r["nh"] == "self" else "given"}', f'next hop on the wire {nh} != requested {r["nh"]} ({want_nh})'))
        viols += compare_attrs(exp, u, asn4, ibgp, s)
    return viols


def compare_attrs(exp, u, asn4, ibgp, s):
    viols = []
    got = dict(u['attrs'])
    raw = {code: (flags, val) for flags, code, val in u['raw_attrs']}
    if got.pop(wire.ORIGIN, None) != exp[wire.ORIGIN]:
        viols.append(('attr:origin', f'ORIGIN {u["attrs"].get(wire.ORIGIN)} != {exp[wire.ORIGIN]}'))
    # AS path (RFC 6793 reconstruction when the session is 2-byte)
    as_path = got.pop(wire.AS_PATH, None)
    as4_path = got.pop(wire.AS4_PATH, None)
    if as_path is None:
        viols.append(('attr:as-path-missing', 'no AS_PATH attribute'))
    else:
        if asn4:
            eff = [wire.merge_segments(as_path)]
            if as4_path is not None:
                viols.append(('attr:as4-path-on-asn4-session', 'AS4_PATH sent on a 4-byte session'))
        else:
            eff = [wire.merge_as4(as_path, as4_path, 'length'), wire.merge_as4(as_path, as4_path, 'asn')]
            big = any(x > 65535 for p in exp['path'][:1] for _, xs in p for x in xs)
            flat2 = [x for _, xs in as_path for x in xs]
            if big and as4_path is None:
                viols.append(('attr:as4-path-missing', f'AS > 65535 towards a 2-byte peer but no AS4_PATH (AS_PATH {as_path})'))
            if big and wire.AS_TRANS not in flat2:
                viols.append(('attr:as-trans-missing', f'AS > 65535 towards a 2-byte peer but AS_PATH {as_path} has no AS_TRANS'))
        if not any(e in exp['path'] for e in eff):
            viols.append((f'attr:as-path:{"ibgp" if ibgp else "ebgp"}:{"asn4" if asn4 else "asn2"}', f'effective AS path {eff[0]} not in {exp["path"]}'))
    # next hop attribute itself is checked with the NLRI
    got.pop(wire.NEXT_HOP, None)
    if wire.MED in exp:
        if got.pop(wire.MED, None) != exp[wire.MED]:
            viols.append(('attr:med', f'MED {u["attrs"].get(wire.MED)} != {exp[wire.MED]}'))
    lp = got.pop(wire.LOCAL_PREF, None)
    if ibgp:
        if lp != exp[wire.LOCAL_PREF]:
            viols.append(('attr:local-pref:ibgp', f'LOCAL_PREF {lp} != {exp[wire.LOCAL_PREF]}'))
    else:
        if lp is not None and lp != exp.get('lp_optional', object()):
            viols.append(('attr:local-pref:ebgp', f'LOCAL_PREF {lp} sent on an eBGP session'))
    if (got.pop(wire.ATOMIC_AGGREGATE, None) is True) != (wire.ATOMIC_AGGREGATE in exp):
        viols.append(('attr:atomic-aggregate', 'ATOMIC_AGGREGATE presence differs from the request'))
    agg = got.pop(wire.AGGREGATOR, None)
    agg4 = got.pop(wire.AS4_AGGREGATOR, None)
    if 'aggregator' in exp:
        want = tuple(exp['aggregator'])
        eff = agg
        if not asn4 and agg is not None and agg[0] == wire.AS_TRANS and agg4 is not None:
            eff = agg4
        if eff is None or tuple(eff) != want:
            viols.append((f'attr:aggregator:{"asn4" if asn4 else "asn2"}', f'AGGREGATOR {agg} / AS4_AGGREGATOR {agg4} != {want}'))
    elif agg is not None or agg4 is not None:
        viols.append(('attr:aggregator-invented', 'AGGREGATOR not requested'))
    for code, name in ((wire.COMMUNITIES, 'community'), (wire.LARGE_COMMUNITIES, 'large-community'), (wire.EXT_COMMUNITIES, 'extended-community')):
        g = got.pop(code, None)
        if code in exp:
            if g is None or tuple(sorted(g)) != exp[code]:
                viols.append((f'attr:{name}', f'{name} {g} != {exp[code]}'))
        elif g is not None:
            viols.append((f'attr:{name}-invented', f'{name} not requested'))
    for code, name in ((wire.ORIGINATOR_ID, 'originator-id'), (wire.CLUSTER_LIST, 'cluster-list')):
        g = got.pop(code, None)
        if code in exp:
            if g != exp[code]:
                viols.append((f'attr:{name}', f'{name} {g} != {exp[code]}'))
        elif g is not None:
            viols.append((f'attr:{name}-invented', f'{name} not requested'))
    g = got.pop(wire.AIGP, None)
    if 'aigp' in exp:
        if s['aigp']:
            if g != exp['aigp']:
                viols.append(('attr:aigp', f'AIGP {g} != {exp["aigp"]}'))
        elif g is not None and g != exp['aigp']:
            viols.append(('attr:aigp', f'AIGP {g} != {exp["aigp"]}'))
    elif g is not None:
        viols.append(('attr:aigp-invented', 'AIGP not requested'))
    if 'generic' in exp:
        code, flags, data = exp['generic']
        gotg = got.pop(code, None)
        rflags = raw.get(code, (None, None))[0]
        if gotg != data or (rflags is not None and (rflags & 0xE0) != (flags & 0xE0)):
            viols.append(('attr:generic', f'generic attribute {code:#x}: value/flags on the wire {str(gotg)[:40]}/{rflags} != {data[:40]}/{flags:#x}'))
    if got:
        viols.append((f'attr:invented:{sorted(got)}', f'attributes not requested on the wire: {sorted(got)}'))
    return viols


# ---------------------------------------------------------------------------------------------
# driving the implementation
# ---------------------------------------------------------------------------------------------
_S = {}


def get_session(idx, s):
    if idx in _S:
        return _S[idx]
    from exabgp.configuration.configuration import Configuration
    from exabgp.reactor.api import API

    exa.reset_process_state()
    cfg, neighbor = exa.neighbor_from_text(session_text(s))
    neg = exa.negotiated_for(neighbor, peer_open(s))
    api = API.__new__(API)
    api.configuration = Configuration([])
    api.reactor = None
    # a second neighbor of the same daemon with another local address: an API command that matches several peers
    # hands the same parsed route to every one of them (Configuration.announce_route)
    _cfg2, other = exa.neighbor_from_text(session_text(s).replace('neighbor 127.0.0.2 {', 'neighbor 127.0.0.3 {').replace('local-address 127.0.0.1;', f'local-address {OTHER_LOCAL};'))
    _S[idx] = (neighbor, neg, api, other)
    return _S[idx]


OTHER_LOCAL = '127.0.0.9'


def emit(neighbor, neg, api, text, via='api', others_first=(), others_after=(), fam=None):
    """text -> bytes through the real code path. Returns (messages, error-string or None).
    others_first / others_after: neighbors of the same daemon the command matches as well; they are served the same
    parsed route objects before / after the neighbor under observation."""
    from exabgp.rib.outgoing import OutgoingRIB

    if fam is None:
        routes = api.api_route(text, 'announce')
    else:
        try:
            routes = (api.api_announce_v4 if fam == 1 else api.api_announce_v6)(text, 'announce')
        except ValueError:
            routes = []   # the refusal of this grammar
    if not routes:
        return None, 'refused'
    for o in others_first:
        orib = OutgoingRIB(True, o.rib.outgoing.families)
        for route in routes:
            orib.add_to_rib(o.resolve_self(route))
    rib = OutgoingRIB(True, neighbor.rib.outgoing.families)
    for route in routes:
        rib.add_to_rib(neighbor.resolve_self(route))
    for o in others_after:
        orib = OutgoingRIB(True, o.rib.outgoing.families)
        for route in routes:
            orib.add_to_rib(o.resolve_self(route))
    out = []
    for upd in rib.updates(neighbor.group_updates):
        for raw in upd.messages(neg, True):
            msgs, err, rest = wire.split_stream(bytes(raw), neg.msg_size)
            if err or rest:
                return None, f'unframed {err}'
            out += msgs
    return out, None


def emit_config(s, text):
    """The same route through the configuration-file path: a full neighbor section holding the route."""
    from exabgp.rib.outgoing import OutgoingRIB

    exa.reset_process_state()
    cfg_text = session_text(s).rstrip()
    assert cfg_text.endswith('}')
    cfg_text = cfg_text[:-1] + '  static {\n    ' + text + ';\n  }\n}\n'
    cfg, ok = exa.parse_config(cfg_text)
    if not ok:
        return None, 'refused'
    (neighbor,) = list(cfg.neighbors.values())
    neg = exa.negotiated_for(neighbor, peer_open(s))
    rib = OutgoingRIB(True, neighbor.rib.outgoing.families)
    for route in neighbor.routes:
        rib.add_to_rib(neighbor.resolve_self(route))
    out = []
    for upd in rib.updates(neighbor.group_updates):
        for raw in upd.messages(neg, True):
            msgs, err, rest = wire.split_stream(bytes(raw), neg.msg_size)
            if err or rest:
                return None, f'unframed {err}'
            out += msgs
    return out, None


def run_case(sidx, s, r, via='api'):
    text = render_family(r) if via == 'fam' else render_route(r)
    try:
        if via == 'config':
            msgs, err = emit_config(s, text)
        else:
            neighbor, neg, api, other = get_session(sidx, s)
            if via == 'api-multi-first':
                msgs, err = emit(neighbor, neg, api, text, others_first=(other,))
            elif via == 'api-multi-after':
                msgs, err = emit(neighbor, neg, api, text, others_after=(other,))
            elif via == 'fam':
                msgs, err = emit(neighbor, neg, api, text, fam=r['afi'])
            else:
                msgs, err = emit(neighbor, neg, api, text)
    except Exception as e:  # noqa: BLE001
        return [(f'exception:{type(e).__name__}:{_kw(r)}', f'{type(e).__name__}: {e} for "{text}"')], text
    if err == 'refused':
        return [(f'refused:{via}:{_kw(r)}', f'well-formed route text refused ({via} path): "{text}"')], text
    if err:
        return [('unframed', err)], text
    return [(sig + _ctx(sig, r, s), what + f'  [route "{text[:200]}" session {s}]') for sig, what in compare(r, s, msgs)], text


def _kw(r):
    big = 'as>65535' if any(x > 65535 for t, xs in r['attrs'].get('as-path', []) for x in xs) else ''
    return ','.join(sorted(r['attrs'])) + big


def _ctx(sig, r, s):
    return ''


def worker(args):
    tier, shard, nshards = args
    res = {'exec': 0, 'viol': {}, 'outcomes': set(), 'nontrivial': 0, 'samples': []}
    sess = sessions(tier)
    shapes = nlri_shapes(tier)
    k_all = 1
    k_core = 2 if tier == 'quick' else 3
    core_shapes = {(1, 1, P4[1], None), (2, 1, P6[1], 1), (1, 4, P4[1], None), (1, 128, P4[1], None), (2, 128, P6[1], None)}
    idx = 0
    for sidx, s in enumerate(sess):
        for shape in shapes:
            afi, safi, p, pid, lab, rd = shape
            is_core = (afi, safi, p, pid) in core_shapes and (lab in (None, LABELS[1])) and (rd in (None, RDS[0]))
            for nh in nexthops(afi, s):
                for attrs in attr_sets(k_core if is_core and nh != 'self' else k_all):
                    idx += 1
                    if idx % nshards != shard:
                        continue
                    r = dict(afi=afi, safi=safi, prefix=p, pid=pid, labels=lab, rd=rd, nh=nh, attrs=attrs)
                    viols, text = run_case(sidx, s, r)
                    res['exec'] += 1
                    if attrs:
                        res['nontrivial'] += 1
                    res['outcomes'].add((afi, safi, pid is not None, nh == 'self', tuple(sorted(attrs)), s['local_as'] == s['peer_as'], s['our_asn4'] and s['peer_asn4'], s['addpath']))
                    for sig, what in viols:
                        v = res['viol'].get(sig)
                        case = {'session': s, 'route': _jsonable(r)}
                        if v is None or len(what) < len(v[0]):
                            res['viol'][sig] = (what, case, (v[2] if v else 0) + 1)
                        else:
                            res['viol'][sig] = (v[0], v[1], v[2] + 1)
                    if len(res['samples']) < 1 and attrs and shard == 0:
                        res['samples'].append({'text': text, 'session': s})
                    if nh == 'self':
                        # the same command matching two neighbors with different local addresses, in both orders
                        for via in ('api-multi-first', 'api-multi-after'):
                            viols, text = run_case(sidx, s, r, via=via)
                            res['exec'] += 1
                            res['multi_neighbor'] = res.get('multi_neighbor', 0) + 1
                            for sig, what in viols:
                                sig = 'multi-neighbor:' + sig
                                v = res['viol'].get(sig)
                                case = {'session': s, 'route': _jsonable(r), 'via': via}
                                what = what + f' [{via}: another neighbor with local address {OTHER_LOCAL} served the same command]'
                                res['viol'][sig] = (what, case, 1) if v is None else (v[0], v[1], v[2] + 1)
    # configuration-file path: the core shapes, no attribute and every single attribute deviation
    for sidx, s in enumerate(sess):
        if sidx % 4:
            continue  # the configuration path re-parses a whole file per case: every fourth session
        for (afi, safi, p, pid) in sorted(core_shapes, key=repr):
            lab = None if safi == 1 else LABELS[1]
            rd = RDS[0] if safi == 128 else None
            for nh in nexthops(afi, s)[:1]:
                for attrs in attr_sets(1):
                    idx += 1
                    if idx % nshards != shard:
                        continue
                    r = dict(afi=afi, safi=safi, prefix=p, pid=pid, labels=lab, rd=rd, nh=nh, attrs=attrs)
                    viols, text = run_case(sidx, s, r, via='config')
                    res['exec'] += 1
                    res['config_path'] = res.get('config_path', 0) + 1
                    for sig, what in viols:
                        sig = sig if sig.startswith('refused:') else 'config:' + sig
                        v = res['viol'].get(sig)
                        case = {'session': s, 'route': _jsonable(r), 'via': 'config'}
                        res['viol'][sig] = (what, case, 1) if v is None else (v[0], v[1], v[2] + 1)
    # the `announce <afi> <safi> ...` grammar of the API: every NLRI shape, no attribute and every single attribute
    # deviation (core shapes: every pair), every other session
    for sidx, s in enumerate(sess):
        if sidx % 2:
            continue
        for shape in shapes:
            afi, safi, p, pid, lab, rd = shape
            is_core = (afi, safi, p, pid) in core_shapes and (lab in (None, LABELS[1])) and (rd in (None, RDS[0]))
            for nh in nexthops(afi, s)[:2]:
                for attrs in attr_sets(2 if is_core and nh != 'self' else 1):
                    idx += 1
                    if idx % nshards != shard:
                        continue
                    r = dict(afi=afi, safi=safi, prefix=p, pid=pid, labels=lab, rd=rd, nh=nh, attrs=attrs)
                    viols, text = run_case(sidx, s, r, via='fam')
                    res['exec'] += 1
                    res['family_grammar'] = res.get('family_grammar', 0) + 1
                    for sig, what in viols:
                        sig = 'fam:' + sig
                        v = res['viol'].get(sig)
                        case = {'session': s, 'route': _jsonable(r), 'via': 'fam'}
                        res['viol'][sig] = (what, case, 1) if v is None else (v[0], v[1], v[2] + 1)
    _S.clear()
    res['outcomes'] = list(res['outcomes'])
    return res


def _jsonable(r):
    d = dict(r)
    d['prefix'] = list(r['prefix'])
    d['labels'] = list(r['labels']) if r['labels'] is not None else None
    d['rd'] = [r['rd'][0], r['rd'][1].hex()] if r['rd'] is not None else None
    d['attrs'] = {k: v for k, v in r['attrs'].items()}
    return d


def _from_json(d):
    r = dict(d)
    r['prefix'] = tuple(d['prefix'])
    r['labels'] = tuple(d['labels']) if d['labels'] is not None else None
    r['rd'] = (d['rd'][0], bytes.fromhex(d['rd'][1])) if d['rd'] is not None else None
    attrs = {}
    for k, v in d['attrs'].items():
        if k == 'as-path':
            v = [(t, list(x)) for t, x in v]
        elif k == 'community':
            v = [c if isinstance(c, str) else tuple(c) for c in v]
        elif k == 'large-community':
            v = [tuple(c) for c in v]
        elif k in ('aggregator', 'attribute'):
            v = tuple(v)
        attrs[k] = v
    r['attrs'] = attrs
    return r


def run(ctx: core.Ctx) -> None:
    sess = sessions(ctx.tier)
    ctx.rule = (f'{len(sess)} negotiated sessions (iBGP/eBGP x 2-/4-byte local and peer AS x ASN4 on either side x ADD-PATH send x extended next hop x 4096/65535 x AIGP) '
                f'x {len(nlri_shapes(ctx.tier))} NLRI shapes (unicast/labeled/VPN, IPv4/IPv6, boundary masks, 4 path ids, 6 label stacks, 3 RD types) x next hops (address, self, IPv6 for IPv4 when negotiated) '
                f'x attribute sets: default + every <=1 attribute deviation for all shapes, <= {2 if ctx.tier == "quick" else 3} simultaneous deviations for 5 core shapes, over a {sum(len(v) for v in ATTR_ALPHABET.values())}-value alphabet of 13 keywords; '
                'the same through the configuration-file path (core shapes, every fourth session) and through the `announce <afi> <safi>` grammar of the API (every shape, every other session, single deviations; pairs for core shapes); non-trivial = at least one attribute given')
    ctx.assumptions += ['reference decoder vt/ref/wire.py', 'text rendered by vt/checks/c01.render_route from the abstract route', 'tolerances of DESIGN.md 4.x (attribute order, LOCAL_PREF given on eBGP, as-path sent as given, AIGP only when enabled)']
    nshards = 256
    pool = mp.Pool(min(16, os.cpu_count() or 1))
    outcomes = set()
    try:
        for res in pool.imap_unordered(worker, [(ctx.tier, i, nshards) for i in range(nshards)]):
            ctx.count('executions', res['exec'])
            ctx.count('nontrivial', res['nontrivial'])
            ctx.count('config_path_cases', res.get('config_path', 0))
            ctx.count('multi_neighbor_cases', res.get('multi_neighbor', 0))
            ctx.count('family_grammar_cases', res.get('family_grammar', 0))
            outcomes.update(res['outcomes'])
            for smp in res['samples']:
                ctx.sample(smp)
            for sig, (what, case, n) in res['viol'].items():
                for _ in range(1):
                    ctx.violation(sig, what, case)
                ctx.viol[sig]['count'] += n - 1
    finally:
        pool.close()
        pool.join()
    ctx.counters['states'] = len(outcomes)
    ctx.counters['transitions'] = ctx.counters.get('executions', 0)


def replay(case):
    s = case['session']
    r = _from_json(case['route'])
    via = case.get('via', 'api')
    viols, text = run_case(0, s, r, via=via)
    if via.startswith('api-multi'):
        return [{'signature': 'multi-neighbor:' + sig, 'what': what} for sig, what in viols]
    if via == 'fam':
        return [{'signature': 'fam:' + sig, 'what': what} for sig, what in viols]
    return [{'signature': sig if (via == 'api' or sig.startswith('refused:')) else 'config:' + sig, 'what': what} for sig, what in viols]
