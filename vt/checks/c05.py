"""C05 - Session state machine only takes RFC 4271 transitions.   E-dev on the full reactor.

Every execution of the default session script with at most k deviations (faults, unexpected or malformed
messages, timer jumps, inbound connections, API teardown, reload, shutdown) is run on the real reactor in
the virtual world; five monitors are evaluated on the whole trace.
"""

from __future__ import annotations

import errno
import json
import multiprocessing as mp
import os

from vt import core
from vt.ref import wire
from vt.world import edev

PROPERTY = 'C05'

# RFC 4271 8.2.2 transition relation (from -> allowed to)
RFC = {
    'IDLE': {'IDLE', 'CONNECT', 'ACTIVE'},
    'CONNECT': {'CONNECT', 'ACTIVE', 'OPENSENT', 'OPENCONFIRM', 'IDLE'},
    'ACTIVE': {'ACTIVE', 'CONNECT', 'OPENSENT', 'OPENCONFIRM', 'IDLE'},
    'OPENSENT': {'OPENSENT', 'ACTIVE', 'OPENCONFIRM', 'IDLE'},
    'OPENCONFIRM': {'OPENCONFIRM', 'ESTABLISHED', 'IDLE'},
    'ESTABLISHED': {'ESTABLISHED', 'IDLE'},
}

SCRIPT = [
    ('update', edev.upd_announce(('192.0.2.0', 24))),
    ('api', b'peer * announce route 10.1.0.0/24 next-hop 2.2.2.2\n'),
    ('update', edev.upd_announce(('198.51.100.0', 24))),
    # a well-behaved peer closes its initial table with an End-of-RIB marker per family (RFC 4724 2)
    ('update', bytes(4)),
    ('update', wire.encode_update(attrs=[wire.encode_attr(wire.MP_UNREACH, wire.encode_mp_unreach(2, 1, [], False))])),
]

CONFIGS = {
    'active': dict(cfg=dict(hold=9), world_env={}),
    'attempts1': dict(cfg=dict(hold=9), world_env={'tcp.attempts': 1}),
    'gr': dict(cfg=dict(hold=9, caps='graceful-restart 120;'), world_env={}),
    'passive': dict(cfg=dict(hold=9, extra='passive true;'), world_env={'bgp.passive': True}, passive=True),
    # the neighbor alone is passive (the daemon-wide switch is off): it never opens a connection itself, before or after a session
    'passiven': dict(cfg=dict(hold=9, extra='passive true;'), world_env={}, passive=True),
    # the peer's OPEN carries Hold Time 0 (RFC 4271 4.2: legal, no timers): nothing but the KEEPALIVE itself
    # stands between OPENCONFIRM and ESTABLISHED
    'hold0': dict(cfg=dict(hold=9), world_env={}, remote_hold=0),
    'hold0local': dict(cfg=dict(hold=0), world_env={}),
}

# a second neighbor, written before the first one (the "reload:remove" deviation cuts the file at the first one's section)
SECOND = """
neighbor 127.0.0.3 {
  router-id 1.2.3.4;
  local-address 127.0.0.1;
  local-as 65001;
  peer-as 65003;
  hold-time 9;
  capability { route-refresh enable; }
  api { processes [ api ]; neighbor-changes; }
  family { ipv4 unicast; ipv6 unicast; }
  static { route 10.3.0.0/24 next-hop 1.1.1.1; }
}
"""
CONFIGS['two'] = dict(cfg=dict(hold=9), world_env={}, second=True)
# local-as auto: ExaBGP takes its AS from the peer's OPEN, which it therefore reads before it sends its own
CONFIGS['mirror'] = dict(cfg=dict(hold=9), world_env={}, mirror=True)


def config_text(config_name, **over):
    conf = CONFIGS[config_name]
    kw = dict(conf['cfg'])
    kw.update(over)
    text = edev.base_config(**kw)
    if conf.get('mirror'):
        text = text.replace('local-as 65001;', 'local-as auto;')
    if conf.get('second'):
        head, sep, tail = text.partition('neighbor 127.0.0.2 {')
        text = head + SECOND + sep + tail
    return text


RELOAD_CHANGED_ROUTES = 'route 10.0.9.0/24 next-hop 1.1.1.1;'


class Env(edev.Env):
    def __init__(self, w, config_name='active', **kw):
        super().__init__(w, **kw)
        self.config_name = config_name
        self.fed: dict[int, list] = {}  # socket index -> [(time, what)]
        if CONFIGS[config_name].get('mirror'):
            self.speaks_first = True
        if CONFIGS[config_name].get('second'):
            self.multi = True
            self.primary = '127.0.0.2'
            self.remote_by_address = {'127.0.0.3': dict(asn=65003, router_id='9.9.9.8')}

    def menu(self):
        out = []
        default = self.default_action()
        name, _, arg = default.partition(':')
        if name == 'connect-ok' and (not self.multi or self.w.sockets[int(arg)].remote[0] == '127.0.0.2'):
            out.append(f'connect-refused:{arg}')
        s = self.current()
        passive = bool(CONFIGS[self.config_name].get('passive'))
        if s is not None and s.connected and not s.closed:
            out += ['eof', 'rst', 'epipe']
            for m in ('open', 'update', 'keepalive', 'notification', 'refresh', 'badtype'):
                # the message the script would send anyway is not a deviation
                if m == name:
                    continue
                out.append(f'msg:{m}')
            out += ['hdr:marker', 'hdr:short', 'hdr:long']
            if name == 'open':
                out += ['badopen:version', 'badopen:as', 'badopen:hold1', 'badopen:rid0']
            out += ['jump:hold']
        if self.peer() is not None:
            out += ['incoming:low', 'incoming:high', 'api:teardown', 'reload:same', 'reload:changed', 'reload:remove', 'shutdown']
        elif getattr(self, 'removed', False):
            # the neighbor was taken out of the configuration by an earlier reload: put it back
            out += ['reload:restore']
        return out

    def do(self, action):
        super().do(action)

    def _feed(self, s, data, what):
        self.fed.setdefault(s.index, []).append((round(self.w.clock.now - edev.EPOCH, 3), what))
        s.feed(data)

    def deviate(self, name, arg):
        w = self.w
        s = self.current()
        if name == 'eof':
            s.feed('EOF')
        elif name == 'rst':
            s.feed(OSError(errno.ECONNRESET, 'reset'))
        elif name == 'epipe':
            s.send_error = OSError(errno.EPIPE, 'broken pipe')
        elif name == 'msg':
            r = self.remote(s)
            if arg == 'open':
                r.send_open()
            elif arg == 'update':
                r.send(wire.UPDATE, edev.upd_announce(('203.0.113.0', 24)))
            elif arg == 'keepalive':
                r.send_keepalive()
            elif arg == 'notification':
                r.send(wire.NOTIFICATION, wire.encode_notification(6, 2))
            elif arg == 'refresh':
                r.send(wire.ROUTE_REFRESH, wire.encode_route_refresh(1, 1))
            elif arg == 'badtype':
                s.feed(edev.bad_type())
        elif name == 'hdr':
            s.feed({'marker': edev.bad_marker(), 'short': edev.bad_length_short(), 'long': edev.bad_length_long()}[arg])
        elif name == 'badopen':
            r = self.remote(s)
            body = bytearray(r.open_body())
            if arg == 'version':
                body[0] = 3
            elif arg == 'as':
                body[1:3] = (65009).to_bytes(2, 'big')
                # keep the ASN4 capability consistent with the 2-byte field
                body = bytearray(wire.encode_open(65009, r.hold, r.router_id, [wire.cap_mp(1, 1), wire.cap_mp(2, 1), wire.cap_asn4(65009), (wire.CAP_RR, b'')]))
            elif arg == 'hold1':
                body[3:5] = (1).to_bytes(2, 'big')
            elif arg == 'rid0':
                body[5:9] = bytes(4)
            r.send(wire.OPEN, bytes(body))
            self.sent_open.add(s.index)
        elif name == 'jump':
            if self.multi:
                # only the first neighbor's remote falls silent: the others keep sending their KEEPALIVEs
                left = self.hold + 3.5
                while left > 0:
                    for x in self.live_sockets():
                        if x is s or x.closed or not x.connected:
                            continue
                        types = self.remote(x).received_types()
                        if wire.OPEN in types and x.index not in self.sent_open:
                            self.remote(x).send_open()
                            self.sent_open.add(x.index)
                            self.injected.append((self.step, f'open:{x.index}', round(w.clock.now - edev.EPOCH, 3), x.index, '?'))
                        elif wire.KEEPALIVE in types and x.index in self.sent_open:
                            self.remote(x).send_keepalive()
                            if x.index not in self.sent_ka:
                                self.injected.append((self.step, f'keepalive:{x.index}', round(w.clock.now - edev.EPOCH, 3), x.index, '?'))
                            self.sent_ka.add(x.index)
                        self.last_remote_tx[x.index] = w.clock.now
                    w.settle()
                    w.advance(min(1.0, left))
                    left -= 1.0
            else:
                w.advance(self.hold + 3.5)
        elif name == 'incoming':
            ns = w.incoming()
            rid = '1.2.3.3' if arg == 'low' else '9.9.9.9'
            self.remotes[ns.index] = edev.Remote(w, ns, hold=self.hold, families=((1, 1), (2, 1)), router_id=rid)
        elif name == 'api':
            w.api_write(b'peer 127.0.0.2 teardown 2\n' if self.multi else b'peer * teardown 2\n')
        elif name == 'reload':
            if arg == 'changed':
                w.set_config(config_text(self.config_name, routes=RELOAD_CHANGED_ROUTES))
            elif arg == 'remove':
                # the same file without its neighbor section
                text = config_text(self.config_name)
                w.set_config(text[:text.index('neighbor 127.0.0.2 {')])
                self.removed = True
            elif arg == 'restore':
                w.set_config(config_text(self.config_name))
                self.removed = False
            w.signal('RELOAD')
        elif name == 'shutdown':
            w.signal('SHUTDOWN')
        else:
            raise core.HarnessError(f'unknown deviation {name}')

    # a well-behaved remote answers on whichever connection the peer owns: record what was fed
    def remote(self, sock):
        r = super().remote(sock)
        return r


def run_one(args):
    (config_name, steps), choices = args
    conf = CONFIGS[config_name]
    cfg = config_text(config_name)
    summary, tr = edev.run(Env, cfg, choices, steps, env_kwargs=dict(config_name=config_name, hold=conf.get('remote_hold', 9), script=SCRIPT), world_env=conf['world_env'])
    viols = monitors(summary)
    if conf.get('passive'):
        out = [s for s in summary['sockets'] if s['kind'] == 'out']
        if out:
            viols.append(('passive-neighbor-connects-out', f'the neighbor is configured passive but ExaBGP opened connection {out[0]["index"]} to it itself'))
    if conf.get('second'):
        viols += bystander(summary, choices)
    outcome = (tuple(p['fsm'] for p in summary['peers']), tuple(len(s['tx']) for s in summary['sockets']), tuple(s['closed'] for s in summary['sockets']))
    return (viols, outcome, tr.steps, summary['end']), tr.menus


def monitors(sm: dict) -> list:
    viols = []
    # (1) transitions inside the RFC relation
    for t, owned, a, b in sm['fsm_log']:
        if b not in RFC.get(a, ()):
            viols.append((f'fsm-transition:{a}->{b}', f'FSM went {a} -> {b} at t={t}, not an RFC 4271 transition'))
    # (2) establishment only after OPEN sent, OPEN received, KEEPALIVE received on that connection
    socks = {s['index']: s for s in sm['sockets']}
    for t, owned, a, b in sm['fsm_log']:
        if b == 'ESTABLISHED' and a != 'ESTABLISHED':
            s = socks.get(owned)
            if s is None:
                viols.append(('established-without-connection', f'ESTABLISHED at t={t} without an owned connection'))
                continue
            sent_types = [m[2] for m in s['tx'] if m[0] <= t]
            fed = [(a2, arg) for st, a2, tt, idx, f in sm['injected'] if idx == owned and tt <= t for arg in [a2]]
            fed_names = [a2.split(':')[0] + ':' + a2.split(':')[1] if a2.startswith(('msg:', 'badopen:')) else a2.split(':')[0] for a2, _ in fed]
            got_open = any(n in ('open', 'msg:open') for n in fed_names)
            got_ka = any(n in ('keepalive', 'msg:keepalive') for n in fed_names)
            if wire.OPEN not in sent_types:
                viols.append(('established-before-open-sent', f'ESTABLISHED at t={t} before our OPEN was written on that connection'))
            if not got_open:
                viols.append(('established-without-peer-open', f'ESTABLISHED at t={t} although the peer never sent an OPEN on connection {owned}'))
            if not got_ka:
                viols.append(('established-without-keepalive', f'ESTABLISHED at t={t} although the peer never sent a KEEPALIVE on connection {owned}'))
            if any(n.startswith('badopen') for n in fed_names) and not any(n in ('open', 'msg:open') for n in fed_names):
                viols.append(('established-after-invalid-open', f'ESTABLISHED at t={t} after an OPEN that must be refused'))
    # (3) UPDATE / EOR / ROUTE-REFRESH only in ESTABLISHED
    for s in sm['sockets']:
        for t, st, mtype, body in s['tx']:
            if mtype in (wire.UPDATE, wire.ROUTE_REFRESH) and st != 'ESTABLISHED':
                viols.append((f'wire-in-state:{mtype}:{st}', f'message type {mtype} written at t={t} while the session state was {st}'))
        # (3b) RFC 4271 8.2.2: the first message a speaker writes on a connection is its OPEN, the Cease with which it refuses the connection, or
        # the answer to something malformed it read there.
        if s['tx']:
            t0, st0, m0, b0 = s['tx'][0]
            # (a session that reads the OPEN of the peer first - local-as auto - answers what it reads before its own OPEN: errors 1/x, 2/x, 5/1 are
            # legitimate first messages there; a Hold Timer Expired never is: no hold time runs on a connection before the OPENs are exchanged)
            if m0 == wire.NOTIFICATION and len(b0) >= 2 and int(b0[:2], 16) == 4:
                viols.append((f'hold-timer-before-open:{b0[:4]}', f'the first message written on connection {s["index"]} ({s["kind"]}) at t={t0} is NOTIFICATION {b0[:4]} (Hold Timer Expired): the timer of another connection'))
        if s['tx_err'] is not None or s['tx_rest']:
            viols.append(('tx-unframed', f'bytes written on socket {s["index"]} do not frame as BGP messages: {s["tx_err"]}'))
    # (4) leaving a connected state closes the transport; nothing stays open without an owner
    owned_now = {p['owned'] for p in sm['peers']}
    for s in sm['sockets']:
        if s['kind'] == 'in' and not s.get('accepted', True):
            continue  # still in the listen queue: ExaBGP never had this connection (it listens for configured neighbors only)
        if s['connected'] and not s['closed'] and s['index'] not in owned_now:
            viols.append(('socket-leaked', f'connection {s["index"]} ({s["kind"]}) is still open at the end but no peer owns it'))
    for t, owned, a, b in sm['fsm_log']:
        if b == 'IDLE' and a in ('CONNECT', 'OPENSENT', 'OPENCONFIRM', 'ESTABLISHED') and owned is not None:
            s = socks[owned]
            still_owned = owned in owned_now
            if not s['closed'] and not still_owned:
                viols.append((f'not-closed-on-leave:{a}', f'left {a} for IDLE at t={t} but connection {owned} was never closed'))
    # (4b) "whenever it leaves a connected state the transport is closed": the connection the session owned at the
    # instant of the transition is closed at that very instant of virtual time (not some timer periods later, during
    # which a session that calls itself IDLE could still write on it)
    for t, owned, a, b in sm['fsm_log']:
        if b == 'IDLE' and a in ('OPENSENT', 'OPENCONFIRM', 'ESTABLISHED') and owned is not None:
            s = socks[owned]
            if not s['closed'] or (s['closed_at'] is not None and s['closed_at'] > t + CLOSE_GRACE):
                viols.append((f'transport-open-after-leave:{a}', f'left {a} for IDLE at t={t} while connection {owned} stayed open (closed at {s["closed_at"]})'))
    # (6) RFC 4271 event 18 (TcpConnectionFails): a session cannot stay in a connected state once its transport is
    # gone - at the end of the execution a peer in OPENSENT/OPENCONFIRM/ESTABLISHED owns an open connection
    for p in sm['peers']:
        if p['fsm'] in ('OPENSENT', 'OPENCONFIRM', 'ESTABLISHED'):
            s = socks.get(p['owned'])
            if s is None or s['closed']:
                viols.append((f'connected-state-without-transport:{p["fsm"]}', f'the peer is {p["fsm"]} at the end of the run but owns no open connection (owned={p["owned"]})'))
    # (5) API: up and down alternate
    up = {}
    for line in sm['api'].splitlines():
        if not line.startswith('{'):
            continue
        try:
            ev = json.loads(line)
        except ValueError:
            continue
        if ev.get('type') != 'state':
            continue
        state = ev.get('neighbor', {}).get('state')
        who = ev.get('neighbor', {}).get('address', {}).get('peer')
        if state == 'up':
            if up.get(who):
                viols.append(('api-up-twice', f'two "up" events of neighbor {who} without a "down" in between'))
            up[who] = True
        elif state == 'down':
            up[who] = False
    if sm['loop_exceptions']:
        viols.append(('loop-exception', f'unhandled exception in the event loop: {sm["loop_exceptions"][0][:200]}'))
    # de-duplicate
    seen = set()
    out = []
    for sig, what in viols:
        if sig not in seen:
            seen.add(sig)
            out.append((sig, what))
    return out


def bystander(sm: dict, choices: dict) -> list:
    """The second neighbor is never disturbed: whatever happens to the first one, its session comes up once and stays
    (daemon shutdown excepted)."""
    if any(v == 'shutdown' for v in choices.values()):
        return []
    viols = []
    mine = [s for s in sm['sockets'] if s.get('remote') == '127.0.0.3']
    peer = [p for p in sm['peers'] if '127.0.0.3' in p['key']]
    if not peer:
        return [('bystander:peer-gone', 'the undisturbed second neighbor is no longer known to the reactor')]
    if peer[0]['fsm'] != 'ESTABLISHED':
        viols.append((f'bystander:not-established:{peer[0]["fsm"]}', f'the undisturbed second neighbor ends in {peer[0]["fsm"]}'))
    closed = [s['index'] for s in mine if s['closed']]
    if closed or len(mine) > 1:
        viols.append(('bystander:session-reset', f'the undisturbed second neighbor used {len(mine)} connection(s), closed: {closed}'))
    for s in mine:
        if any(m[2] == wire.NOTIFICATION for m in s['tx']):
            viols.append(('bystander:notification', 'a NOTIFICATION was written to the undisturbed second neighbor'))
    return viols


STEPS = 16
CLOSE_GRACE = 0.05  # seconds of virtual time between leaving a connected state and the close of its transport (half a read period)


def run(ctx: core.Ctx) -> None:
    if os.environ.get('C05_BOUND'):
        plan = [(c, int(os.environ['C05_BOUND'])) for c in CONFIGS]
    elif ctx.tier == 'quick':
        plan = [('active', 2), ('attempts1', 1), ('gr', 1), ('passive', 1), ('passiven', 2), ('hold0', 1), ('hold0local', 1), ('two', 1), ('mirror', 1)]
    else:
        # every configuration to 2 deviations first, then a third (reduced menu) on the active one
        plan = [('active', 2), ('attempts1', 2), ('gr', 2), ('passive', 2), ('passiven', 2), ('hold0', 2), ('hold0local', 2), ('two', 2), ('mirror', 2), ('active', 3)]
    if os.environ.get('C05_ONLY'):
        plan = [(c, b) for c, b in plan if c in os.environ['C05_ONLY'].split(',')]
        ctx.cap(f'restricted to configurations {os.environ["C05_ONLY"]} by C05_ONLY')
    bound = max(b for _, b in plan)
    ctx.rule = (f'every execution of the default session script (connect, OPEN/KEEPALIVE exchange, 2 UPDATEs and the two End-of-RIB markers in, 1 API announce, idle) '
                f'over {STEPS} macro steps with <= k deviations from a state-dependent menu (connect refused, EOF, RST, EPIPE, unexpected message '
                f'of each type, 3 header faults, 4 bad OPENs, hold-timer jump, inbound connection with lower/higher router-id, API teardown, '
                f'reload same/changed/without the neighbor/with it again, shutdown); (configuration, k) plan = {plan}; non-trivial = at least one deviation and a distinct (final FSM, per-socket message count, closed) outcome')
    ctx.assumptions += ['virtual loop delivers data before timers at equal instants', 'kernel-level TCP behaviour is modelled as ordered segments + EOF/RST/EPIPE only']
    pool = mp.Pool(min(16, os.cpu_count() or 1))
    budget_s = ctx.budget_s or (150 if ctx.tier == 'quick' else 2400)
    bound = 0
    try:
        for config_name, bound in plan:
            def record(choices, res, config_name=config_name):
                viols, outcome, steps, end = res
                ctx.count('executions')
                ctx.count('transitions', len(steps))
                ctx.add_to_set('outcomes', (config_name, outcome))
                if choices:
                    ctx.add_to_set('nontrivial_outcomes', (config_name, outcome))
                for sig, what in viols:
                    ctx.violation(sig, f'[{config_name}] deviations {sorted(choices.items())}: {what}', {'config': config_name, 'choices': {str(k): v for k, v in choices.items()}, 'steps': STEPS})
                if len(ctx.samples) < 4 and choices:
                    ctx.sample({'config': config_name, 'deviations': sorted(choices.items()), 'actions': steps})

            # a third deviation is taken from a reduced menu (the faults that end or disturb a session)
            third = ('eof', 'epipe', 'incoming:high', 'api:teardown')
            n, completed, caps = edev.explore_layers(pool, run_one, (config_name, STEPS), bound, record, budget=lambda: ctx.elapsed() > budget_s,
                                                     cap_layer=900000, menu_filter=lambda depth, alt: depth < 3 or alt in third)
            ctx.coverage_extra.setdefault('per_config', {})[config_name] = {'executions': n, 'bound_completed': completed}
            for c in caps:
                ctx.cap(f'{config_name}: {c}')
        ctx.counters['states'] = ctx.set_size('outcomes')
        ctx.counters['nontrivial'] = ctx.set_size('nontrivial_outcomes')
        ctx.coverage_extra['bound'] = bound
        ctx.coverage_extra['replayed_twice'] = edev.REPLAY_STATS['replayed_twice']
        ctx.coverage_extra['divergences'] = edev.REPLAY_STATS['divergences']
    finally:
        pool.close()
        pool.join()


def replay(case):
    choices = {int(k): v for k, v in case['choices'].items()}
    (viols, outcome, steps, end), menus = run_one(((case['config'], case.get('steps', STEPS)), choices))
    return [{'signature': s, 'what': w} for s, w in viols]
