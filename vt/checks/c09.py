"""C09 - Generated UPDATEs fit the negotiated size and lose nothing.   E-in on a boundary grid.

For each (maximum size, ADD-PATH, family mix, next hops, attribute-block size tuned byte by byte, announce/withdraw
mix) the number of prefixes is chosen around the exact-fit count (measured from a one-route probe), the real
UpdateCollection.messages() output is split, size-checked, strictly decoded by the reference decoder message by
message, and reassembled: announces/withdraws/attributes/next hops must be exactly the request.
"""

from __future__ import annotations

import ipaddress
import multiprocessing as mp
import os

from vt import core, exa
from vt.ref import wire as w
from vt.checks import c01

PROPERTY = 'C09'


def session(ext, addpath, extnh=False):
    return dict(local_as=65001, peer_as=65002, our_asn4=True, peer_asn4=True, addpath=addpath, extnh=extnh, extmsg=ext, aigp=True)


def v4_prefix(i, mask=24):
    if mask == 24:
        return f'{10 + (i >> 16)}.{(i >> 8) & 255}.{i & 255}.0/24'
    return f'{100 + (i >> 24)}.{(i >> 16) & 255}.{(i >> 8) & 255}.{i & 255}/32'


def v6_prefix(i):
    return f'2001:db8:{i >> 16:x}:{i & 0xFFFF:x}::/64'


def route_text(fam, i, nh_idx, attrs_text, mask=24):
    if fam == 'v4':
        return f'route {v4_prefix(i, mask)} next-hop 10.255.0.{1 + nh_idx} {attrs_text}'
    if fam == 'v6':
        return f'route {v6_prefix(i)} next-hop 2001:db8:ffff::{1 + nh_idx:x} {attrs_text}'
    if fam == 'v4x':
        # RFC 8950: an IPv4 unicast route behind an IPv6 next hop (extended next hop negotiated) travels in MP_REACH_NLRI
        return f'route {v4_prefix(i, mask)} next-hop 2001:db8:ffff::{1 + nh_idx:x} {attrs_text}'
    if fam == 'vpn4':
        return f'route {v4_prefix(i, mask)} next-hop 10.255.0.{1 + nh_idx} label [ 100 ] rd 65000:1 {attrs_text}'
    raise core.HarnessError(fam)


def abstract_nlri(fam, i, pid, mask=24):
    if fam in ('v4', 'v4x'):
        a, m = v4_prefix(i, mask).split('/')
        return w.nlri_ip(1, 1, a, int(m), pid)
    if fam == 'v6':
        a, m = v6_prefix(i).split('/')
        return w.nlri_ip(2, 1, a, int(m), pid)
    a, m = v4_prefix(i, mask).split('/')
    return w.nlri_ip(1, 128, a, int(m), pid, (100,), w.rd_type0(65000, 1))


def attrs_for(pad: int, ncomm: int, padx: bool = False) -> str:
    """padx: the padding attribute is asked for with the Extended Length flag (0x10) although its value is short"""
    t = 'med 7'
    if ncomm:
        t += ' community [ ' + ' '.join(f'65000:{c}' for c in range(ncomm)) + ' ]'
    if pad >= 0:
        t += ' attribute [ 0x99 ' + ('0xd0' if padx else '0xc0') + ' 0x' + 'ab' * pad + ' ]'
    return t


_S = {}


def get(ext, addpath, extnh=False):
    key = (ext, addpath, extnh)
    if key not in _S:
        s = session(ext, addpath, extnh)
        _S[key] = c01.get_session(('c09', key), s)[:3] + (s,)
    return _S[key]


_ROUTES = {}


def build(neighbor, api, specs, attrs_text):
    """specs: list of (fam, index, nh_idx, mask) -> (routes).  Parsed routes are memoised per worker and
    attribute text (the same prefixes recur for the counts N-1, N, N+1, ... of one grid point)."""
    cache = _ROUTES.setdefault((id(neighbor), attrs_text), {})
    if len(_ROUTES) > 4:
        for k in list(_ROUTES)[:-2]:
            del _ROUTES[k]
    routes = []
    for spec in specs:
        r = cache.get(spec)
        if r is None:
            fam, i, nh, mask = spec
            rs = api.api_route(route_text(fam, i, nh, attrs_text, mask), 'announce')
            if len(rs) != 1:
                raise core.HarnessError('route text refused: ' + route_text(fam, i, nh, attrs_text, mask))
            r = cache[spec] = neighbor.resolve_self(rs[0])
        routes.append(r)
    return routes


def generate(neg, ann_routes, wd_routes):
    from exabgp.bgp.message import UpdateCollection
    from exabgp.bgp.message.update.collection import RoutedNLRI

    attributes = (ann_routes or wd_routes)[0].attributes
    coll = UpdateCollection([RoutedNLRI(r.nlri, r.nexthop) for r in ann_routes], [r.nlri for r in wd_routes], attributes)
    return [bytes(m) for m in coll.messages(neg, True)]


def check_messages(msgs, neg_size, ap, want_ann, want_wd, want_attrs):
    """want_ann: {nlri_key: nexthop}; want_wd: set of keys."""
    viols = []
    got_ann, got_wd = {}, set()
    for raw in msgs:
        if len(raw) > neg_size:
            viols.append((f'oversize:{neg_size}', f'message of {len(raw)} bytes > negotiated {neg_size}'))
        if int.from_bytes(raw[16:18], 'big') != len(raw) or raw[:16] != w.MARKER or raw[18] != 2:
            viols.append(('bad-header', f'header length {int.from_bytes(raw[16:18], "big")} != {len(raw)} or bad marker/type'))
            continue
        try:
            u = w.decode_update(raw[19:], True, ap)
        except w.RefError as e:
            viols.append((f'undecodable:{e.code}/{e.subcode}', f'a generated message does not parse on its own: {e}'))
            continue
        nh4 = u['attrs'].get(w.NEXT_HOP)
        has_ann = bool(u['nlri'] or u['mp_reach'])
        for n in u['nlri']:
            got_ann.setdefault(w.nlri_key(n), []).append(nh4)
        for afi, safi, nh, nl in u['mp_reach']:
            for n in nl:
                got_ann.setdefault(w.nlri_key(n), []).append(nh)
        for n in u['withdrawn']:
            got_wd.add(w.nlri_key(n))
        for afi, safi, nl in u['mp_unreach']:
            for n in nl:
                got_wd.add(w.nlri_key(n))
        if has_ann:
            for code, v in want_attrs.items():
                if u['attrs'].get(code) != v:
                    viols.append((f'attr-lost:{code}', f'a message announcing routes carries attribute {code} = {str(u["attrs"].get(code))[:40]} instead of {str(v)[:40]}'))
                    break
    missing = [k for k in want_ann if k not in got_ann]
    if missing:
        viols.append((f'announce-lost:{missing[0][0]}/{missing[0][1]}', f'{len(missing)} requested announce(s) missing, first {missing[0]}'))
    foreign = [k for k in got_ann if k not in want_ann]
    if foreign:
        viols.append((f'announce-foreign:{foreign[0][0]}/{foreign[0][1]}', f'{len(foreign)} announce(s) not requested, first {foreign[0]}'))
    for k, nhs in got_ann.items():
        if k in want_ann:
            for nh in nhs:
                if nh is None or ipaddress.ip_address(nh.split('+')[0]) != ipaddress.ip_address(want_ann[k]):
                    viols.append((f'nexthop-mixed:{k[0]}/{k[1]}', f'{k} announced with next hop {nh}, requested {want_ann[k]}'))
                    break
    wmissing = want_wd - got_wd
    if wmissing:
        k = sorted(wmissing)[0]
        viols.append((f'withdraw-lost:{k[0]}/{k[1]}', f'{len(wmissing)} requested withdraw(s) missing, first {k}'))
    wforeign = got_wd - want_wd
    if wforeign:
        k = sorted(wforeign)[0]
        viols.append((f'withdraw-foreign:{k[0]}/{k[1]}', f'{len(wforeign)} withdraw(s) not requested, first {k}'))
    seen = set()
    out = []
    for sig, what in viols:
        if sig not in seen:
            seen.add(sig)
            out.append((sig, what))
    return out


def run_point(pt):
    """pt: dict(ext, addpath, fams, nh, pad, ncomm, counts{fam:n}, mode, mask)"""
    neighbor, neg, api, s = get(pt['ext'], pt['addpath'], 'v4x' in pt['fams'])
    ap = set(c01.ADDPATH_FAMS) if pt['addpath'] else set()
    attrs_text = attrs_for(pt['pad'], pt['ncomm'], pt.get('padx', False))
    specs_a, specs_w = [], []
    idx = 0
    for fam in pt['fams']:
        n = pt['counts'][fam]
        for j in range(n):
            # IPv4 unicast routes in one collection share the NEXT_HOP attribute (the RIB groups them by next hop)
            spec = (fam, idx, 0 if fam == 'v4' else j % pt['nh'], pt['mask'])
            if pt['mode'] in ('announce', 'both'):
                specs_a.append(spec)
            if pt['mode'] == 'withdraw':
                specs_w.append(spec)
            idx += 1
        if pt['mode'] == 'both':
            for j in range(max(1, n // 2)):
                specs_w.append((fam, 500000 + idx, 0, pt['mask']))
                idx += 1
    try:
        ann = build(neighbor, api, specs_a, attrs_text)
        wd = build(neighbor, api, specs_w, attrs_text)
        msgs = generate(neg, ann, wd)
    except core.HarnessError:
        raise
    except Exception as e:  # noqa: BLE001
        return [(f'exception:{type(e).__name__}', f'{type(e).__name__}: {str(e)[:160]}')], 0
    famcode = {'v4': (1, 1), 'v4x': (1, 1), 'v6': (2, 1), 'vpn4': (1, 128)}
    want_ann, want_wd = {}, set()
    for fam, i, nh, mask in specs_a:
        pid = 0 if famcode[fam] in ap else None
        want_ann[w.nlri_key(abstract_nlri(fam, i, pid, mask))] = (f'10.255.0.{1 + nh}' if fam not in ('v6', 'v4x') else f'2001:db8:ffff::{1 + nh:x}')
    for fam, i, nh, mask in specs_w:
        pid = 0 if famcode[fam] in ap else None
        want_wd.add(w.nlri_key(abstract_nlri(fam, i, pid, mask)))
    want_attrs = {w.MED: 7}
    if pt['ncomm']:
        want_attrs[w.COMMUNITIES] = tuple((65000 << 16) | c for c in range(pt['ncomm']))
    if pt['pad'] >= 0:
        want_attrs[0x99] = 'ab' * pt['pad']
    viols = check_messages(msgs, 65535 if pt['ext'] else 4096, ap, want_ann, want_wd, want_attrs)
    return viols, len(msgs)


def probe_overhead(ext, addpath, fam, pad, ncomm, mask, padx=False, fams_x=False):
    """Size of a one-route message -> (fixed overhead, per-prefix size) measured on the implementation."""
    neighbor, neg, api, s = get(ext, addpath, fams_x)
    a = attrs_for(pad, ncomm, padx)
    one = generate(neg, build(neighbor, api, [(fam, 1, 0, mask)], a), [])
    two = generate(neg, build(neighbor, api, [(fam, 1, 0, mask), (fam, 2, 0, mask)], a), [])
    if len(one) != 1 or len(two) != 1:
        return None
    p = len(two[0]) - len(one[0])
    return len(one[0]) - p, p


def grid(tier):
    pts = []
    for ext in (False, True):
        size = 65535 if ext else 4096
        for addpath in (False, True):
            for fams in (('v4',), ('v6',), ('vpn4',), ('v4', 'v6'), ('v4', 'v6', 'vpn4'), ('v4x',), ('v4', 'v4x')):
                for mask in ((24, 32) if fams == ('v4',) else (24,)):
                    for nh in (1, 2):
                        if nh == 2 and len(fams) > 2:
                            continue
                        pads = range(0, 10) if (not ext and fams in (('v4',), ('v6',), ('vpn4',), ('v4x',))) else (0, 3)
                        if ext and tier == 'quick':
                            pads = (0,)
                        for pad in pads:
                            for ncomm in ((0, 62, 63, 64) if (not ext and fams == ('v4',) and pad == 0) else (0,)):
                                pts.append(dict(ext=ext, addpath=addpath, fams=fams, nh=nh, pad=pad, ncomm=ncomm, mask=mask, size=size))
                        if nh == 1 and mask == 24:
                            # the padding attribute with the Extended Length flag on a 3-octet value
                            pts.append(dict(ext=ext, addpath=addpath, fams=fams, nh=nh, pad=3, padx=True, ncomm=0, mask=mask, size=size))
    return pts


def worker(args):
    tier, shard, nshards = args
    res = {'exec': 0, 'viol': {}, 'outcomes': set(), 'nontrivial': 0, 'samples': []}
    for gi, g in enumerate(grid(tier)):
        if gi != shard:
            continue
        # exact-fit count per family, measured
        fits = {}
        skip = False
        for fam in g['fams']:
            o = probe_overhead(g['ext'], g['addpath'], fam, g['pad'], g['ncomm'], g['mask'], g.get('padx', False), 'v4x' in g['fams'])
            if o is None:
                skip = True
                break
            fixed, p = o
            fits[fam] = max(1, (g['size'] - fixed) // p)
        if skip:
            res['viol']['probe-failed'] = ('a one/two route probe did not give exactly one message', {'grid': g}, 1)
            continue
        counts_list = []
        N = fits
        if len(g['fams']) == 1:
            (fam,) = g['fams']
            ks = [N[fam] - 1, N[fam], N[fam] + 1, 2 * N[fam], 2 * N[fam] + 1] if not g['ext'] or tier != 'quick' else [N[fam], N[fam] + 1]
            if tier != 'quick' and not g['ext']:
                ks += [3 * N[fam] + 1, 1, 2]
            counts_list = [{fam: k} for k in ks if k >= 1]
        else:
            base = {f: max(1, N[f] // len(g['fams'])) for f in g['fams']}
            counts_list = [base, {f: N[f] for f in g['fams']}, {f: N[f] + 1 for f in g['fams']}]
            if g['ext'] and tier == 'quick':
                counts_list = counts_list[:2]
        for counts in counts_list:
            for mode in ('announce', 'withdraw', 'both'):
                if g['ext'] and tier == 'quick' and mode == 'both':
                    continue
                pt = dict(g, counts=counts, mode=mode)
                viols, nmsg = run_point(pt)
                res['exec'] += 1
                if nmsg > 1:
                    res['nontrivial'] += 1
                res['outcomes'].add((g['ext'], g['addpath'], g['fams'], mode, nmsg))
                for sig, what in viols:
                    v = res['viol'].get(sig)
                    small = sum(counts.values())
                    if v is None or small < v[3]:
                        res['viol'][sig] = (f'{what}  [{_desc(pt)}]', {'point': _j(pt)}, (v[2] if v else 0) + 1, small)
                    else:
                        res['viol'][sig] = (v[0], v[1], v[2] + 1, v[3])
                if len(res['samples']) < 1 and nmsg > 1:
                    res['samples'].append({'point': _j(pt), 'messages': nmsg})
    # no room for even one prefix: zero messages, no exception, never an oversized one
    if shard == -1:
        for ext in (False, True):
            size = 65535 if ext else 4096
            for fam in ('v4', 'v6', 'vpn4'):
                for slack in (-1, 0, 1, 3, 4, 5, 8, 40):
                    o = probe_overhead(ext, False, fam, 0, 0, 24)
                    fixed, p = o
                    pad = size - fixed - slack
                    if pad > 255:
                        pad -= 1  # the padding attribute needs an extended (2-byte) length above 255 bytes
                    if pad < 0:
                        continue
                    pt = dict(ext=ext, addpath=False, fams=(fam,), nh=1, pad=pad, ncomm=0, mask=24, size=size, counts={fam: 3}, mode='announce')
                    neighbor, neg, api, s = get(ext, False)
                    res['exec'] += 1
                    try:
                        ann = build(neighbor, api, [(fam, i, 0, 24) for i in range(3)], attrs_for(pad, 0))
                        msgs = generate(neg, ann, [])
                        over = [len(m) for m in msgs if len(m) > size]
                        if over:
                            res['viol'][f'no-room-oversize:{fam}'] = (f'attributes leave {slack} bytes for {fam} prefixes of {p} bytes: messages of {over} bytes > {size}', {'point': _j(pt)}, 1, 3)
                        elif slack >= p:
                            # there is room for at least one prefix per message: the routes must all be there
                            viols, nmsg = run_point(pt)
                            for sig, what in viols:
                                res['viol'][f'tight:{sig}'] = (f'{what} (room {slack} bytes, prefix {p} bytes)', {'point': _j(pt)}, 1, 3)
                        res['outcomes'].add(('noroom', ext, fam, slack, len(msgs)))
                    except Exception as e:  # noqa: BLE001
                        res['viol'][f'no-room-exception:{type(e).__name__}'] = (f'attributes leave {slack} bytes for {fam} prefixes of {p} bytes: {type(e).__name__}: {str(e)[:120]}', {'point': _j(pt)}, 1, 3)
    res['outcomes'] = list(res['outcomes'])
    res['viol'] = {k: v[:3] for k, v in res['viol'].items()}
    return res


def _desc(pt):
    return f'max {pt["size"]} addpath {pt["addpath"]} families {pt["fams"]} next hops {pt["nh"]} pad {pt["pad"]}{" (extended length flag)" if pt.get("padx") else ""} communities {pt["ncomm"]} counts {pt["counts"]} mode {pt["mode"]}'


def _j(pt):
    d = dict(pt)
    d['fams'] = list(pt['fams'])
    return d


# ------------------------------------------------------------------------------------------------
# part (O): every other family, one route at a time, the attribute block padded to the very edge of the message
# ------------------------------------------------------------------------------------------------
_OTHER = {}


def other_members():
    """[(desc, family)] : the accepted text routes of the frozen C15 corpus that are neither unicast nor VPNv4"""
    from vt.checks import c15

    ok, _bad = c15.text_members()
    out = []
    for desc, r in ok:
        fam = c15.fam_of(r.nlri)
        if fam not in ((1, 1), (2, 1), (1, 128)):
            out.append((desc, fam))
    return out


def run_other(args):
    """One route of another family (EVPN, MVPN, MUP, FlowSpec, VPLS, labeled, multicast, VPNv6, BGP-LS ...): the attribute
    block is padded so that the UPDATE would be 4096 + delta octets.  delta <= 0: one message of exactly that size, which
    parses on its own (its MP_REACH carries the family, and the NLRI octets ExaBGP packs for the route); delta > 0: no
    message at all, and no exception."""
    import struct

    from exabgp.bgp.message import UpdateCollection
    from exabgp.bgp.message.update.attribute.generic import GenericAttribute
    from exabgp.bgp.message.update.collection import RoutedNLRI
    from exabgp.protocol.family import Family
    from vt.checks import c15

    desc, fam, delta = args
    key = 'all'
    if key not in _OTHER:
        exa.reset_process_state()
        fams = sorted({(int(a), int(sa)) for a, sa in Family.size})
        _OTHER[key] = exa.negotiated_all_families(fams, asn4=True, addpath=False, direction_out=True, ext_nh=True)
    neighbor, neg = _OTHER[key]
    route = c15.text_route(list(desc))
    if route is None:
        return [], ('other-skip',), 0
    name = f'{fam[0]}/{fam[1]}'

    def messages(pad):
        attrs = route.attributes.__class__()
        for code in route.attributes:
            attrs.add(route.attributes[code])
        if pad is not None:
            attrs.add(GenericAttribute(bytes(pad), 0x99, 0xD0))
        return [bytes(m) for m in UpdateCollection([RoutedNLRI(route.nlri, route.nexthop)], [], attrs).messages(neg, True)]

    viols = []
    try:
        base = messages(0)
    except Exception as e:  # noqa: BLE001
        return [(f'other:{name}:exception:{type(e).__name__}', f'{route.extensive()[:160]}: {type(e).__name__}: {str(e)[:120]}')], ('other-exc',), 1
    if len(base) != 1:
        return [], ('other-not-single', len(base)), 1   # not one message for one route: nothing to pad against
    pad = 4096 - len(base[0]) + delta
    if pad < 0:
        return [], ('other-too-big',), 1
    try:
        msgs = messages(pad)
    except Exception as e:  # noqa: BLE001
        return [(f'other:{name}:delta{delta:+d}:exception:{type(e).__name__}', f'{route.extensive()[:120]} with {pad} octets of padding: {type(e).__name__}: {str(e)[:120]}')], ('other-exc',), 2
    over = [len(m) for m in msgs if len(m) > 4096]
    if over:
        viols.append((f'other:{name}:oversize', f'{route.extensive()[:120]}: message of {over[0]} octets with the attribute block padded to leave {-delta} octets'))
    if delta > 0:
        got = b''.join(msgs)
        if msgs and any(_mp_reach_of(m) for m in msgs):
            if not over:
                viols.append((f'other:{name}:no-room-but-announced', f'{route.extensive()[:120]}: no room for the route ({delta} octets short) and yet {len(msgs)} message(s) announce it'))
    else:
        if len(msgs) != 1:
            viols.append((f'other:{name}:fits-but-{len(msgs)}-messages', f'{route.extensive()[:120]}: the route fits (delta {delta}) but {len(msgs)} messages were generated'))
        else:
            m = msgs[0]
            if len(m) != 4096 + delta or struct.unpack('!H', m[16:18])[0] != len(m) or m[:16] != w.MARKER:
                viols.append((f'other:{name}:size-or-header', f'message of {len(m)} octets (header says {struct.unpack("!H", m[16:18])[0]}) expected {4096 + delta}'))
            mp = _mp_reach_of(m)
            want = bytes(route.nlri.pack_nlri(neg))
            if mp is None:
                viols.append((f'other:{name}:no-mp-reach', 'the message holds no well-formed MP_REACH_NLRI'))
            elif mp[2] not in ((12, 24, 48) if mp[1] in (128, 72) else (0, 4, 16, 32)):
                # RFC 4760 3 / RFC 4364 4.3.2 / RFC 7752 3.4: a zero route distinguisher in front of the next hop for SAFI 128 and 72 only
                viols.append((f'other:{name}:mp-nexthop-length', f'MP_REACH_NLRI for {mp[0]}/{mp[1]} carries a next hop of {mp[2]} octets ({route.extensive()[:100]})'))
            elif (mp[0], mp[1]) != fam or not mp[3].endswith(want):
                viols.append((f'other:{name}:nlri-differs', f'MP_REACH for {mp[0]}/{mp[1]} carries NLRI octets {mp[3].hex()[:80]}, the route packs to {want.hex()[:80]}'))
    return _uniq(viols), ('other', name, delta, len(msgs)), 2


def _mp_reach_of(raw):
    """(afi, safi, next hop length, NLRI octets) of the MP_REACH_NLRI of a framed UPDATE, read with the reference walker"""
    import struct

    try:
        body = raw[19:]
        wl = struct.unpack('!H', body[:2])[0]
        al = struct.unpack('!H', body[2 + wl:4 + wl])[0]
        if 4 + wl + al != len(body):
            return None
        for flags, code, value in w.walk_attrs(body[4 + wl:4 + wl + al]):
            if code == 14:
                afi, safi, nhl = struct.unpack('!HBB', value[:4])
                return afi, safi, nhl, bytes(value[4 + nhl + 1:])
    except (w.RefError, struct.error, IndexError):
        return None
    return None


def _uniq(viols):
    seen, out = set(), []
    for sg, wh in viols:
        if sg not in seen:
            seen.add(sg)
            out.append((sg, wh))
    return out


def run(ctx: core.Ctx) -> None:
    ctx.rule = ('grid: max size {4096, 65535} x ADD-PATH x family mix {v4, v6, vpnv4, v4+v6, v4+v6+vpnv4} x prefix size (/24, /32) x 1-2 next hops x attribute block padded byte by byte (0..9) and around the 255-byte '
                'extended-length threshold (62-64 communities) x counts {N-1, N, N+1, 2N, 2N+1} around the measured exact-fit N x {announce, withdraw, both}; plus attribute blocks leaving {-1..40} bytes of room; (O) every accepted text route of the frozen C15 corpus of any other family, alone, with the attribute block padded to leave {-2,-1,0,+1,+2,+40} octets; non-trivial = more than one message generated')
    ctx.assumptions += ['reference decoder vt/ref/wire.py', 'duplicates of a requested item are tolerated, foreign items are not']
    g = grid(ctx.tier)
    order = sorted(range(len(g)), key=lambda i: (not g[i]['ext'], -len(g[i]['fams'])))
    jobs = [(ctx.tier, i, len(g)) for i in order] + [(ctx.tier, -1, len(g))]
    pool = mp.Pool(min(16, os.cpu_count() or 1))
    outcomes = set()
    try:
        for res in pool.imap_unordered(worker, jobs, chunksize=1):
            ctx.count('executions', res['exec'])
            ctx.count('nontrivial', res['nontrivial'])
            outcomes.update(res['outcomes'])
            for smp in res['samples']:
                ctx.sample(smp)
            for sig, (what, case, n) in res['viol'].items():
                ctx.violation(sig, what, case)
                ctx.viol[sig]['count'] += n - 1
    finally:
        pool.close()
        pool.join()
    # part (O)
    pool = mp.Pool(min(16, os.cpu_count() or 1))
    try:
        ojobs = [(desc, fam, delta) for desc, fam in other_members() for delta in (-2, -1, 0, 1, 2, 40)]
        for job, (viols, outcome, n) in zip(ojobs, pool.imap(run_other, ojobs, chunksize=8)):
            ctx.count('executions', n)
            ctx.count('other_family_points')
            outcomes.add(tuple(outcome))
            for sig, what in viols:
                ctx.violation(sig, what, {'other': [list(job[0]), list(job[1]), job[2]]})
    finally:
        pool.close()
        pool.join()
    ctx.counters['states'] = len(outcomes)
    ctx.counters['transitions'] = ctx.counters.get('executions', 0)


def replay(case):
    if 'other' in case:
        d, f, delta = case['other']
        viols, o, n = run_other((d, tuple(f), delta))
        return [{'signature': s_, 'what': w_} for s_, w_ in viols]
    pt = dict(case['point'])
    pt['fams'] = tuple(pt['fams'])
    if pt['pad'] > 1000:
        # a no-room case
        neighbor, neg, api, s = get(pt['ext'], False)
        (fam,) = pt['fams']
        try:
            ann = build(neighbor, api, [(fam, i, 0, 24) for i in range(3)], attrs_for(pt['pad'], 0))
            msgs = generate(neg, ann, [])
        except Exception as e:  # noqa: BLE001
            return [{'signature': f'no-room-exception:{type(e).__name__}', 'what': str(e)[:200]}]
        over = [len(m) for m in msgs if len(m) > pt['size']]
        if over:
            return [{'signature': f'no-room-oversize:{fam}', 'what': str(over)}]
        viols, n = run_point(pt)
        return [{'signature': f'tight:{s_}', 'what': w_} for s_, w_ in viols]
    viols, n = run_point(pt)
    return [{'signature': s_, 'what': w_} for s_, w_ in viols]
