"""C07 - Negotiated session parameters are the RFC function of the two OPENs.   E-in: bounded exhaustive
input enumeration.

Our side  = neighbor configuration TEXT rendered from an abstract description, parsed by the real
            configuration parser, OPEN built by the real Capabilities().new / Open.make_open / pack_message.
Peer side = OPEN BYTES produced by the reference encoder (vt/ref/wire.py) from an abstract description.
Under test: Message.unpack(OPEN), Negotiated.sent/received (called as Peer._establish calls them),
            Protocol.validate_open (the real method on a minimal Protocol object).
Oracle    = vt/ref/negotiate.py (no ExaBGP code): RFC function of the two OPENs *as decoded by the reference
            decoder from the bytes on the wire* -> refusal subcodes or the set of allowed values per parameter.

Layers
  L1 config : every configuration of the abstract space -> the emitted OPEN advertises exactly what the text
              enables; unpack(pack(open)) is the same OPEN (ExaBGP's own encoding, and the reference's
              re-encoding of the same capabilities in the three parameter styles incl. RFC 9072).
  L2 pairs  : units (interacting groups crossed fully inside a unit), all vectors with <= K units off default.
  L3 seqs   : every sequence of <= 3 capabilities (duplicates, every order) x parameter style x 2 configurations.
  L4 broken : optional parameters that do not parse / are not recognised -> refusal subcode.
"""

from __future__ import annotations

import bisect
import itertools
import multiprocessing as mp
import os

from vt import core, exa
from vt.ref import negotiate, wire

PROPERTY = 'C07'

# ------------------------------------------------------------------------------------------------
# abstract space: our side
# ------------------------------------------------------------------------------------------------

FAMS = [('ipv4 unicast', (1, 1)), ('ipv6 unicast', (2, 1)), ('ipv4 mpls-vpn', (1, 128)), ('ipv4 flow', (1, 133))]
ADDPATH_CAPABLE = [(1, 1), (2, 1), (1, 128)]  # ExaBGP has no ADD-PATH encoding for flow: not expected, not refused
NH_LINES = [('ipv4 unicast ipv6', (1, 1), (1, 1, 2)), ('ipv4 mpls-vpn ipv6', (1, 128), (1, 128, 2))]
AP_MODES = ['send/receive', 'off', 'send', 'receive', 'send/receive@v4u']
AP_DIR = {'off': 0, 'receive': 1, 'send': 2, 'send/receive': 3, 'send/receive@v4u': 3}
OUR_RID = '1.2.3.4'
LOCAL_AS = [64512, 4200000000]
PEER_AS_KIND = ['e2', 'e4', 'ibgp']
HOLDS = [180, 0, 3]
GR_TIME = 120
HOSTS = {'short': ('rtr', 'lab'), 'long': ('h' * 64, 'd' * 64)}

OUR_FIELDS = ['asn4', 'las', 'pa', 'fams', 'ap', 'xnh', 'rr', 'xm', 'hold', 'gr', 'host']
OUR_DEFAULT = dict(asn4=True, las=64512, pa='e2', fams=15, ap='send/receive', xnh=True, rr=True, xm=True, hold=180, gr=True, host='short')


def peer_as_of(our: dict) -> int:
    return {'e2': 65002, 'e4': 4200000001, 'ibgp': our['las']}[our['pa']]


def fam_list(mask: int):
    return [f for i, (_, f) in enumerate(FAMS) if mask >> i & 1]


def render_config(our: dict) -> str:
    """Abstract description -> configuration text (syntax of etc/exabgp/*.conf)."""
    en = lambda b: 'enable' if b else 'disable'  # noqa: E731
    fams = [name for i, (name, _) in enumerate(FAMS) if our['fams'] >> i & 1]
    hn, dn = HOSTS[our['host']]
    cap = [
        f'asn4 {en(our["asn4"])};',
        f'route-refresh {en(our["rr"])};',
        f'add-path {"disable" if our["ap"] == "off" else our["ap"].split("@")[0]};',
        f'extended-message {en(our["xm"])};',
        f'nexthop {en(our["xnh"])};',
        f'graceful-restart {GR_TIME if our["gr"] else "disable"};',
    ]
    if our['host'] == 'long':
        # a host name is capped at 64 octets by the capability: the version string is what actually takes the
        # optional parameters of the larger configurations past 255 octets
        cap.append('software-version enable;')
    lines = [
        'neighbor 127.0.0.2 {',
        f'  router-id {OUR_RID};',
        '  local-address 127.0.0.1;',
        f'  local-as {our["las"]};',
        f'  peer-as {peer_as_of(our)};',
        f'  hold-time {our["hold"]};',
        f'  host-name {hn};',
        f'  domain-name {dn};',
        '  capability { ' + ' '.join(cap) + ' }',
    ]
    if fams:
        lines.append('  family { ' + ' '.join(f'{f};' for f in fams) + ' }')
    if our['ap'].endswith('@v4u'):
        lines.append('  add-path { ipv4 unicast; }')
    if our['xnh']:
        nh = [text for text, fam, _ in NH_LINES if not fams or fam in fam_list(our['fams'])]
        if nh:
            lines.append('  nexthop { ' + ' '.join(f'{t};' for t in nh) + ' }')
    lines.append('}')
    return '\n'.join(lines) + '\n'


def configured(our: dict) -> dict:
    """What the configuration text enables, read off the abstract description (never off ExaBGP)."""
    fams = set(fam_list(our['fams']))
    everything = not fams  # no family statement: ExaBGP's documented default is every family it knows
    universe = set(f for _, f in FAMS)
    base = universe if everything else fams
    ap = {}
    if our['ap'] != 'off':
        for f in ADDPATH_CAPABLE:
            if f in base and (not our['ap'].endswith('@v4u') or f == (1, 1)):
                ap[f] = AP_DIR[our['ap']]
    nh = set(t for _, fam, t in NH_LINES if fam in base) if our['xnh'] else set()
    return dict(
        asn_field=our['las'] if our['las'] < 65536 else wire.AS_TRANS,
        hold=our['hold'],
        families=base,
        superset=everything,
        asn4=our['las'] if our['asn4'] else None,
        addpath=ap,
        ext_nh=nh,
        rr=our['rr'],
        xm=our['xm'],
        gr=our['gr'],
        host=HOSTS[our['host']],
    )


def our_key(our: dict) -> tuple:
    return tuple(our[k] for k in OUR_FIELDS)


# ------------------------------------------------------------------------------------------------
# abstract space: peer side
# ------------------------------------------------------------------------------------------------

PEER_NH = [(1, 1, 2), (1, 128, 2), (2, 1, 1)]
# 'pad<N>': the classic RFC 4271 layout, one capability per parameter, with one more parameter holding an unknown
# capability sized so that the optional parameters are exactly N octets long (255 is the largest classic length and
# is also the first octet of the RFC 9072 layout: the second octet, parameter type 2 here, tells them apart)
STYLES = ['one-per-param', 'all-in-one', 'extended', 'extended-len1', 'pad253', 'pad254', 'pad255']
PAD_CAP = 98
ORDERS = ['canon', 'reversed', 'rotated', 'dup-all', 'dup-reversed']
RR_KINDS = ['rr+err', 'none', 'rr', 'err', 'rr128', 'rr+rr128']
PEER_DEFAULT = dict(ver=4, asf=65002, asn4=(65002,), hold=90, rid='9.9.9.9', fams=15, ap=(3, 3, 3), xnh=3, rr='rr+err',
                    xm=True, unk=False, gr=True, style='one-per-param', order='canon')
GR_VALUE = bytes.fromhex('0078' '00010180')
UNKNOWN_CAP = (99, b'\x01\x02\x03')


def peer_tokens(p: dict) -> list:
    """Unit values -> ordered list of abstract capabilities."""
    t = [['mp', a, s] for a, s in fam_list(p['fams'])]
    t += [['asn4', v] for v in p['asn4']]
    ap = [[a, s, d] for (a, s), d in zip(ADDPATH_CAPABLE, p['ap']) if d]
    if ap:
        t.append(['ap', ap])
    nh = [list(x) for i, x in enumerate(PEER_NH) if p['xnh'] >> i & 1]
    if nh:
        t.append(['xnh', nh])
    t += {'none': [], 'rr': [['rr']], 'err': [['err']], 'rr+err': [['rr'], ['err']], 'rr128': [['rr128']], 'rr+rr128': [['rr'], ['rr128']]}[p['rr']]
    if p['xm']:
        t.append(['xm'])
    if p['unk']:
        t.append(['unk'])
    if p['gr']:
        t.append(['gr'])
    o = p['order']
    if o == 'reversed':
        t = t[::-1]
    elif o == 'rotated':
        t = t[1:] + t[:1]
    elif o == 'dup-all':
        t = t + t
    elif o == 'dup-reversed':
        t = t + t[::-1]
    return t


def token_cap(tok) -> tuple:
    k = tok[0]
    if k == 'mp':
        return wire.cap_mp(tok[1], tok[2])
    if k == 'asn4':
        return wire.cap_asn4(tok[1])
    if k == 'ap':
        return wire.cap_addpath([tuple(e) for e in tok[1]])
    if k == 'xnh':
        return wire.cap_ext_nh([tuple(e) for e in tok[1]])
    if k == 'rr':
        return (wire.CAP_RR, b'')
    if k == 'err':
        return (wire.CAP_ERR, b'')
    if k == 'rr128':
        return (wire.CAP_RR_CISCO, b'')
    if k == 'xm':
        return (wire.CAP_EXT_MSG, b'')
    if k == 'unk':
        return UNKNOWN_CAP
    if k == 'gr':
        return (wire.CAP_GR, GR_VALUE)
    raise core.HarnessError(f'unknown capability token {tok}')


def peer_case(p: dict) -> dict:
    """The replayable form of a peer OPEN: fixed fields + capability tokens + style."""
    return dict(ver=p['ver'], asf=p['asf'], hold=p['hold'], rid=p['rid'], caps=peer_tokens(p), style=p['style'])


def peer_body(pc: dict) -> bytes:
    caps = [token_cap(t) for t in pc['caps']]
    if pc['style'] == 'extended-len1':
        return wire.encode_open_9072(pc['asf'], pc['hold'], pc['rid'], caps, version=pc['ver'], non_ext_len=1)
    if pc['style'].startswith('pad'):
        want = int(pc['style'][3:])
        have = sum(4 + len(v) for _, v in caps)
        k = want - have - 4
        if 0 <= k <= 251:
            caps = caps + [(PAD_CAP, bytes(k))]
        body = wire.encode_open(pc['asf'], pc['hold'], pc['rid'], caps, version=pc['ver'], style='one-per-param')
        if 0 <= k <= 251 and body[9] != want:
            raise core.HarnessError(f'padding to {want} octets of optional parameters gave {body[9]}')
        return body
    return wire.encode_open(pc['asf'], pc['hold'], pc['rid'], caps, version=pc['ver'], style=pc['style'])


# ------------------------------------------------------------------------------------------------
# the implementation side
# ------------------------------------------------------------------------------------------------

_SIDES: dict = {}
_SIDES_MAX = 1500


class _Peer:
    def __init__(self, neighbor):
        self.neighbor = neighbor
        self.stats = {}
        self._restarted = False
        self.reactor = None


def our_side(our: dict) -> dict:
    """Parse the configuration text with the real parser, build and pack our OPEN (cached per worker)."""
    key = our_key(our)
    side = _SIDES.get(key)
    if side is not None:
        return side
    from exabgp.bgp.message.open.capability.negotiated import Negotiated

    if len(_SIDES) >= _SIDES_MAX:
        _SIDES.clear()
    exa.reset_process_state()
    text = render_config(our)
    side = dict(our=dict(our), text=text, error=None)
    try:
        _cfg, neighbor = exa.neighbor_from_text(text)
        opn = exa.our_open(neighbor)
        raw = opn.pack_message(Negotiated.UNSET)
        side.update(neighbor=neighbor, open=opn, raw=bytes(raw))
    except Exception as e:  # configuration refused / OPEN cannot be built: reported by L1
        side['error'] = f'{type(e).__name__}: {e}'
        _SIDES[key] = side
        return side
    try:
        side['decoded'] = wire.decode_open(side['raw'][19:])
        side['summary'] = negotiate.summarize(side['decoded'])
    except wire.RefError as e:
        side['error'] = f'reference decoder refuses our OPEN: {e}'
    _SIDES[key] = side
    return side


REFRESH_NAME = {1: 'absent', 2: 'normal', 4: 'enhanced'}


def establish(side: dict, body: bytes, ap_universe) -> tuple:
    """The OPEN exchange as Peer._establish performs it, on a real Negotiated and a real Protocol."""
    from exabgp.bgp.message.direction import Direction
    from exabgp.bgp.message.notification import Notify
    from exabgp.bgp.message.open.capability.negotiated import Negotiated
    from exabgp.reactor.protocol import Protocol

    neighbor = side['neighbor']
    proto = Protocol.__new__(Protocol)
    proto.peer = _Peer(neighbor)
    proto.neighbor = neighbor
    proto.connection = None
    proto.negotiated = neg = Negotiated.make_negotiated(neighbor, Direction.IN)
    try:
        neg.sent(side['open'])
        neg.sent(side['open'])
        received = exa.unpack_open(body)
        neg.received(received)
        neg.received(received)
        proto.validate_open()
    except Notify as e:
        return ('refused', int(e.code), int(e.subcode))
    except Exception as e:  # read_message would turn this into NOTIFICATION 1/0
        return ('exception', type(e).__name__, str(e)[:120])
    fams = [(int(a), int(s)) for a, s in neg.families]
    return ('ok', {
        'families': fams,
        'nexthop': [(int(a), int(s), int(n)) for a, s, n in neg.nexthop],
        'asn4': bool(neg.asn4),
        'local_as': int(neg.local_as),
        'peer_as': int(neg.peer_as),
        'refresh': REFRESH_NAME.get(int(neg.refresh), f'unknown-{neg.refresh}'),
        'msg_size': int(neg.msg_size),
        'holdtime': int(neg.holdtime),
        'ap_send': [f for f in ap_universe if neg.addpath.send(*f)],
        'ap_recv': [f for f in ap_universe if neg.addpath.receive(*f)],
    })


# ------------------------------------------------------------------------------------------------
# the checks
# ------------------------------------------------------------------------------------------------


def refine(kind: str, our: dict, side: dict, ps, obs, pc: dict) -> str:
    """Narrow a failure kind into a signature naming the class of the failure (never the whole input)."""
    if pc['style'] == 'extended-len1' and obs[:3] == ('refused', 2, 0) and kind.split(':')[0] in ('refused-valid', 'wrong-subcode'):
        # nothing but the parameter block layout can be at fault: the same capabilities pass in the 255/255 layout
        return 'rfc9072:extended-format-refused-when-non-ext-op-len-is-not-255'
    if kind == 'param:local_as' and obs[1]['local_as'] == wire.AS_TRANS and our['las'] > 65535:
        return 'param:local_as:2-octet-field-as-trans-instead-of-configured-as'
    if kind == 'param:holdtime' and ps is not None and obs[1]['holdtime'] == max(side['summary']['hold'], ps['hold']):
        return 'param:holdtime:larger-of-the-two'
    if kind == 'param:msg_size':
        return 'param:msg_size:%d-with-ext-msg-ours-%s-theirs-%s' % (obs[1]['msg_size'], side['summary']['ext_msg'], ps['ext_msg'])
    if kind == 'param:refresh':
        return 'param:refresh:got-%s' % obs[1]['refresh']
    both4 = ps is not None and bool(ps['asn4_all']) and bool(side['summary']['asn4_all'])
    if both4 and ps['asn'] != wire.AS_TRANS and ps['asn'] not in ps['asn4_all']:
        # two NEW speakers, the 2-octet field is neither AS_TRANS nor the capability value
        faults = kind.split(':')[1].split('+') if kind.startswith(('wrong-subcode:', 'not-refused:')) else []
        if kind == 'param:peer_as' or 'peer-as' in faults:
            return 'peer-as:asn4-cap-ignored-when-field-not-astrans'
    if kind == 'not-refused:rid-collision-ibgp' and both4 and ps['asn'] == wire.AS_TRANS:
        # the peer is internal by its ASN4 capability value while its 2-octet field holds AS_TRANS
        return 'not-refused:rid-collision-ibgp:peer-as-only-in-asn4-capability'
    return kind


_PEERS: dict = {}
_PCS: dict = {}
_PEERS_MAX = 20000


def peer_side(pc: dict, pkey=None) -> tuple:
    """Reference side of a peer OPEN: bytes, summary (or the decoding error), ADD-PATH families to query.
    A pure function of the description, memoised per worker when the caller supplies a hashable key."""
    if pkey is not None:
        hit = _PEERS.get(pkey)
        if hit is not None:
            return hit
    body = peer_body(pc)
    ps = err = None
    try:
        ps = negotiate.summarize(wire.decode_open_9072(body))
    except wire.RefError as e:
        err = e
    universe = sorted(set(f for _, f in FAMS) | (set(ps['addpath_all']) if ps else set()))
    res = (body, ps, err, universe)
    if pkey is not None:
        if len(_PEERS) >= _PEERS_MAX:
            _PEERS.clear()
        _PEERS[pkey] = res
    return res


def check_pair(our: dict, pc: dict, pkey=None):
    """-> (violations [(signature, what)], outcome key, nontrivial)"""
    side = our_side(our)
    if side['error']:
        return [], ('our-side-unusable',), False  # L1 reports it once per configuration
    body, ps, err, universe = peer_side(pc, pkey)
    if err is not None:
        exp = negotiate.expected_unparsable(err)
    else:
        exp = negotiate.expected(side['summary'], ps, our['las'], peer_as_of(our))
        if our['las'] > 65535 and not our['asn4']:
            # contradictory configuration (4-octet AS, capability disabled): the AS cannot be advertised at all;
            # what Negotiated.local_as holds then is not asserted
            exp['fields']['local_as'].add(wire.AS_TRANS)
    obs = establish(side, body, universe)
    viols = []
    for kind, detail in negotiate.judge(exp, obs):
        viols.append((refine(kind, our, side, ps, obs, pc), detail))
    if obs[0] == 'ok':
        o = obs[1]
        key = ('ok', len(o['families']), o['asn4'], o['refresh'], o['msg_size'], o['holdtime'], len(o['ap_send']), len(o['ap_recv']),
               len(o['nexthop']), o['peer_as'], o['local_as'])
        nontrivial = bool(o['families']) and (o['asn4'] or o['ap_send'] or o['ap_recv'] or o['nexthop'] or o['refresh'] != 'absent'
                                              or o['msg_size'] != 4096)
    else:
        key = obs[:3] if obs[0] == 'refused' else obs[:2]
        nontrivial = bool(exp['must_refuse'])
    return viols, key, nontrivial


def _semantic(opn) -> tuple:
    caps = opn.capabilities
    return (int(opn.version), int(opn.asn), int(opn.hold_time), str(opn.router_id),
            tuple((int(k), type(caps[k]).__name__, caps[k].json() if hasattr(caps[k], 'json') else str(caps[k])) for k in sorted(caps)))


def check_config(our: dict):
    """L1: the emitted OPEN advertises exactly what the text enables and survives encode/decode."""
    from exabgp.bgp.message.open.capability.negotiated import Negotiated

    side = our_side(our)
    if side['error']:
        cls = side['error'].split(':')[0]
        return [(f'config-open:unusable:{cls}', side['error'])], ('unusable',), False
    v = []
    raw, d, s = side['raw'], side['decoded'], side['summary']
    want = configured(our)
    msgs, err, rest = wire.split_stream(raw, 4096)
    if err is not None or rest or len(msgs) != 1 or msgs[0][0] != wire.OPEN:
        v.append(('config-open:framing', f'emitted OPEN does not frame: err={err} rest={len(rest)}'))
    plen = len(raw) - 19 - (13 if d['extended'] else 10)
    if d['extended'] != (plen > 255) and not (d['extended'] and plen == 255):
        v.append(('config-open:rfc9072-format-choice', f'extended={d["extended"]} with {plen} octets of optional parameters'))
    if d['version'] != 4 or d['asn'] != want['asn_field'] or d['hold'] != want['hold'] or d['router_id'] != OUR_RID:
        v.append(('config-open:fixed-fields', f'version/as/hold/id = {d["version"]}/{d["asn"]}/{d["hold"]}/{d["router_id"]}, configured '
                  f'4/{want["asn_field"]}/{want["hold"]}/{OUR_RID}'))
    fam = s['families']
    if (not want['families'] <= fam) if want['superset'] else (fam != want['families']):
        v.append(('config-open:families', f'MP capabilities {sorted(fam)}, configured {sorted(want["families"])}'))
    asn4 = s['asn4_all']
    if (asn4 != [want['asn4']]) if want['asn4'] is not None else bool(asn4):
        v.append(('config-open:asn4', f'ASN4 capability {asn4}, configured {want["asn4"]}'))
    got_ap = {f: ds[-1] for f, ds in s['addpath_all'].items() if f != (1, 133)}
    if want['superset']:
        got_ap = {f: x for f, x in got_ap.items() if f in want['addpath']}
    if got_ap != want['addpath'] or any(len(ds) > 1 for ds in s['addpath_all'].values()):
        v.append(('config-open:add-path', f'ADD-PATH {s["addpath_all"]}, configured {want["addpath"]}'))
    if s['ext_nh'] != want['ext_nh']:
        missing, extra = want['ext_nh'] - s['ext_nh'], s['ext_nh'] - want['ext_nh']
        if missing and not extra and all((t[2], t[1]) not in fam for t in missing):
            sig = 'config-open:ext-nh:tuple-dropped-when-nexthop-afi-family-not-configured'
        else:
            sig = 'config-open:ext-nh'
        v.append((sig, f'extended next hop tuples {sorted(s["ext_nh"])}, configured {sorted(want["ext_nh"])} (families {sorted(fam)})'))
    if s['rr'] != want['rr'] or (s['err'] and not want['rr']):
        v.append(('config-open:route-refresh', f'route refresh {s["rr"]} enhanced {s["err"]}, configured {want["rr"]}'))
    if s['ext_msg'] != want['xm']:
        v.append(('config-open:extended-message', f'extended message {s["ext_msg"]}, configured {want["xm"]}'))
    if want['gr']:
        g = bytes.fromhex(s['gr']) if s['gr'] is not None else b''
        gf = set((int.from_bytes(g[i : i + 2], 'big'), g[i + 2]) for i in range(2, len(g) - 3, 4))
        ok = len(g) >= 2 and int.from_bytes(g[:2], 'big') == GR_TIME and (want['families'] <= gf if want['superset'] else gf == want['families'])
        if not ok:
            v.append(('config-open:graceful-restart', f'graceful restart {s["gr"]}, configured time {GR_TIME} families {sorted(want["families"])}'))
    elif s['gr'] is not None:
        v.append(('config-open:graceful-restart', f'graceful restart {s["gr"]} advertised, configured off'))
    hn, dn = want['host']
    hv = [val for code, val in d['caps'] if code == wire.CAP_HOSTNAME]
    if hv != [bytes([len(hn)]) + hn.encode() + bytes([len(dn)]) + dn.encode()]:
        v.append(('config-open:host-name', f'host name capability {[x.hex() for x in hv]}, configured {hn}/{dn}'))

    # ExaBGP's own decode of its own encoding (standard or RFC 9072, whichever pack_capabilities chose) ...
    opn = side['open']
    try:
        again = exa.unpack_open(raw[19:])
        if _semantic(again) != _semantic(opn) or str(again) != str(opn):
            v.append(('roundtrip:own-encoding:differs', f'unpack(pack(open)) = {again}, open = {opn}'))
        elif bytes(again.pack_message(Negotiated.UNSET)) != raw:
            v.append(('roundtrip:own-encoding:repack-differs', 'pack(unpack(pack(open))) != pack(open)'))
    except Exception as e:
        v.append((f'roundtrip:own-encoding:{type(e).__name__}', f'ExaBGP cannot read its own OPEN ({"extended" if d["extended"] else "standard"}): {e}'))
    # ... and of the same capabilities laid out in each parameter style by the reference encoder
    for style in ('one-per-param', 'all-in-one', 'extended'):
        if style != 'extended' and plen > 255:
            continue
        if style == 'all-in-one' and sum(2 + len(val) for _, val in d['caps']) > 255:
            continue
        try:
            again = exa.unpack_open(wire.encode_open(d['asn'], d['hold'], d['router_id'], d['caps'], style=style))
            if _semantic(again) != _semantic(opn):
                v.append((f'roundtrip:{style}:differs', f'unpack of the {style} encoding = {again}, open = {opn}'))
        except Exception as e:
            v.append((f'roundtrip:{style}:{type(e).__name__}', f'ExaBGP cannot read its own capabilities in the {style} encoding: {e}'))
    key = ('config', d['extended'], len(fam), bool(asn4), len(got_ap), len(s['ext_nh']), s['rr'], s['ext_msg'], s['gr'] is not None)
    nontrivial = d['extended'] or bool(asn4) or bool(got_ap) or bool(s['ext_nh']) or s['gr'] is not None
    return v, key, nontrivial


# -- L4: optional parameters that do not parse ------------------------------------------------------

MUTATIONS = ['optlen+1', 'last-param-len+1', 'first-param-len+1', 'last-cap-len+1', 'param-type-3', 'param-type-1', 'param-header-cut',
             'cap-header-cut', 'first-param-type-3']


def mutate(body: bytes, style: str, name: str) -> bytes:
    """Damage a well-formed reference OPEN body.  Offsets are found by walking the reference layout."""
    b = bytearray(body)
    ext = style.startswith('extended')
    start = 13 if ext else 10
    hdr = 3 if ext else 2
    params = []  # (offset of the parameter, value length)
    pos = start
    while pos < len(b):
        plen = int.from_bytes(b[pos + 1 : pos + 3], 'big') if ext else b[pos + 1]
        params.append((pos, plen))
        pos += hdr + plen
    first, last = params[0], params[-1]

    def set_total(n):
        if ext:
            b[11:13] = n.to_bytes(2, 'big')
        else:
            b[9] = n

    def bump(p):
        off, plen = p
        if ext:
            b[off + 1 : off + 3] = (plen + 1).to_bytes(2, 'big')
        else:
            b[off + 1] = plen + 1

    total = len(b) - start
    if name == 'optlen+1':
        set_total(total + 1)
    elif name == 'last-param-len+1':
        bump(last)
    elif name == 'first-param-len+1':
        bump(first)
    elif name == 'last-cap-len+1':
        # the last capability inside the last parameter claims one octet more than the parameter holds
        off, plen = last
        cpos = off + hdr
        end = cpos + plen
        while cpos + 2 + b[cpos + 1] < end:
            cpos += 2 + b[cpos + 1]
        b[cpos + 1] += 1
    elif name == 'param-type-3':
        b[last[0]] = 3
    elif name == 'first-param-type-3':
        b[first[0]] = 3
    elif name == 'param-type-1':
        b[last[0]] = 1
    elif name == 'param-header-cut':
        # one stray octet after the last parameter, counted in the total: a parameter header that is cut short
        b.append(2)
        set_total(total + 1)
    elif name == 'cap-header-cut':
        # the last parameter holds a single octet: a capability header that is cut short
        del b[last[0] :]
        b += (bytes([2, 0, 1, 65]) if ext else bytes([2, 1, 65]))
        set_total(len(b) - start)
    else:
        raise core.HarnessError(f'unknown mutation {name}')
    return bytes(b)


def check_broken(our: dict, pc: dict, name: str):
    side = our_side(our)
    if side['error']:
        return [], ('our-side-unusable',), False
    body = mutate(peer_body(pc), pc['style'], name)
    try:
        wire.decode_open_9072(body)
        raise core.HarnessError(f'mutation {name} on style {pc["style"]} left a decodable OPEN')
    except wire.RefError as e:
        exp = negotiate.expected_unparsable(e)
    if name == 'param-type-1' and 'unknown-parameter' in exp['must_refuse']:
        exp['must_refuse']['unknown-parameter'].add((2, 5))  # RFC 4271 6.2 subcode 5 [Deprecated]: Authentication Failure
    obs = establish(side, body, sorted(f for _, f in FAMS))
    viols = [(f'{kind}:{name}' if kind.startswith('exception') else kind, detail) for kind, detail in negotiate.judge(exp, obs)]
    key = obs[:3] if obs[0] == 'refused' else obs[:2] if obs[0] == 'exception' else ('ok',)
    return viols, key, True


# ------------------------------------------------------------------------------------------------
# enumeration
# ------------------------------------------------------------------------------------------------


def _as_unit():
    vals = []
    for a4 in (True, False):
        for las in LOCAL_AS:
            for pa in PEER_AS_KIND:
                t = peer_as_of(dict(las=las, pa=pa))
                x = t + 1
                low = t if t < 65536 else wire.AS_TRANS
                for field in [low] + [f for f in (wire.AS_TRANS, 65009) if f != low]:
                    for caps in ((t,), (), (x,), (x, t), (t, x), (t, t)):
                        vals.append((dict(asn4=a4, las=las, pa=pa), dict(asf=field, asn4=caps)))
    return vals


def units():
    """[(name, [value, ...])]; value = (partial our description, partial peer description); value 0 is the default.
    Everything inside a unit is crossed fully; units are combined by 'at most K units off their default'."""
    u = [
        ('as', _as_unit()),
        ('families', [(dict(fams=o), dict(fams=p)) for o in range(15, -1, -1) for p in range(15, -1, -1)]),
        ('add-path', [(dict(ap=o), dict(ap=p)) for o in AP_MODES for p in itertools.product((3, 0, 1, 2), repeat=3)]),
        ('hold', [(dict(hold=o), dict(hold=p)) for o in HOLDS for p in (90, 0, 1, 2, 3)]),
        ('ext-msg', [(dict(xm=o), dict(xm=p)) for o in (True, False) for p in (True, False)]),
        ('refresh', [(dict(rr=o), dict(rr=p)) for o in (True, False) for p in RR_KINDS]),
        ('ext-nh', [(dict(xnh=o), dict(xnh=p)) for o in (True, False) for p in (3, 0, 1, 2, 4, 5, 6, 7)]),
        ('our-gr', [(dict(gr=o), {}) for o in (True, False)]),
        ('our-host', [(dict(host=o), {}) for o in ('short', 'long')]),
        ('version', [({}, dict(ver=p)) for p in (4, 3)]),
        ('router-id', [({}, dict(rid=p)) for p in ('9.9.9.9', '0.0.0.0', OUR_RID)]),
        ('unknown-cap', [({}, dict(unk=p)) for p in (False, True)]),
        ('peer-gr', [({}, dict(gr=p)) for p in (True, False)]),
        ('style', [({}, dict(style=p)) for p in STYLES]),
        ('order', [({}, dict(order=p)) for p in ORDERS]),
    ]
    for name, vals in u:
        o, p = vals[0]
        for k, val in list(o.items()):
            if OUR_DEFAULT[k] != val:
                raise core.HarnessError(f'unit {name}: value 0 is not the default ({k})')
        for k, val in list(p.items()):
            if PEER_DEFAULT[k] != val:
                raise core.HarnessError(f'unit {name}: value 0 is not the default ({k})')
    return u


_UNITS = None
_BLOCKS: dict = {}


def blocks(k: int):
    """Deviation blocks for 'at most k units off default': [(unit indexes, sizes)], cumulative start offsets, total."""
    global _UNITS
    if _UNITS is None:
        _UNITS = units()
    if k not in _BLOCKS:
        bl, starts, total = [], [], 0
        n = len(_UNITS)
        for r in range(0, k + 1):
            for combo in itertools.combinations(range(n), r):
                sizes = [len(_UNITS[i][1]) - 1 for i in combo]
                size = 1
                for s in sizes:
                    size *= s
                bl.append((combo, sizes))
                starts.append(total)
                total += size
        _BLOCKS[k] = (bl, starts, total)
    return _BLOCKS[k]


def pair_at(k: int, index: int):
    bl, starts, _total = blocks(k)
    b = bisect.bisect_right(starts, index) - 1
    combo, sizes = bl[b]
    rem = index - starts[b]
    our, peer = dict(OUR_DEFAULT), dict(PEER_DEFAULT)
    # first unit of the combination is the most significant digit
    digits = []
    for s in reversed(sizes):
        digits.append(rem % s)
        rem //= s
    digits.reverse()
    for ui, dg in zip(combo, digits):
        o, p = _UNITS[ui][1][dg + 1]
        our.update(o)
        peer.update(p)
    return our, peer


# L3 alphabet: every sequence of <= 3 of these (with repetition)
ALPHABET = [
    ['mp', 1, 1], ['mp', 2, 1], ['mp', 1, 128], ['mp', 1, 133],
    ['asn4', 65002], ['asn4', 65003],
    ['ap', [[1, 1, 1]]], ['ap', [[1, 1, 2]]], ['ap', [[1, 1, 3]]], ['ap', [[2, 1, 1]]], ['ap', [[2, 1, 2]]], ['ap', [[2, 1, 3]]],
    ['ap', [[1, 1, 3], [2, 1, 3]]],
    ['xnh', [[1, 1, 2]]], ['xnh', [[1, 128, 2]]], ['xnh', [[1, 1, 2], [1, 128, 2]]],
    ['rr'], ['err'], ['rr128'], ['xm'], ['unk'], ['gr'],
]
SEQ_OURS = [
    dict(OUR_DEFAULT),
    dict(OUR_DEFAULT, asn4=False, ap='receive', xnh=False, rr=False, xm=False, fams=3, gr=False),
]


def seq_total() -> int:
    n = len(ALPHABET)
    return (1 + n + n * n + n ** 3) * len(STYLES) * len(SEQ_OURS)


def seq_at(index: int):
    n = len(ALPHABET)
    per = 1 + n + n * n + n ** 3
    oi, rem = divmod(index, per * len(STYLES))
    si, q = divmod(rem, per)
    if q == 0:
        seq = []
    elif q < 1 + n:
        seq = [q - 1]
    elif q < 1 + n + n * n:
        q -= 1 + n
        seq = [q // n, q % n]
    else:
        q -= 1 + n + n * n
        seq = [q // (n * n), q // n % n, q % n]
    pc = dict(ver=4, asf=65002, hold=90, rid='9.9.9.9', caps=[ALPHABET[i] for i in seq], style=STYLES[si])
    return SEQ_OURS[oi], pc


def config_total() -> int:
    return 2 * len(LOCAL_AS) * 16 * len(AP_MODES) * 2 * 2 * 2 * len(HOLDS) * 2 * 2


def config_at(index: int) -> dict:
    our = dict(OUR_DEFAULT)
    for name, dom in (('host', ['short', 'long']), ('gr', [True, False]), ('hold', HOLDS), ('xm', [True, False]), ('rr', [True, False]),
                      ('xnh', [True, False]), ('ap', AP_MODES), ('fams', list(range(15, -1, -1))), ('las', LOCAL_AS), ('asn4', [True, False])):
        index, d = divmod(index, len(dom))
        our[name] = dom[d]
    return our


BROKEN_OURS = dict(OUR_DEFAULT)


def broken_cases():
    out = []
    for style in STYLES[:4]:  # the padded layouts are whole-length boundary cases, not damaged here
        for name in MUTATIONS:
            for rich in (True, False):
                p = dict(PEER_DEFAULT, style=style)
                if not rich:
                    p.update(fams=1, ap=(0, 0, 0), xnh=0, rr='none', xm=False, gr=False)
                out.append((BROKEN_OURS, peer_case(p), name))
    return out


# ------------------------------------------------------------------------------------------------
# workers
# ------------------------------------------------------------------------------------------------


# L5: the same (configuration, peer OPEN) pair negotiated right after another session in the same process must give the
# same result: the negotiated parameters are a function of the two OPENs, not of what the daemon negotiated before
PRIORS = {
    'all-on': (dict(OUR_DEFAULT), dict(PEER_DEFAULT)),
    'all-off': (dict(OUR_DEFAULT, asn4=False, ap='off', xnh=False, rr=False, xm=False, gr=False, hold=3, fams=1),
                dict(PEER_DEFAULT, asn4=(), ap=(0, 0, 0), xnh=0, rr='none', xm=False, gr=False, hold=3, fams=1)),
    # the peer of the session before advertised route refresh under the pre-standard code 128 last (after code 2): the
    # capability classes registered under two codes are looked up by code, and what is decoded must not leak into what is sent
    'cisco-rr': (dict(OUR_DEFAULT), dict(PEER_DEFAULT, rr='rr+rr128')),
}
PRIOR_NAMES = sorted(PRIORS)


def after_total() -> int:
    return len(PRIOR_NAMES) * blocks(1)[2]


def after_at(index: int):
    name = PRIOR_NAMES[index % len(PRIOR_NAMES)]
    our, p = pair_at(1, index // len(PRIOR_NAMES))
    return name, our, peer_case(p)


def check_after(prior: str, our: dict, pc: dict):
    pour, pp = PRIORS[prior]
    alone = {sig for sig, _ in check_config(our)[0]}   # what L1 says of this configuration on its own
    check_pair(pour, peer_case(pp))          # the session before: its own verdict belongs to L2
    # our OPEN is built again now, after the other session (as a daemon builds it for every new session), and must still
    # advertise exactly what the configuration enables
    _SIDES.pop(our_key(our), None)
    cviols, _ck, _cn = check_config(our)
    viols, key, nt = check_pair(our, pc)
    viols = [(sig, what) for sig, what in cviols if sig not in alone] + viols
    return [('after-session:' + prior + ':' + sig, what + f' [negotiated right after the session "{prior}"]') for sig, what in viols], key, nt


def _case_of(layer, our, pc=None, name=None):
    c = dict(layer=layer, our=our)
    if pc is not None:
        c['peer'] = pc
    if name is not None:
        c['mutation'] = name
    return c


def _work(task):
    layer, tier, k, start, stop = task
    ctx = core.Ctx(PROPERTY, tier, 0)
    for i in range(start, stop):
        if layer == 'config':
            our = config_at(i)
            viols, key, nt = check_config(our)
            case = _case_of(layer, our)
        elif layer == 'pair':
            our, p = pair_at(k, i)
            pkey = tuple(p.values())
            pc = _PCS.get(pkey)
            if pc is None:
                if len(_PCS) >= _PEERS_MAX:
                    _PCS.clear()
                pc = _PCS[pkey] = peer_case(p)
            viols, key, nt = check_pair(our, pc, pkey)
            case = _case_of(layer, our, pc)
        elif layer == 'seq':
            our, pc = seq_at(i)
            viols, key, nt = check_pair(our, pc)
            case = _case_of(layer, our, pc)
        elif layer == 'after':
            prior, our, pc = after_at(i)
            viols, key, nt = check_after(prior, our, pc)
            case = _case_of(layer, our, pc)
            case['prior'] = prior
        else:
            our, pc, name = broken_cases()[i]
            viols, key, nt = check_broken(our, pc, name)
            case = _case_of(layer, our, pc, name)
        ctx.count('executions')
        ctx.count(f'{layer}_cases')
        if nt:
            ctx.count('nontrivial')
        if layer == 'config' and key[1] is True:
            ctx.count('config_rfc9072_extended')
        ctx.add_to_set('outcomes', repr(key))
        for sig, what in viols:
            ctx.violation(sig, f'[{layer}] {what} | our: {_brief(our)}' + (f' | peer: {_brief_peer(pc)}' if layer != 'config' else '')
                          + (f' | damage: {name}' if layer == 'broken' else ''), case)
        if i == start and start % 7 == 0:
            ctx.sample(case, limit=1)
    return ctx.shard_result()


def _brief(our: dict) -> str:
    return ' '.join(f'{k}={our[k]}' for k in OUR_FIELDS if our[k] != OUR_DEFAULT[k]) or 'default'


def _brief_peer(pc: dict) -> str:
    return f'v{pc["ver"]} as={pc["asf"]} hold={pc["hold"]} id={pc["rid"]} {pc["style"]} caps={pc["caps"]}'


def _tasks(layer, tier, k, total, chunk):
    return [(layer, tier, k, s, min(total, s + chunk)) for s in range(0, total, chunk)]


def run(ctx: core.Ctx) -> None:
    n = negotiate.selftest()
    k = int(os.environ.get('C07_K', '2' if ctx.tier == 'quick' else '3'))
    _bl, _starts, pair_total = blocks(k)
    ctx.rule = ('L1: all %d configurations (asn4 x local AS x 16 family sets x 5 add-path modes x ext-nh x refresh x ext-msg x 3 hold times x GR x '
                'host name) through the real parser; L2: all (configuration, peer OPEN) vectors with at most %d of 15 units off default, '
                'interacting groups (AS fields x ASN4 capability instances; families x families; add-path x add-path; hold x hold; ext-msg; '
                'refresh; ext-nh) crossed fully inside their unit; L3: every sequence of <= 3 capabilities from a %d-letter alphabet x 4 '
                'parameter styles x 2 configurations; L4: %d damaged parameter blocks; L5: every vector with at most one unit off default negotiated right after '
                'a session with everything on / everything off in the same process. A case is non-trivial when the RFCs require a refusal, '
                'or the session is accepted with >= 1 family and >= 1 option in force (L1: when the OPEN carries >= 1 optional feature)'
                % (config_total(), k, len(ALPHABET), len(broken_cases())))
    ctx.assumptions += [
        'reference OPEN codec vt/ref/wire.py (RFC 4271/5492/9072) and reference negotiation vt/ref/negotiate.py (%d self-test vectors)' % n,
        'our OPEN is summarised by the reference decoder from the bytes ExaBGP emits, never from ExaBGP objects',
        'Negotiated.sent/received are called twice each, in the order Peer._establish calls them; Protocol.validate_open is the real method '
        'on a Protocol built without a connection',
        'RFC 4760 section 8 implicit IPv4 unicast (peer sends no MP capability) accepted either way; repeated ASN4 / ADD-PATH instances: any '
        'instance; pre-standard refresh code 128: either reading; 2-octet AS field contradicting the ASN4 capability: 2/2 or the capability value',
    ]
    ctx.coverage_extra['units'] = {name: len(vals) for name, vals in _UNITS}
    ctx.coverage_extra['k'] = k
    plan = (
        _tasks('config', ctx.tier, k, config_total(), 240)
        + _tasks('broken', ctx.tier, k, len(broken_cases()), 24)
        + _tasks('seq', ctx.tier, k, seq_total(), 4000)
        + _tasks('after', ctx.tier, k, after_total(), 2000)
        + _tasks('pair', ctx.tier, k, pair_total, 20000)
    )
    ctx.coverage_extra['planned'] = {'config': config_total(), 'broken': len(broken_cases()), 'seq': seq_total(), 'after': after_total(), 'pair': pair_total}
    pool = mp.Pool(min(16, os.cpu_count() or 1))
    done = 0
    try:
        for res in pool.imap(_work, plan, chunksize=1):
            ctx.merge(res)
            done += 1
            if ctx.budget_s and ctx.elapsed() > ctx.budget_s:
                ctx.cap(f'stopped after {done} of {len(plan)} shards (budget {ctx.budget_s}s)')
                break
    finally:
        pool.terminate()
        pool.join()
    if ctx.counters.get('config_rfc9072_extended', 0) == 0 and not ctx.caps_hit:
        raise core.HarnessError('no configuration produced an RFC 9072 extended OPEN: the long-host-name dimension is vacuous')


def replay(case):
    layer = case['layer']
    if layer == 'config':
        viols, _k, _n = check_config(case['our'])
    elif layer == 'broken':
        viols, _k, _n = check_broken(case['our'], case['peer'], case['mutation'])
    elif layer == 'after':
        viols, _k, _n = check_after(case['prior'], case['our'], case['peer'])
    else:
        viols, _k, _n = check_pair(case['our'], case['peer'])
    return [{'signature': s, 'what': w} for s, w in viols]
