"""C03 - No peer input can crash or wedge the speaker.   E-in (bounded exhaustive, deviation-bounded inputs).

Every input of three finite spaces
  (a) ALL message bodies of length 0, 1, 2 (length 2 in full for types 1..6 on one session, second byte in
      {00,01,7f,80,ff} elsewhere) for every type byte in {0..7, 252, 255} x 4 negotiated parameter sets,
  (b) every SINGLE-POINT DEVIATION (truncation at every offset; every byte <- {00,01,7f,80,ff,b-1,b+1}; every located
      length field <- {0,len-1,len+1,max}; every attribute / optional-parameter / capability TLV duplicated, deleted,
      swapped with its neighbour) of every seed of the frozen corpus corpus/c03/seeds.txt, x 4 sessions;
      thorough adds all PAIRS of byte deviations on seeds <= 48 bytes,
  (c) scaling ladders N = 1,2,4,... up to what fits 4096 and 65535 bytes, valid by construction and confirmed by the
      strict reference decoder,
is decoded through two seams of the real implementation:
  seam 1  Message.unpack(type, body, negotiated) then every lazy part forced (Update.data, NLRIs, attributes, the real
          JSON and text API encoders exactly as Processes.message calls them, str()/extensive()/json(); for an OPEN the
          negotiation Negotiated.received()/validate()), which shows the RAW exception type;
  seam 2  the real Protocol.read_message() on a FakeSocket under the virtual loop, the neighbor API configured
          'receive { parsed; packets; consolidate; open; update; notification; keepalive; refresh; operational; }' with
          a real Processes object (JSON + text encoder) whose child pipes are replaced by its own async write queue.

Oracle (shares no code with ExaBGP): the outcome is 'decoded and rendered', a received Notification, or a Notify whose
(code, subcode) is defined by the RFCs for that message type; anything else is a violation; valid inputs (reference
decoder) must not be refused; every decode stays inside a step budget (sys.monitoring: Python function entries +
jumps, so call-free loops are seen too); ladder cost must stay linear.
"""

from __future__ import annotations

import collections
import multiprocessing as mp
import os
import struct
import sys
import traceback

from vt import core, exa
from vt.ref import wire as w

PROPERTY = 'C03'

CORPUS = os.path.join(core.ROOT, 'corpus', 'c03', 'seeds.txt')
OPERATIONAL = 6
TYPE_NAME = {1: 'OPEN', 2: 'UPDATE', 3: 'NOTIFICATION', 4: 'KEEPALIVE', 5: 'ROUTE-REFRESH', 6: 'OPERATIONAL'}
TYPES_A = [0, 1, 2, 3, 4, 5, 6, 7, 252, 255]
BYTE_VALUES = (0x00, 0x01, 0x7F, 0x80, 0xFF)
PAIR_MAX_LEN = 48
PAIR_SESSIONS = (0, 1, 2, 3)
SEAM2_EVERY = 4     # quick tier: read_message on every 4th deviation of a seed (+ every one the direct decode flags)

# sessions 0-3 == c02.SESSIONS; session 4 (extended message) carries the 65535-byte ladders only
SESSIONS = [
    dict(asn4=True, addpath=False, extmsg=False),
    dict(asn4=False, addpath=False, extmsg=False),
    dict(asn4=True, addpath=True, extmsg=False),
    dict(asn4=False, addpath=True, extmsg=False),
    dict(asn4=True, addpath=False, extmsg=True),
    dict(asn4=True, addpath=False, extmsg=False, extnh=False),
]
EXT_SESSION = 4      # extended message: the 65535-byte ladders
PLAIN_SESSION = 5    # no extended next hop: where the recorded QA messages of the exotic families are valid
AP_FAMS = [(1, 1), (2, 1), (1, 4), (1, 128)]
# every family ExaBGP offers when no family block is configured (written out by hand: the peer's OPEN is ours)
ALL_FAMILIES = [(1, 1), (1, 2), (1, 4), (1, 5), (1, 73), (1, 85), (1, 128), (1, 132), (1, 133), (1, 134),
                (2, 1), (2, 2), (2, 4), (2, 5), (2, 73), (2, 85), (2, 128), (2, 133), (2, 134),
                (25, 65), (25, 70), (16388, 71), (16388, 72)]

NEIGHBOR = """
neighbor 127.0.0.2 {
  router-id 1.2.3.4;
  local-address 127.0.0.1;
  local-as 65001;
  peer-as 65002;
  capability { asn4 enable; %(addpath)s nexthop %(extnh)s; aigp enable; operational enable; route-refresh enable; extended-message %(extmsg)s; }
  %(addpath_fam)s
  %(extnh_fam)s
  api {
    processes [ c03-text4 ];
    receive { parsed; packets; consolidate; open; update; notification; keepalive; refresh; operational; }
  }
}
process c03-text4 { run /bin/true; encoder text; }
"""

# ------------------------------------------------------------------------------------------------
# oracle: NOTIFICATION codes defined by RFC 4271 / 4486 / 5492 / 6608 / 7313 / 7606 / 8203 / 9003
# ------------------------------------------------------------------------------------------------
HEADER_ERR = {(1, 1), (1, 2), (1, 3)}
COMMON_ERR = HEADER_ERR | {(4, 0)} | {(5, s) for s in range(0, 4)} | {(6, s) for s in range(0, 11)}
DEFINED = {
    1: COMMON_ERR | {(2, s) for s in range(0, 9)},
    2: COMMON_ERR | {(3, s) for s in range(0, 12)},   # 3/0 'Unspecific': IANA registry, RFC 4271 erratum 4493
    3: COMMON_ERR,
    4: COMMON_ERR,
    5: COMMON_ERR | {(7, 0), (7, 1)},
    6: COMMON_ERR,
}
# body sizes the message header check lets through (RFC 4271 4.1, 6.1; RFC 2918; RFC 8654)
MIN_BODY = {1: 10, 2: 4, 3: 2, 4: 0, 5: 4}


def framing_allows(mtype: int, blen: int, max_size: int) -> bool:
    """Would a conforming header validator hand a body of this size to the decoder of that type?"""
    if 19 + blen > max_size:
        return False
    if mtype == 4:
        return blen == 0
    if mtype == 5:
        return blen == 4
    if mtype in MIN_BODY:
        return blen >= MIN_BODY[mtype]
    return True


def max_size(sidx: int) -> int:
    return 65535 if SESSIONS[sidx]['extmsg'] else 4096


# ------------------------------------------------------------------------------------------------
# step budget (PEP 669): counts Python function entries and jumps while armed
# ------------------------------------------------------------------------------------------------
class Budget(BaseException):
    """Raised inside the code under test when a decode used more steps than allowed."""


class _Steps:
    n = 0
    limit = 1 << 62
    tripped = 0
    installed = False
    max_permille = 0
    max_at = None


def _on_event(*_a):
    _Steps.n += 1
    if _Steps.n > _Steps.limit:
        # raise once, then leave room for the handlers (ours included) to run; should the code under test swallow
        # the exception and carry on, it is interrupted again 100000 steps later
        _Steps.tripped += 1
        _Steps.limit = _Steps.n + 100_000
        raise Budget()


def install_counter() -> None:
    if _Steps.installed:
        return
    mon = sys.monitoring
    tool = mon.PROFILER_ID
    try:
        mon.use_tool_id(tool, 'verif-c03')
    except ValueError:
        pass
    mon.register_callback(tool, mon.events.PY_START, _on_event)
    mon.register_callback(tool, mon.events.JUMP, _on_event)
    mon.set_events(tool, mon.events.PY_START | mon.events.JUMP)
    _Steps.installed = True


BUDGET_CONSTANT = 20_000
BUDGET_PER_BYTE = 500


def budget_for(blen: int) -> int:
    """Steps allowed for one decode: linear in the body size, 20000 + 500 per byte = 2.07e6 for a 4 KB message.
    Measured on the unchanged tree: the costliest valid 4 KB message (1013 NLRIs) takes 2.1e5 steps, a 2-byte one
    about 1e3, and no input of the whole quick-tier space uses more than 11 % of its budget."""
    return BUDGET_CONSTANT + BUDGET_PER_BYTE * blen


# ------------------------------------------------------------------------------------------------
# real objects
# ------------------------------------------------------------------------------------------------
def peer_open(sidx: int) -> bytes:
    s = SESSIONS[sidx]
    caps = [w.cap_mp(a, sa) for a, sa in ALL_FAMILIES]
    if s['asn4']:
        caps.append(w.cap_asn4(65002))
    if s['addpath']:
        caps.append(w.cap_addpath([(a, sa, 2) for a, sa in AP_FAMS]))
    if s.get('extnh', True):
        caps.append(w.cap_ext_nh([(1, 1, 2), (1, 4, 2), (1, 128, 2)]))
    if s['extmsg']:
        caps.append((w.CAP_EXT_MSG, b''))
    caps.append((w.CAP_RR, b''))
    caps.append((0xB9, b''))  # operational (ExaBGP private code)
    return w.encode_open(65002, 180, '9.9.9.9', caps, style='all-in-one')


class _Reactor:
    pass


class _Peer:
    """What Protocol and Processes touch of a Peer."""

    def __init__(self, neighbor, processes) -> None:
        self.neighbor = neighbor
        self.reactor = _Reactor()
        self.reactor.processes = processes
        self.stats = collections.defaultdict(int)
        self._restarted = False


class Session:
    def __init__(self, sidx: int) -> None:
        from exabgp.reactor.api.processes import Processes
        from exabgp.reactor.api.response import Response
        from exabgp.version import text_v4

        s = SESSIONS[sidx]
        txt = NEIGHBOR % dict(
            addpath='add-path receive;' if s['addpath'] else '',
            addpath_fam='add-path { ipv4 unicast; ipv6 unicast; ipv4 nlri-mpls; ipv4 mpls-vpn; }' if s['addpath'] else '',
            extmsg='enable' if s['extmsg'] else 'disable',
            extnh='enable' if s.get('extnh', True) else 'disable',
            extnh_fam='nexthop { ipv4 unicast ipv6; ipv4 nlri-mpls ipv6; ipv4 mpls-vpn ipv6; }' if s.get('extnh', True) else '',
        )
        exa.reset_process_state()
        self.sidx = sidx
        self.cfg, self.neighbor = exa.neighbor_from_text(txt)
        self.our_open = exa.our_open(self.neighbor)
        self.peer_open_body = peer_open(sidx)
        self.neg = exa.negotiated_for(self.neighbor, self.peer_open_body, direction_out=False)
        want_ap = set(AP_FAMS) if s['addpath'] else set()
        got_ap = {(a, sa) for a, sa in ALL_FAMILIES if self.neg.required(_afi(a), _safi(sa))}
        if self.neg.asn4 != s['asn4'] or got_ap != want_ap or self.neg.msg_size != max_size(sidx) or bool(self.neg.nexthop) != s.get('extnh', True):
            raise core.HarnessError(f'session {sidx}: negotiated asn4={self.neg.asn4} addpath={sorted(got_ap)} msg_size={self.neg.msg_size}')
        # the real Processes object with one helper "process" whose pipe is its own async write queue.  Its encoder is the
        # API v4 text one, as Processes._start installs it: that encoder itself first runs the v6 JSON encoder and then the
        # text one, so both renderings of every message are produced by production code (NLRI.v4_json, the third, is
        # called by force() below)
        procs = exa.make_processes([('c03-text4', 'text', 4)])
        self.procs = procs
        self.peer = _Peer(self.neighbor, procs)

    def written(self) -> int:
        return exa.drop_pending_writes(self.procs)


def _afi(a):
    from exabgp.protocol.family import AFI

    return AFI(a)


def _safi(s):
    from exabgp.protocol.family import SAFI

    return SAFI(s)


_SESS: dict = {}


def session(sidx: int) -> Session:
    if sidx not in _SESS:
        _SESS[sidx] = Session(sidx)
    return _SESS[sidx]


_ALONE_SIGS: dict = {}
KEEP_CACHES = False  # part 'after': the message is decoded in the cache state the previous message left


def clean_caches() -> None:
    """decode in a clean cache state: history (in)dependence is C19's subject"""
    from exabgp.bgp.message.update.attribute.collection import AttributeCollection

    if KEEP_CACHES:
        return

    if hasattr(AttributeCollection, 'cached'):
        AttributeCollection.cached = None
        AttributeCollection.previous = b''


def clear_attribute_cache() -> None:
    from exabgp.bgp.message.update.attribute.attribute import Attribute

    for c in Attribute.cache.values():
        c.clear()
        c.ordered = []


# ------------------------------------------------------------------------------------------------
# where did it come from: innermost frame inside the code under test
# ------------------------------------------------------------------------------------------------
def where_of(exc: BaseException) -> str:
    frames = []
    tb = exc.__traceback__
    while tb is not None:
        code = tb.tb_frame.f_code
        fn = code.co_filename
        if '/exabgp/' in fn:
            rel = fn.rsplit('/exabgp/', 1)[1]
            frames.append(f'{rel}:{code.co_qualname}')
        tb = tb.tb_next
    if not frames:
        return '?'
    if isinstance(exc, RecursionError):
        # the stack overflows wherever the last frame happens to be: name the function that recursed
        return collections.Counter(frames).most_common(1)[0][0]
    return frames[-1]


def exc_name(e: BaseException) -> str:
    t = type(e)
    return t.__name__ if t.__module__ == 'builtins' else f'{t.__module__}.{t.__name__}'


def tname(mtype: int) -> str:
    return TYPE_NAME.get(mtype, f'TYPE{mtype}')


# ------------------------------------------------------------------------------------------------
# seam 1: Message.unpack + forcing
# ------------------------------------------------------------------------------------------------
def force(S: Session, mtype: int, m, header: bytes, body: bytes) -> str:
    """Everything production code can ask of a decoded message. Returns a short description of what it was."""
    from exabgp.bgp.message import Message

    kind = type(m).__name__
    if mtype == Message.CODE.UPDATE:
        if not m.IS_EOR:
            coll = m.data
            for r in coll.announces:
                str(r.nlri)
                r.nlri.extensive()
                r.nlri.json()
                r.nlri.v4_json(compact=False, nexthop=r.nexthop)
                r.nlri.index()
                str(r.nexthop)
            for nl in coll.withdraws:
                str(nl)
                nl.extensive()
                nl.json()
                nl.v4_json(compact=False)
                nl.index()
            str(coll.attributes)
            coll.attributes.index()
            for code in list(coll.attributes):
                a = coll.attributes[code]
                str(a)
                repr(a)
            kind = f'Update({len(coll.announces)},{len(coll.withdraws)})' if len(coll.announces) + len(coll.withdraws) < 3 else 'Update(n)'
        else:
            str(m)
    elif mtype == Message.CODE.OPEN:
        from exabgp.bgp.message.direction import Direction
        from exabgp.bgp.message.open.capability.negotiated import Negotiated

        str(m)
        for code in list(m.capabilities):
            c = m.capabilities[code]
            str(c)
            c.json()
        neg = Negotiated.make_negotiated(S.neighbor, Direction.IN)
        neg.sent(S.our_open)
        neg.received(m)
        err = neg.validate(S.neighbor)
        kind = 'Open' if err is None else f'Open(refused {err[0]}/{err[1]})'
    else:
        str(m)
        repr(m)
        if hasattr(m, 'extensive'):
            m.extensive()
    if mtype in S.procs._dispatch:
        # exactly the call Protocol.read_message makes (consolidate)
        S.procs.message(mtype, S.peer, 'receive', m, header, body, S.neg)
    S.written()
    return kind


def seam1(S: Session, mtype: int, body: bytes, measure: bool = False):
    """-> (outcome tuple, steps).  outcome:
       ('ok', kind) | ('notification', code, sub) | ('notify', stage, code, sub, where) | ('exc', stage, type, where, text) | ('budget', stage)"""
    from exabgp.bgp.message import Message
    from exabgp.bgp.message.notification import Notification, Notify

    clean_caches()
    header = w.frame(mtype, body)[:19]
    stage = 'unpack'
    _Steps.n = 0
    _Steps.limit = budget_for(len(body))
    try:
        # production hands the decoders a memoryview (Connection.reader_async), so does this seam
        m = Message.unpack(mtype, memoryview(body), S.neg)
        if isinstance(m, Notification):
            stage = 'render'
            str(m)
            S.procs.message(mtype, S.peer, 'receive', m, header, body, S.neg)
            S.written()
            out = ('notification', m.code, m.subcode)
        else:
            stage = 'render'
            out = ('ok', force(S, mtype, m, header, body))
    except Notify as e:
        out = ('notify', stage, e.code, e.subcode, where_of(e))
    except Budget as e:
        out = ('budget', stage, where_of(e))
    except RecursionError as e:
        out = ('exc', stage, 'RecursionError', where_of(e), '')
    except Exception as e:  # noqa: BLE001
        out = ('exc', stage, exc_name(e), where_of(e), str(e)[:120])
    finally:
        steps = _Steps.n
        _Steps.limit = 1 << 62
    exa.drop_pending_writes(S.procs)
    if out[0] != 'budget' and steps * 1000 // budget_for(len(body)) > _Steps.max_permille:
        _Steps.max_permille = steps * 1000 // budget_for(len(body))
        _Steps.max_at = (mtype, body[:64].hex(), len(body), steps)
    return out, steps


# ------------------------------------------------------------------------------------------------
# seam 2: Protocol.read_message on a fake socket
# ------------------------------------------------------------------------------------------------
class Seam2:
    """One virtual loop + one real Protocol per (worker, session); a fresh connection per message."""

    def __init__(self, S: Session) -> None:
        from vt.world import LoopOnly

        self.S = S
        self.lw = LoopOnly()
        self.lw.__enter__()
        from exabgp.reactor.protocol import Protocol

        self.proto = Protocol(S.peer)
        self.proto.negotiated = S.neg

    def close(self) -> None:
        self.lw.__exit__(None, None, None)

    def run(self, mtype: int, body: bytes):
        """-> ('ok', kind) | ('notification', c, s) | ('notify', c, s, where) | ('exc', type, where, text) | ('budget',) | ('stuck',)"""
        from exabgp.bgp.message.notification import Notification, Notify
        from exabgp.protocol.family import AFI
        from exabgp.reactor.network.incoming import Incoming
        from vt.world import FakeSocket

        clean_caches()
        S = self.S
        lw = self.lw
        del lw.sockets[:]
        del lw.events[:]
        sock = FakeSocket(lw, 'in')
        conn = Incoming(AFI.ipv4, '127.0.0.2', '127.0.0.1', sock)
        conn.msg_size = S.neg.msg_size
        self.proto.connection = conn
        sock.feed(w.frame(mtype, body))
        _Steps.n = 0
        _Steps.limit = budget_for(len(body))
        try:
            task = lw.loop.create_task(self.proto.read_message())
            try:
                lw.run_until_blocked(task)
            except Budget as e:
                return ('budget', where_of(e))
        finally:
            _Steps.limit = 1 << 62
        S.written()
        if not task.done():
            task.cancel()
            lw.run_until_blocked(task)
            return ('stuck',)
        if task.cancelled():
            return ('stuck',)
        e = task.exception()
        if e is None:
            return ('ok', type(task.result()).__name__)
        if isinstance(e, Budget):
            return ('budget', where_of(e))
        if isinstance(e, Notify):
            return ('notify', e.code, e.subcode, where_of(e))
        if isinstance(e, Notification):
            return ('notification', e.code, e.subcode)
        return ('exc', exc_name(e), where_of(e), str(e)[:120])


_SEAM2: dict = {}
LAST_SEAM1 = (('none',), 0)


def seam2_for(S: Session) -> Seam2:
    if S.sidx not in _SEAM2:
        _SEAM2[S.sidx] = Seam2(S)
    return _SEAM2[S.sidx]


# ------------------------------------------------------------------------------------------------
# judging one input
# ------------------------------------------------------------------------------------------------
def judge(S: Session, mtype: int, body: bytes, valid: bool, do_seam2=True):
    """Run both seams on one input (do_seam2: True | False | 'auto'). -> (violations [(signature, what)], outcome key, reached_decoder, executions)"""
    viols = []
    sidx = S.sidx
    T = tname(mtype)
    reach = framing_allows(mtype, len(body), max_size(sidx))
    known_type = mtype in TYPE_NAME
    o1 = None
    execs = 0
    if reach:
        global LAST_SEAM1
        o1, steps = seam1(S, mtype, body)
        LAST_SEAM1 = (o1, steps)
        execs += 1
        if o1[0] == 'exc':
            _, stage, et, where, text = o1
            viols.append((f'{stage}:{T}:{et}:{where}', f'{et}({text}) raised in {where} while {"decoding" if stage == "unpack" else "rendering/negotiating"}'))
        elif o1[0] == 'budget':
            viols.append((f'unbounded:{o1[1]}:{T}:{o1[2]}', f'more than {budget_for(len(body))} steps (function entries + jumps) for a {len(body)}-byte body, interrupted in {o1[2]}'))
        elif o1[0] == 'notify':
            _, stage, code, sub, where = o1
            if not known_type:
                if (code, sub) != (1, 3):
                    viols.append((f'unknown-type:{T}:notify-{code}/{sub}', f'message type {mtype} is not defined: expected Bad Message Type 1/3, got {code}/{sub}'))
            elif (code, sub) not in DEFINED[mtype]:
                viols.append((f'undefined-notify:{T}:{code}/{sub}:{where}', f'Notify({code},{sub}) raised in {where} is not an error code defined for {T}'))
            elif valid:
                viols.append((f'valid-refused:{T}:{code}/{sub}:{where}', f'a valid {T} was refused with {code}/{sub} by {where}'))
        elif o1[0] == 'ok' and not known_type:
            viols.append((f'unknown-type:{T}:decoded', f'message type {mtype} is not defined: expected Bad Message Type 1/3, got a {o1[1]}'))
    o2 = None
    if do_seam2 == 'auto':
        # sampled mode: read_message still sees every input the direct decode found anything unusual about,
        # and every input the header check must stop
        do_seam2 = (not reach) or o1[0] in ('exc', 'budget') or (o1[0] == 'notify' and (not known_type or (o1[2], o1[3]) not in DEFINED[mtype])) or (o1[0] == 'ok' and not known_type)
    if do_seam2:
        o2 = seam2_for(S).run(mtype, body)
        execs += 1
        if not reach:
            # the header validator must stop it (1/2), or the type is unknown (1/3 takes precedence or not: both fine)
            if o2[0] != 'notify' or (o2[1], o2[2]) not in HEADER_ERR:
                viols.append((f'framing:{T}:len{len(body) if len(body) < 12 else "N"}:{o2[0]}', f'a {len(body)}-byte body of type {mtype} must be refused by the header check (1/2), got {o2[:3]}'))
        elif o2[0] == 'exc':
            _, et, where, text = o2
            viols.append((f'escaped:{et}:{T}:{where}', f'{et}({text}) from {where} escaped Protocol.read_message'))
        elif o2[0] == 'budget':
            viols.append((f'unbounded:read_message:{T}:{o2[1]}', f'more than {budget_for(len(body))} steps (function entries + jumps) for a {len(body)}-byte body, interrupted in {o2[1]}'))
        elif o2[0] == 'stuck':
            viols.append((f'stuck:read_message:{T}', 'read_message did not complete on a complete message'))
        elif o2[0] == 'notify':
            _, code, sub, where = o2
            if (code, sub) == (1, 0) and o1 is not None and o1[0] == 'exc' and o1[1] == 'unpack':
                viols.append((f'laundered:{o1[2]}:{T}:{o1[3]}', f'{o1[2]} raised in {o1[3]} was turned into Notify(1,0) by the catch-all of read_message'))
            elif not known_type:
                if (code, sub) != (1, 3):
                    viols.append((f'unknown-type:{T}:notify-{code}/{sub}', f'message type {mtype} is not defined: expected 1/3, read_message raised {code}/{sub}'))
            elif (code, sub) not in DEFINED[mtype]:
                viols.append((f'undefined-notify:{T}:{code}/{sub}:{where}', f'read_message raised Notify({code},{sub}) (from {where}), not an error code defined for {T}'))
            elif valid and not (o1 is not None and o1[0] == 'notify'):
                viols.append((f'valid-refused:{T}:{code}/{sub}:{where}', f'a valid {T} was refused with {code}/{sub} by read_message ({where})'))
        elif o2[0] == 'ok' and not known_type:
            viols.append((f'unknown-type:{T}:decoded', f'message type {mtype} is not defined: read_message returned a {o2[1]}'))
        # the two seams must tell the same story (guards the harness itself)
        if reach and o1 is not None and o2 is not None:
            k1 = o1[0] if o1[0] != 'notify' else ('notify', o1[2], o1[3])
            k2 = o2[0] if o2[0] != 'notify' else ('notify', o2[1], o2[2])
            same = k1 == k2 or (o1[0] == 'exc' and o1[1] == 'unpack' and o2[0] == 'notify' and (o2[1], o2[2]) == (1, 0)) \
                or (o1[0] == 'exc' and o1[1] == 'render' and o2[0] in ('exc', 'ok', 'notification')) \
                or (o1[0] == 'notify' and o1[1] == 'render' and o2[0] in ('ok', 'notify')) \
                or (o1[0] == 'budget' and o1[1] == 'render' and o2[0] in ('ok', 'budget'))
            if not same:
                viols.append((f'seam-divergence:{T}:{o1[0]}-vs-{o2[0]}', f'direct decode gave {o1[:4]}, read_message gave {o2[:3]}'))
    if o1 is not None:
        okey = (T, o1[0]) + (tuple(o1[1:3]) if o1[0] in ('notify', 'exc') else (o1[1],) if o1[0] == 'ok' else ())
        if o1[0] == 'notify':
            okey = (T, 'notify', o1[2], o1[3])
    else:
        okey = (T, 'framing', o2[0] if o2 else '-')
    return viols, okey, reach, execs, (1 if o2 is not None else 0)


# ------------------------------------------------------------------------------------------------
# seeds and deviations
# ------------------------------------------------------------------------------------------------
def load_seeds():
    seeds = []
    with open(CORPUS) as f:
        for line in f:
            line = line.rstrip('\n')
            if not line or line.startswith('#'):
                continue
            t, hx, label = line.split(' ', 2)
            name, validity = label.rsplit('@', 1)
            kind, _, sess = validity.partition(':')
            seeds.append({'type': int(t), 'body': b'' if hx == '-' else bytes.fromhex(hx), 'name': name,
                          'valid_kind': kind if sess else '-', 'valid_in': {int(c) for c in sess}})
    return seeds


def seed_valid(sd, sidx: int) -> bool:
    """Is the unmodified seed claimed valid on that session?  The plain session has session 0's parameters minus the
    extended next hop capability (RFC 8950), so an IPv4 family with an IPv6 next hop is not valid there."""
    if sd['valid_kind'] not in ('ref', 'rec'):
        return False
    if _v6_with_v4_nexthop(sd):
        # an IPv6 family with a 4/12-byte next hop is only valid where 'ipv6 <safi> ipv4' was negotiated (RFC 8950
        # generalised): RFC 4760/2545 ask for 16 or 32 bytes otherwise.  ExaBGP never announces such an entry
        # (Capabilities._NEXTHOP lists IPv4 families only), so it is negotiated on no session.
        return False
    if sidx == PLAIN_SESSION:
        return 0 in sd['valid_in'] and not _needs_extnh(sd)
    return sidx in sd['valid_in']


def _v6_with_v4_nexthop(sd) -> bool:
    if sd['type'] != w.UPDATE:
        return False
    lay = _update_layout(sd['body'])
    if lay is None:
        return False
    for pos, hl, ln, flags, code in lay[3]:
        v = sd['body'][pos + hl:pos + hl + ln]
        if code == w.MP_REACH and len(v) >= 4 and v[:2] == b'\x00\x02' and v[3] in (4, 12):
            return True
    return False


def _needs_extnh(sd) -> bool:
    if sd['type'] != w.UPDATE:
        return False
    lay = _update_layout(sd['body'])
    if lay is None:
        return False
    for pos, hl, ln, flags, code in lay[3]:
        v = sd['body'][pos + hl:pos + hl + ln]
        if code == w.MP_REACH and len(v) >= 4 and v[:2] == b'\x00\x01' and v[3] in (16, 24, 32, 48):
            return True
    return False


def _update_layout(body: bytes):
    """-> (wlen, alen, attrs_off, [(off, hdrlen, vlen, flags, code)]) or None when the seed does not split"""
    if len(body) < 4:
        return None
    wlen = struct.unpack('!H', body[:2])[0]
    if 4 + wlen > len(body):
        return None
    alen = struct.unpack('!H', body[2 + wlen:4 + wlen])[0]
    aoff = 4 + wlen
    if aoff + alen > len(body):
        return None
    attrs = []
    pos = aoff
    end = aoff + alen
    while pos < end:
        if end - pos < 3:
            return None
        flags, code = body[pos], body[pos + 1]
        if flags & w.F_EXTLEN:
            if end - pos < 4:
                return None
            ln, hl = struct.unpack('!H', body[pos + 2:pos + 4])[0], 4
        else:
            ln, hl = body[pos + 2], 3
        if pos + hl + ln > end:
            return None
        attrs.append((pos, hl, ln, flags, code))
        pos += hl + ln
    return wlen, alen, aoff, attrs


def _set_len(body: bytes, off: int, size: int, value: int) -> bytes:
    value = max(0, min(value, (1 << (8 * size)) - 1))
    return body[:off] + value.to_bytes(size, 'big') + body[off + size:]


def _length_fields_update(body: bytes):
    lay = _update_layout(body)
    if lay is None:
        return [], None
    wlen, alen, aoff, attrs = lay
    fields = [(0, 2, wlen), (2 + wlen, 2, alen)]
    for pos, hl, ln, flags, code in attrs:
        fields.append((pos + 2, hl - 2, ln))
        if code == w.MP_REACH and ln >= 4:
            fields.append((pos + hl + 3, 1, body[pos + hl + 3]))
    return fields, lay


def _open_layout(body: bytes):
    """-> (extended, optlen_off, optlen_size, params_off, [(off, hdr, plen, ptype, [(coff, clen)])]) or None"""
    if len(body) < 10:
        return None
    if body[9] == 255 and len(body) >= 13 and body[10] == 255:
        ext, loff, lsize, poff = True, 11, 2, 13
        optlen = struct.unpack('!H', body[11:13])[0]
    else:
        ext, loff, lsize, poff = False, 9, 1, 10
        optlen = body[9]
    if poff + optlen != len(body):
        return None
    params = []
    pos = poff
    while pos < len(body):
        hdr = 3 if ext else 2
        if len(body) - pos < hdr:
            return None
        ptype = body[pos]
        plen = struct.unpack('!H', body[pos + 1:pos + 3])[0] if ext else body[pos + 1]
        if pos + hdr + plen > len(body):
            return None
        caps = []
        if ptype == 2:
            cpos = pos + hdr
            cend = cpos + plen
            while cpos < cend:
                if cend - cpos < 2 or cpos + 2 + body[cpos + 1] > cend:
                    return None
                caps.append((cpos, body[cpos + 1]))
                cpos += 2 + body[cpos + 1]
        params.append((pos, hdr, plen, ptype, caps))
        pos += hdr + plen
    return ext, loff, lsize, poff, params


def structural_deviations(mtype: int, body: bytes):
    """[(kind, bytes)] : located length fields <- {0, len-1, len+1, max}; TLV duplicated / deleted / swapped with its neighbour"""
    out = []
    if mtype == w.UPDATE:
        fields, lay = _length_fields_update(body)
        for off, size, cur in fields:
            for v in (0, cur - 1, cur + 1, (1 << (8 * size)) - 1):
                out.append(('length', _set_len(body, off, size, v)))
        if lay is not None:
            wlen, alen, aoff, attrs = lay
            pieces = [body[p:p + hl + ln] for p, hl, ln, _, _ in attrs]
            head, tail = body[:2 + wlen], body[aoff + alen:]

            def rebuild(ps):
                blob = b''.join(ps)
                if len(blob) > 0xFFFF:
                    return None
                return head + struct.pack('!H', len(blob)) + blob + tail

            for i in range(len(pieces)):
                out.append(('tlv-dup', rebuild(pieces[:i + 1] + pieces[i:])))
                out.append(('tlv-del', rebuild(pieces[:i] + pieces[i + 1:])))
                if i + 1 < len(pieces):
                    out.append(('tlv-swap', rebuild(pieces[:i] + [pieces[i + 1], pieces[i]] + pieces[i + 2:])))
    elif mtype == w.OPEN:
        lay = _open_layout(body)
        if lay is not None:
            ext, loff, lsize, poff, params = lay
            out_fields = [(loff, lsize, len(body) - poff)]
            for pos, hdr, plen, ptype, caps in params:
                out_fields.append((pos + 1, hdr - 1, plen))
                for cpos, clen in caps:
                    out_fields.append((cpos + 1, 1, clen))
            for off, size, cur in out_fields:
                for v in (0, cur - 1, cur + 1, (1 << (8 * size)) - 1):
                    out.append(('length', _set_len(body, off, size, v)))

            def rebuild_params(ps):
                blob = b''.join(ps)
                if ext:
                    if len(blob) > 0xFFFF:
                        return None
                    return body[:9] + b'\xff\xff' + struct.pack('!H', len(blob)) + blob
                if len(blob) > 255:
                    return None
                return body[:9] + bytes([len(blob)]) + blob

            ppieces = [body[p:p + hdr + plen] for p, hdr, plen, _, _ in params]
            for i in range(len(ppieces)):
                out.append(('tlv-dup', rebuild_params(ppieces[:i + 1] + ppieces[i:])))
                out.append(('tlv-del', rebuild_params(ppieces[:i] + ppieces[i + 1:])))
                if i + 1 < len(ppieces):
                    out.append(('tlv-swap', rebuild_params(ppieces[:i] + [ppieces[i + 1], ppieces[i]] + ppieces[i + 2:])))
            # capabilities inside one parameter
            for k, (pos, hdr, plen, ptype, caps) in enumerate(params):
                if len(caps) < 2:
                    continue
                cpieces = [body[c:c + 2 + ln] for c, ln in caps]

                def rebuild_caps(cs, k=k, hdr=hdr):
                    blob = b''.join(cs)
                    if len(blob) > (0xFFFF if ext else 255):
                        return None
                    p = bytes([2]) + (struct.pack('!H', len(blob)) if ext else bytes([len(blob)])) + blob
                    return rebuild_params(ppieces[:k] + [p] + ppieces[k + 1:])

                for i in range(len(cpieces)):
                    out.append(('tlv-dup', rebuild_caps(cpieces[:i + 1] + cpieces[i:])))
                    out.append(('tlv-del', rebuild_caps(cpieces[:i] + cpieces[i + 1:])))
                    if i + 1 < len(cpieces):
                        out.append(('tlv-swap', rebuild_caps(cpieces[:i] + [cpieces[i + 1], cpieces[i]] + cpieces[i + 2:])))
    return [(k, b) for k, b in out if b is not None]


def byte_values(b: int):
    vals = []
    for v in BYTE_VALUES + ((b - 1) & 0xFF, (b + 1) & 0xFF):
        if v != b and v not in vals:
            vals.append(v)
    return vals


def deviations(mtype: int, body: bytes):
    """Every single-point deviation of a seed, deduplicated, in a fixed order: [(kind, bytes)]"""
    seen = {body}
    out = []

    def add(kind, b):
        if b not in seen:
            seen.add(b)
            out.append((kind, b))

    for i in range(len(body)):
        add('truncate', body[:i])
    for i, b in enumerate(body):
        for v in byte_values(b):
            add('byte', body[:i] + bytes([v]) + body[i + 1:])
    for kind, b in structural_deviations(mtype, body):
        add(kind, b)
    return out


def pair_deviations(body: bytes):
    """All pairs of byte deviations (thorough tier, seeds <= PAIR_MAX_LEN)."""
    n = len(body)
    vals = [byte_values(b) for b in body]
    for i in range(n):
        for j in range(i + 1, n):
            for vi in vals[i]:
                for vj in vals[j]:
                    yield body[:i] + bytes([vi]) + body[i + 1:j] + bytes([vj]) + body[j + 1:]


# ------------------------------------------------------------------------------------------------
# ladders
# ------------------------------------------------------------------------------------------------
UNKNOWN_CODES = [c for c in range(100, 240) if c not in (128, 129)]   # unassigned attribute type codes (IANA), 138 of them
BASE_ATTRS = [w.encode_attr(w.ORIGIN, b'\x00'), w.encode_attr(w.AS_PATH, w.encode_as_path([(2, [65002])], True)), w.encode_attr(w.NEXT_HOP, bytes([10, 0, 0, 1]))]
BASE_NLRI = [w.nlri_ip(1, 1, '10.0.0.0', 8)]


def _p4(i):
    return w.nlri_ip(1, 1, f'{11 + (i >> 16)}.{(i >> 8) & 255}.{i & 255}.0', 24)


def ladder_member(name: str, n: int):
    """-> (type, body). Valid by construction."""
    if name == 'unknown-attr-3':
        attrs = BASE_ATTRS + [bytes([0xC0, UNKNOWN_CODES[i % len(UNKNOWN_CODES)], 0]) for i in range(n)]
        return w.UPDATE, w.encode_update(attrs=attrs, nlri=BASE_NLRI)
    if name == 'unknown-attr-4':
        attrs = BASE_ATTRS + [bytes([0xC0, UNKNOWN_CODES[i % len(UNKNOWN_CODES)], 1, i & 255]) for i in range(n)]
        return w.UPDATE, w.encode_update(attrs=attrs, nlri=BASE_NLRI)
    if name == 'communities':
        v = b''.join(struct.pack('!HH', 65000 + (i >> 16), i & 0xFFFF) for i in range(n))
        return w.UPDATE, w.encode_update(attrs=BASE_ATTRS + [w.encode_attr(w.COMMUNITIES, v)], nlri=BASE_NLRI)
    if name == 'ext-communities':
        v = b''.join(bytes([0x00, 0x02]) + struct.pack('!HL', 65000, i) for i in range(n))
        return w.UPDATE, w.encode_update(attrs=BASE_ATTRS + [w.encode_attr(w.EXT_COMMUNITIES, v)], nlri=BASE_NLRI)
    if name == 'large-communities':
        v = b''.join(struct.pack('!LLL', 65000, 1, i) for i in range(n))
        return w.UPDATE, w.encode_update(attrs=BASE_ATTRS + [w.encode_attr(w.LARGE_COMMUNITIES, v)], nlri=BASE_NLRI)
    if name == 'as-path-segments':
        path = w.encode_as_path([(2, [65002])] + [(1 if i % 2 else 2, [64512 + (i % 1000)]) for i in range(n)], True)
        attrs = [BASE_ATTRS[0], w.encode_attr(w.AS_PATH, path), BASE_ATTRS[2]]
        return w.UPDATE, w.encode_update(attrs=attrs, nlri=BASE_NLRI)
    if name == 'nlri':
        return w.UPDATE, w.encode_update(attrs=BASE_ATTRS, nlri=[_p4(i) for i in range(n)])
    if name == 'withdrawn':
        return w.UPDATE, w.encode_update(withdrawn=[_p4(i) for i in range(n)])
    if name == 'mp-reach-nlri':
        nl = [w.nlri_ip(2, 1, f'2001:db8:{i:x}::', 48) for i in range(n)]
        attrs = BASE_ATTRS[:2] + [w.encode_attr(w.MP_REACH, w.encode_mp_reach(2, 1, '2001:db8::1', nl, False))]
        return w.UPDATE, w.encode_update(attrs=attrs)
    if name == 'capabilities':
        caps = [w.cap_mp(1, 1), w.cap_asn4(65002)] + [(200 + i % 40, b'') for i in range(n)]
        return w.OPEN, w.encode_open(65002, 180, '9.9.9.9', caps, style='extended' if n > 58 else 'one-per-param')
    raise KeyError(name)


LADDERS = ['unknown-attr-3', 'unknown-attr-4', 'communities', 'ext-communities', 'large-communities', 'as-path-segments', 'nlri', 'withdrawn', 'mp-reach-nlri', 'capabilities']


def ladder_sizes(name: str, limit: int):
    """N = 1, 2, 4, ... while the message fits `limit` bytes, plus the largest N that fits."""
    def fits(n):
        try:
            t, b = ladder_member(name, n)
        except struct.error:
            return False  # a 2-byte length field overflows
        if t == w.OPEN and 19 + len(b) > 4096:
            return False  # RFC 8654: OPEN stays limited to 4096
        return 19 + len(b) <= limit

    out = []
    n = 1
    while fits(n):
        out.append(n)
        n *= 2
    lo, hi = out[-1], n
    while hi - lo > 1:
        mid = (lo + hi) // 2
        if fits(mid):
            lo = mid
        else:
            hi = mid
    if lo not in out:
        out.append(lo)
    return out


def reference_accepts(mtype: int, body: bytes, sidx: int):
    """None when the strict reference decoder accepts the message, else the reason."""
    s = SESSIONS[sidx]
    try:
        if mtype == w.UPDATE:
            w.decode_update(w.drop_duplicate_attrs(body), s['asn4'], frozenset(AP_FAMS) if s['addpath'] else frozenset())
        elif mtype == w.OPEN:
            w.decode_open(body)
    except w.RefError as e:
        return str(e)
    return None


def run_ladder(name: str, limit: int):
    """-> (violations, executions, info)"""
    sidx = 0 if limit <= 4096 else 4
    S = session(sidx)
    sizes = ladder_sizes(name, limit)
    viols = []
    execs = 0
    costs = []
    for n in sizes:
        mtype, body = ladder_member(name, n)
        why = reference_accepts(mtype, body, sidx)
        if why is not None:
            raise core.HarnessError(f'ladder {name} N={n}: the reference decoder refuses a member that is valid by construction: {why}')
        case = {'part': 'ladder', 'ladder': name, 'limit': limit, 'n': n}
        v, okey, reach, e, _s2 = judge(S, mtype, body, valid=True)     # the verdict on the outcome (also warms the caches)
        execs += e
        for sig, what in v:
            viols.append((sig, f'ladder {name} N={n} ({len(body)} bytes, session {sidx}): {what}', case, len(body)))
        if n <= 256:
            o, steps = seam1(S, mtype, body)                           # measured run, caches warm
            execs += 1
        else:
            o, steps = LAST_SEAM1                                      # large members: the cache effect is negligible
        costs.append((n, steps, o[0]))
    ok = [(n, c) for n, c, o in costs if o == 'ok']
    if len(ok) >= 3 and ok[0][0] == 1 and ok[1][0] == 2:
        a = max(ok[1][1] - ok[0][1], 1)
        b = ok[0][1] - a
        for n, c in ok[2:]:
            bound = 4 * (a * n + max(b, 0))
            if c > bound:
                mtype, body = ladder_member(name, n)
                viols.append((f'superlinear:{name}', f'ladder {name} (limit {limit}): N={n} costs {c} steps, more than 4 x ({a} x N + {max(b, 0)}) = {bound} fitted on N=1 ({ok[0][1]}) and N=2 ({ok[1][1]})',
                              {'part': 'ladder', 'ladder': name, 'limit': limit, 'n': n}, len(body)))
                break
    return viols, execs, {'ladder': name, 'limit': limit, 'sizes': sizes, 'steps': [c for _, c, _ in costs], 'outcomes': [o for _, _, o in costs]}



# ------------------------------------------------------------------------------------------------
# (d) code sweeps: every type code of every TLV container x a set of lengths
# ------------------------------------------------------------------------------------------------
# The recorded messages do not hold every registered attribute / TLV / route type.  Rather than copy ExaBGP's registries,
# every code of each code space is presented once per length of SWEEP_LENS, the value filled with 01 02 03 .. (and with
# zeros for a few lengths: zero-length nested TLVs are what makes a decoder loop).  Inputs only, no deviations of them.
SWEEP_LENS = (0, 1, 2, 3, 4, 5, 6, 7, 8, 9, 12, 16, 17, 20, 24, 32)
SW_BASE = [w.encode_attr(w.ORIGIN, b'\x00'), w.encode_attr(w.AS_PATH, b''), w.encode_attr(w.LOCAL_PREF, struct.pack('!L', 100))]
SW_NH = w.encode_attr(w.NEXT_HOP, bytes([10, 0, 0, 1]))
SW_N8 = [w.nlri_ip(1, 1, '10.0.0.0', 8)]
# a BGP-LS link NLRI and an SR-policy NLRI (from the recorded QA messages) to hang attribute 29 / 23 on
SW_LS_NLRI = bytes.fromhex('000300300200000000000002bc0100001a0200000400003e34020100040000000002030006010135000041010900051e0a860258')
SW_SRPOLICY_NLRI = bytes([96]) + struct.pack('!LL', 1, 100) + bytes([10, 0, 0, 9])


def _fills(n: int):
    out = [bytes(range(1, n + 1))]
    if n in (4, 8, 16):
        out.append(bytes(n))
    return out


def _mp(afi: int, safi: int, nh: bytes, nlri: bytes) -> bytes:
    return w.encode_attr(w.MP_REACH, struct.pack('!HBB', afi, safi, len(nh)) + nh + b'\x00' + nlri)


def _upd(extra, nlri=False):
    return w.encode_update(attrs=SW_BASE + ([SW_NH] if nlri else []) + extra, nlri=SW_N8 if nlri else [])


def sweep_inputs(name: str):
    """-> iterator of (type, body) of one sweep family"""
    nh4 = bytes([10, 0, 0, 1])
    if name == 'attribute-code':
        for code in range(256):
            for flags in (0x40, 0x80, 0xC0, 0x00):
                for n in SWEEP_LENS:
                    for f in _fills(n):
                        yield w.UPDATE, _upd([bytes([flags, code, n]) + f], nlri=True)
    elif name == 'extended-community':
        for t in range(256):
            for st in range(256):
                yield w.UPDATE, _upd([w.encode_attr(w.EXT_COMMUNITIES, bytes([t, st, 1, 2, 3, 4, 5, 6]))], nlri=True)
                # values a sub-type may read as a number of its own kind: all ones, and the IEEE 754 specials
                # (infinity, NaN) in the last four octets
                for val in (b'\xff' * 6, bytes.fromhex('00007f800000'), bytes.fromhex('00007fc00000')):
                    yield w.UPDATE, _upd([w.encode_attr(w.EXT_COMMUNITIES, bytes([t, st]) + val)], nlri=True)
    elif name == 'ipv6-extended-community':
        for t in (0x00, 0x40, 0x80):
            for st in range(256):
                yield w.UPDATE, _upd([w.encode_attr(25, bytes([t, st]) + bytes(range(1, 19)))], nlri=True)
    elif name == 'bgp-ls-attribute':
        for t in range(0, 1400):
            for n in SWEEP_LENS:
                for f in _fills(n):
                    yield w.UPDATE, _upd([_mp(16388, 71, nh4, SW_LS_NLRI), w.encode_attr(29, struct.pack('!HH', t, n) + f, flags=0x80)])
    elif name == 'prefix-sid':
        for t in range(256):
            for n in SWEEP_LENS:
                for f in _fills(n):
                    yield w.UPDATE, _upd([w.encode_attr(40, bytes([t]) + struct.pack('!H', n) + f)], nlri=True)
        for top in (5, 6):
            for st in range(256):
                for n in SWEEP_LENS:
                    for f in _fills(n):
                        v = b'\x00' + bytes([st]) + struct.pack('!H', n) + f
                        yield w.UPDATE, _upd([w.encode_attr(40, bytes([top]) + struct.pack('!H', len(v)) + v)], nlri=True)
            for sst in range(256):
                for n in SWEEP_LENS:
                    for f in _fills(n):
                        info = b'\x00' + bytes(16) + b'\x00' + b'\x00\x13' + b'\x00' + bytes([sst]) + struct.pack('!H', n) + f
                        v = b'\x00' + bytes([1]) + struct.pack('!H', len(info)) + info
                        yield w.UPDATE, _upd([w.encode_attr(40, bytes([top]) + struct.pack('!H', len(v)) + v)], nlri=True)
    elif name == 'tunnel-encapsulation':
        for tt in (0, 8, 15):
            for st in range(256):
                for n in SWEEP_LENS:
                    for f in _fills(n):
                        sub = bytes([st]) + (bytes([n]) if st < 128 else struct.pack('!H', n)) + f
                        yield w.UPDATE, _upd([_mp(1, 73, nh4, SW_SRPOLICY_NLRI), w.encode_attr(23, struct.pack('!HH', tt, len(sub)) + sub)])
        for seg in range(256):
            for n in SWEEP_LENS:
                for f in _fills(n):
                    sl = b'\x00' + bytes([seg, n]) + f
                    sub = bytes([128]) + struct.pack('!H', len(sl)) + sl
                    yield w.UPDATE, _upd([_mp(1, 73, nh4, SW_SRPOLICY_NLRI), w.encode_attr(23, struct.pack('!HH', 15, len(sub)) + sub)])
    elif name == 'route-type':
        for afi, safi in ((25, 70), (1, 5)):
            for rt in range(256):
                for n in range(0, 49):
                    yield w.UPDATE, _upd([_mp(afi, safi, nh4, bytes([rt, n]) + bytes(range(1, n + 1)))])
        for arch in (0, 1, 2):
            for rt in range(0, 8):
                for n in range(0, 49):
                    yield w.UPDATE, _upd([_mp(1, 85, nh4, bytes([arch]) + struct.pack('!H', rt) + bytes([n]) + bytes(range(1, n + 1)))])
    elif name == 'nlri-length':
        for afi, safi in ((1, 1), (1, 2), (1, 4), (1, 128), (1, 132), (1, 73), (25, 65), (2, 1), (2, 4), (2, 128), (1, 133), (1, 134), (2, 133), (16388, 71), (16388, 72)):
            nh = bytes(8) + nh4 if safi in (128, 134, 72) else (b'' if safi in (133,) else nh4)
            for lb in range(256):
                for extra in (0, 1, -1):
                    n = max(0, (lb + 7) // 8 + extra)
                    yield w.UPDATE, _upd([_mp(afi, safi, nh, bytes([lb]) + bytes(range(1, n + 1)))])
    elif name == 'flowspec-component':
        for t in range(256):
            for op in (0x00, 0x01, 0x03, 0x80, 0x81, 0x91, 0xA1, 0xB1, 0xFF, 0x45):
                for vals in (b'', b'\x01', b'\x01\x02', b'\x18\x0a\x00\x00', b'\x40\x00' + bytes(8)):
                    comp = bytes([t, op]) + vals
                    for nl in (bytes([len(comp)]) + comp, bytes([len(comp) + 1]) + comp):
                        yield w.UPDATE, _upd([_mp(1, 133, b'', nl)])
    elif name == 'bgp-ls-nlri':
        for nt in range(0, 12):
            for proto in (0, 2, 255):
                for dt in list(range(250, 270)) + list(range(510, 522)) + list(range(1100, 1170)) + [0, 1, 65535]:
                    for n in (0, 1, 4, 8):
                        desc = struct.pack('!HH', dt, n) + bytes(range(1, n + 1))
                        payload = bytes([proto]) + bytes(8) + struct.pack('!HH', 256, len(desc)) + desc
                        yield w.UPDATE, _upd([_mp(16388, 71, nh4, struct.pack('!HH', nt, len(payload)) + payload)])
    elif name == 'capability-code':
        for code in range(256):
            for n in range(0, 17):
                yield w.OPEN, w.encode_open(65002, 180, '9.9.9.9', [w.cap_mp(1, 1), (code, bytes(range(1, n + 1)))])
    elif name in ('next-hop-length', 'next-hop-length-extnh'):
        # every family of the session x every next-hop length 0..49 (RFC 4760 3, RFC 8950 3: 4, 16, 32, 12, 24, 48 and
        # whatever else a family table lists), under the session without and the one with Extended Next Hop negotiated
        mini = {(1, 132): bytes([96]) + bytes(range(1, 13)), (2, 1): bytes([32, 0x20, 0x01, 0x0d, 0xb8]), (2, 2): bytes([32, 0x20, 0x01, 0x0d, 0xb8]),
                (1, 1): bytes([24, 10, 0, 1]), (1, 2): bytes([24, 10, 0, 1]), (1, 4): bytes([48, 0, 1, 1, 10, 0, 1]), (2, 4): bytes([56, 0, 1, 1, 0x20, 0x01, 0x0d, 0xb8]),
                (1, 128): bytes([112, 0, 1, 1]) + bytes(8) + bytes([10, 0, 1]), (2, 128): bytes([120, 0, 1, 1]) + bytes(8) + bytes([0x20, 0x01, 0x0d, 0xb8])}
        for afi, safi in ALL_FAMILIES:
            for n in range(0, 50):
                for f in _fills(n):
                    for nl in (b'', b'\x00') + ((mini[(afi, safi)],) if (afi, safi) in mini else ()):
                        yield w.UPDATE, _upd([_mp(afi, safi, f, nl)])
    elif name == 'operational-type':
        for what in list(range(0, 32)) + [0xFFFE, 0xFFFF]:
            for n in range(0, 25):
                yield OPERATIONAL, struct.pack('!HH', what, n) + bytes(range(1, n + 1))
    else:
        raise KeyError(name)


SWEEPS = ['attribute-code', 'extended-community', 'ipv6-extended-community', 'bgp-ls-attribute', 'prefix-sid', 'tunnel-encapsulation', 'route-type', 'nlri-length',
          'flowspec-component', 'bgp-ls-nlri', 'capability-code', 'operational-type', 'next-hop-length', 'next-hop-length-extnh']
# the session a sweep runs under (default: the plain one)
SWEEPS_ALSO_EXTNH = ('route-type', 'nlri-length', 'flowspec-component', 'bgp-ls-nlri', 'tunnel-encapsulation', 'bgp-ls-attribute')
SWEEP_SESSION = {'next-hop-length-extnh': 0}
SWEEP_SHARDS = {'extended-community': 8, 'bgp-ls-attribute': 6, 'prefix-sid': 6, 'route-type': 6, 'attribute-code': 6, 'flowspec-component': 6, 'tunnel-encapsulation': 4, 'nlri-length': 3, 'bgp-ls-nlri': 3}

# ------------------------------------------------------------------------------------------------
# workers
# ------------------------------------------------------------------------------------------------
def _new_result():
    return {'exec': 0, 'seam2': 0, 'inputs': 0, 'reached': 0, 'viol': {}, 'outcomes': set(), 'kinds': collections.Counter(), 'info': None}


def _record(res, viols, case, size):
    for sig, what in viols:
        key = (size, case.get('body', ''), case.get('limit', 0), case.get('session', 0), case.get('type', 0))
        cur = res['viol'].get(sig)
        if cur is None:
            res['viol'][sig] = [what, case, 1, key]
        else:
            cur[2] += 1
            if key < tuple(cur[3]):
                cur[0], cur[1], cur[3] = what, case, key


def _one(res, S, mtype, body, valid, part, do_seam2=True):
    viols, okey, reach, execs, s2 = judge(S, mtype, body, valid, do_seam2)
    res['exec'] += execs
    res['seam2'] += s2
    res['inputs'] += 1
    res['reached'] += 1 if reach else 0
    res['outcomes'].add(okey)
    if viols:
        case = {'part': part, 'session': S.sidx, 'type': mtype, 'body': body.hex(), 'valid': valid}
        _record(res, viols, case, len(body))


def _after(res, S, prior, sd, do_seam2=False):
    """sd (valid on this session) decoded right after `prior` (valid too) with every cache as `prior` left it:
    it must still be decoded - no exception, no refusal."""
    global KEEP_CACHES
    clear_attribute_cache()
    KEEP_CACHES = False
    clean_caches()
    akey = (S.sidx, sd['type'], sd['body'])
    if akey not in _ALONE_SIGS:
        # what the same message yields alone is reported by part (b), not here
        _ALONE_SIGS[akey] = {sig for sig, _ in judge(S, sd['type'], sd['body'], True, do_seam2)[0]}
        clear_attribute_cache()
        clean_caches()
    KEEP_CACHES = True
    try:
        seam1(S, prior['type'], prior['body'])
        viols, okey, reach, execs, s2 = judge(S, sd['type'], sd['body'], True, do_seam2)
    finally:
        KEEP_CACHES = False
    res['exec'] += execs + 1
    res['seam2'] += s2
    res['inputs'] += 1
    res['reached'] += 1 if reach else 0
    res['outcomes'].add(('after',) + tuple(okey))
    viols = [(sig, what) for sig, what in viols if sig not in _ALONE_SIGS[akey]]
    if viols:
        case = {'part': 'after', 'session': S.sidx, 'type': sd['type'], 'body': sd['body'].hex(), 'valid': True,
                'prior_type': prior['type'], 'prior_body': prior['body'].hex()}
        _record(res, [(f'after-another:{sig}', f'[right after a valid type {prior["type"]} message {prior["body"].hex()[:80]}] {what}') for sig, what in viols], case, len(sd['body']) + len(prior['body']))


def worker(job):
    install_counter()
    kind = job[0]
    res = _new_result()
    if kind == 'after':
        _, tier, sidx, shard, nshards = job
        S = session(sidx)
        seeds = load_seeds()
        ok = [sd for sd in seeds if seed_valid(sd, sidx) and framing_allows(sd['type'], len(sd['body']), max_size(sidx))]
        for k, prior in enumerate(ok):
            if k % nshards != shard:
                continue
            for sd in ok:
                res['kinds']['after'] += 1
                _after(res, S, prior, sd, do_seam2=(tier != 'quick' and sd is prior))
        return res
    if kind == 'seed':
        _, tier, sidx, idxs = job
        S = session(sidx)
        seeds = load_seeds()
        for idx, shard, nshards in idxs:
            clear_attribute_cache()
            sd = seeds[idx]
            valid = seed_valid(sd, sidx)
            if shard == 0:
                _one(res, S, sd['type'], sd['body'], valid, 'seed')
            every = 1 if tier != 'quick' else SEAM2_EVERY
            for k, (dkind, b) in enumerate(deviations(sd['type'], sd['body'])):
                if k % nshards != shard:
                    continue
                res['kinds'][dkind] += 1
                _one(res, S, sd['type'], b, False, 'deviation', do_seam2=True if (k // nshards) % every == 0 else 'auto')
    elif kind == 'pairs':
        _, tier, sidx, idx, shard, nshards = job
        S = session(sidx)
        sd = load_seeds()[idx]
        clear_attribute_cache()
        for k, b in enumerate(pair_deviations(sd['body'])):
            if k % nshards != shard:
                continue
            res['kinds']['pair'] += 1
            _one(res, S, sd['type'], b, False, 'pair', do_seam2=True if k % 16 == 0 else 'auto')
    elif kind == 'small':
        _, sidx, mtype, first_bytes, full = job
        S = session(sidx)
        clear_attribute_cache()
        for b0 in first_bytes:
            if b0 is None:
                _one(res, S, mtype, b'', False, 'small')
                continue
            _one(res, S, mtype, bytes([b0]), False, 'small')
            for b1 in (range(256) if full else BYTE_VALUES):
                _one(res, S, mtype, bytes([b0, b1]), False, 'small')
    elif kind == 'sweep':
        _, name, shard, nshards = job
        # 'name@extnh': the same inputs on session 0 (Extended Next Hop negotiated)
        base, _, where = name.partition('@')
        S = session(0 if where == 'extnh' else SWEEP_SESSION.get(base, PLAIN_SESSION))
        clear_attribute_cache()
        for k, (mtype, b) in enumerate(sweep_inputs(base)):
            if k % nshards != shard:
                continue
            res['kinds'][f'sweep-{name}'] += 1
            _one(res, S, mtype, b, False, 'sweep', do_seam2=True if (k // nshards) % 8 == 0 else 'auto')
    elif kind == 'ladder':
        _, name, limit = job
        clear_attribute_cache()
        viols, execs, info = run_ladder(name, limit)
        res['exec'] += execs
        res['inputs'] += len(info['sizes'])
        res['reached'] += len(info['sizes'])
        res['info'] = info
        for sig, what, case, size in viols:
            _record(res, [(sig, what)], case, size)
        for n, o in zip(info['sizes'], info['outcomes']):
            res['outcomes'].add(('ladder', name, o))
    res['outcomes'] = sorted(res['outcomes'], key=repr)
    res['kinds'] = dict(res['kinds'])
    return res


def jobs_for(tier: str):
    seeds = load_seeds()
    jobs = []
    # (b) seeds: group small seeds so that a job is ~ 1500 bytes of seed.  Sessions 0-3 see every seed; the plain
    # session (no extended next hop) sees every seed that does not come from the C02 alphabets
    for sidx in (0, 1, 2, 3, PLAIN_SESSION):
        group, weight = [], 0
        order = sorted(range(len(seeds)), key=lambda i: (-len(seeds[i]['body']), i))
        for i in order:
            if sidx == PLAIN_SESSION and seeds[i]['name'].startswith('c02/'):
                continue
            n = len(seeds[i]['body'])
            if n > 120:
                nsh = (n + 119) // 120
                for sh in range(nsh):
                    jobs.append((n * n // nsh, ('seed', tier, sidx, [(i, sh, nsh)])))
                continue
            group.append((i, 0, 1))
            weight += max(n, 8)
            if weight >= 400:
                jobs.append((weight * 60, ('seed', tier, sidx, group)))
                group, weight = [], 0
        if group:
            jobs.append((weight * 60, ('seed', tier, sidx, group)))
    # (a) small bodies
    for sidx in range(4):
        for mtype in TYPES_A:
            full = sidx == 0 and mtype in (1, 2, 3, 4, 5, 6)
            if full:
                for lo in range(0, 256, 32):
                    fb = ([None] if lo == 0 else []) + list(range(lo, lo + 32))
                    jobs.append((32 * 257 * 2, ('small', sidx, mtype, fb, True)))
            else:
                jobs.append((256 * 6 * 2, ('small', sidx, mtype, [None] + list(range(256)), False)))
    # (c) ladders
    for name in LADDERS:
        jobs.append((4096 * 40, ('ladder', name, 4096)))
        jobs.append((65535 * 60, ('ladder', name, 65535)))
    # (d) code sweeps
    for name in SWEEPS:
        nsh = SWEEP_SHARDS.get(name, 1)
        for sh in range(nsh):
            jobs.append((200000, ('sweep', name, sh, nsh)))
            if name in SWEEPS_ALSO_EXTNH:
                jobs.append((200000, ('sweep', name + '@extnh', sh, nsh)))
    # (e) every valid seed decoded right after every valid seed, the caches left alone (quick: sessions 0 and 1)
    for sidx in ((0, 1) if tier == 'quick' else range(4)):
        for sh in range(32):
            jobs.append((3000000, ('after', tier, sidx, sh, 32)))
    # thorough: pairs
    if tier != 'quick':
        nsh = 8
        for idx, sd in enumerate(seeds):
            n = len(sd['body'])
            if 2 <= n <= PAIR_MAX_LEN:
                for sidx in PAIR_SESSIONS:
                    for sh in range(nsh):
                        jobs.append((n * n * 25 // nsh, ('pairs', tier, sidx, idx, sh, nsh)))
    only = [x for x in os.environ.get('C03_PARTS', '').split(',') if x]
    if only:
        # debugging / sensitivity runs: a subset of the parts (run() records it as a cap)
        jobs = [j for j in jobs if j[1][0] in only]
    jobs.sort(key=lambda j: (-j[0], repr(j[1])))
    return [j for _, j in jobs]


def self_check() -> None:
    """Golden vectors of the helpers this check adds to the reference."""
    two = w.encode_update(attrs=[bytes([0xC0, 100, 0]), bytes([0xC0, 101, 1, 7]), bytes([0xC0, 100, 1, 9])])
    if w.drop_duplicate_attrs(two) != w.encode_update(attrs=[bytes([0xC0, 100, 0]), bytes([0xC0, 101, 1, 7])]):
        raise core.HarnessError('drop_duplicate_attrs golden vector')
    if not framing_allows(3, 2, 4096) or framing_allows(1, 9, 4096) or framing_allows(4, 1, 4096) or framing_allows(2, 4078, 4096) or not framing_allows(2, 4078, 65535):
        raise core.HarnessError('framing_allows golden vector')
    d = deviations(3, bytes([6, 2]))
    if len([1 for k, _ in d if k == 'truncate']) != 2 or len(d) != 2 + 7 + 6:
        raise core.HarnessError(f'deviations golden vector: {len(d)}')


def run(ctx: core.Ctx) -> None:
    self_check()
    seeds = load_seeds()
    ctx.rule = ('(a) all bodies of length 0-1 for type bytes {0..7,252,255} x 4 sessions (ASN4 on/off x ADD-PATH receive on/off), length 2 in full for types 1..6 on session 0 and with the second byte in {00,01,7f,80,ff} elsewhere; '
                f'(b) {len(seeds)} frozen seeds x 4 sessions x every single-point deviation (truncation at every offset, every byte <- {{00,01,7f,80,ff,b-1,b+1}}, located length fields <- {{0,-1,+1,max}}, TLV dup/del/swap)'
                + ('' if ctx.tier == 'quick' else f' + all pairs of byte deviations on seeds <= {PAIR_MAX_LEN} bytes on sessions {PAIR_SESSIONS} (read_message on every 16th pair and on every pair the direct decode flags)')
                + f'; (c) {len(LADDERS)} scaling ladders N=1,2,4,.. to the 4096- and 65535-byte limits; (d) {len(SWEEPS)} code sweeps (every attribute code x 4 flag sets, every extended-community type/subtype, every BGP-LS / prefix-SID / SRv6 / '
                'tunnel-encapsulation / SR-policy-segment TLV type, every EVPN / MVPN / MUP route type, every NLRI length octet of 15 families, flowspec component types, BGP-LS NLRI/descriptor types, capability codes, operational types, each x a set of value lengths); each input through Message.unpack+forcing and through Protocol.read_message; (e) every valid seed decoded right after every valid seed on the same session with the caches as the first left them (sessions 0-1 quick, all thorough); '
                'non-trivial = the input passes the message-header size rule and so reaches a body decoder')
    ctx.assumptions += ['validity of seeds and ladder members == vt/ref/wire strict decoder (RFC 7606 3.g for repeated attribute codes); recorded QA messages the reference does not model are presumed valid in session 0',
                        'step budget = Python function entries + jumps (sys.monitoring); C-level cost (bytes slicing) is not counted, so linearity is refutable only in interpreter steps',
                        'the API helper processes are replaced by the async write queue of the real Processes object']
    jobs = jobs_for(ctx.tier)
    results = [None] * len(jobs)
    pool = mp.Pool(min(16, os.cpu_count() or 1))
    try:
        for i, res in pool.imap_unordered(_indexed_worker, list(enumerate(jobs)), chunksize=1):
            if 'harness_error' in res:
                raise core.HarnessError(res['harness_error'])
            results[i] = res
    finally:
        pool.close()
        pool.join()
    outcomes = set()
    kinds = collections.Counter()
    ladders = []
    merged: dict = {}
    for res in results:
        ctx.count('executions', res['exec'])
        ctx.count('inputs', res['inputs'])
        ctx.count('read_message_runs', res['seam2'])
        ctx.count('nontrivial', res['reached'])
        outcomes.update(tuple(o) for o in res['outcomes'])
        kinds.update(res['kinds'])
        if res['info']:
            ladders.append(res['info'])
        for sig, (what, case, n, key) in res['viol'].items():
            cur = merged.get(sig)
            if cur is None:
                merged[sig] = [what, case, n, tuple(key)]
            else:
                cur[2] += n
                if tuple(key) < cur[3]:
                    cur[0], cur[1], cur[3] = what, case, tuple(key)
    for sig in sorted(merged):
        what, case, n, key = merged[sig]
        ctx.violation(sig, witness_text(case) + ': ' + what, case)
        ctx.viol[sig]['count'] = n
    for o in outcomes:
        ctx.add_to_set('outcomes', o)
    ctx.counters['states'] = len(outcomes)
    ctx.counters['transitions'] = ctx.counters.get('executions', 0)
    ctx.counters['seeds'] = len(seeds)
    for k, v in sorted(kinds.items()):
        ctx.counters[f'deviations_{k}' if not k.startswith('sweep-') else k.replace('-', '_', 1)] = v
    ctx.counters['ladder_members'] = sum(len(l['sizes']) for l in ladders)
    ctx.coverage_extra['ladders'] = {f'{l["ladder"]}@{l["limit"]}': {'N': l['sizes'], 'outcome': l['outcomes']} for l in sorted(ladders, key=lambda l: (l['ladder'], l['limit']))}
    ctx.sample({'seed': seeds[0]['name'], 'type': seeds[0]['type'], 'body': seeds[0]['body'].hex()[:120], 'single_deviations': len(deviations(seeds[0]['type'], seeds[0]['body']))})
    ctx.sample({'ladder': 'unknown-attr-3', 'N': ladder_sizes('unknown-attr-3', 4096)})
    if os.environ.get('C03_PARTS'):
        ctx.cap(f'restricted to parts {os.environ["C03_PARTS"]} by C03_PARTS')
    if ctx.tier == 'quick':
        ctx.cap('pairs of deviations are enumerated in the thorough tier only')
    ctx.cap('"all byte strings up to the negotiated maximum" is not enumerable: exhaustive inside the stated bounds only')


def _indexed_worker(arg):
    """Never let anything but a result leave a pool worker: an escaping BaseException would kill it and hang the pool."""
    i, job = arg
    try:
        if os.environ.get('C03_TIMING') == '1':
            import time

            t0 = time.process_time()
            res = worker(job)
            print(f'C03_TIMING cpu={time.process_time() - t0:7.2f}s job={str(job)[:110]} budget_permille_max={_Steps.max_permille} at={_Steps.max_at}', file=sys.stderr)
            return i, res
        return i, worker(job)
    except BaseException as e:  # noqa: BLE001
        _Steps.limit = 1 << 62
        return i, {'harness_error': f'{type(e).__name__}: {e} in job {str(job)[:200]}\n{traceback.format_exc()[-1500:]}'}


def witness_text(case) -> str:
    if case.get('part') == 'ladder':
        return f'ladder {case["ladder"]} N={case["n"]} limit {case["limit"]}'
    hx = case['body']
    return f'type {case["type"]} body {hx if len(hx) <= 160 else hx[:160] + "..(" + str(len(hx) // 2) + " bytes)"} session {case["session"]}'


def replay(case):
    install_counter()
    if case.get('part') == 'ladder':
        mtype, body = ladder_member(case['ladder'], case['n'])
        viols, execs, info = run_ladder(case['ladder'], case['limit'])
        return [{'signature': sig, 'what': what} for sig, what, c, size in viols]
    S = session(case['session'])
    if case.get('part') == 'after':
        res = _new_result()
        _after(res, S, {'type': case['prior_type'], 'body': bytes.fromhex(case['prior_body'])}, {'type': case['type'], 'body': bytes.fromhex(case['body'])}, do_seam2=True)
        return [{'signature': sig, 'what': v[0]} for sig, v in res['viol'].items()]
    viols, okey, reach, execs, _s2 = judge(S, case['type'], bytes.fromhex(case['body']), bool(case.get('valid')))
    return [{'signature': sig, 'what': what} for sig, what in viols]
