"""C14 - API commands: same order, one acknowledgement each, no side effects on error.   E-seq x E-dev.

Full virtual world with three neighbors and one API child.  Command bytes are written to the child's pipe in
controller-chosen chunks, each followed by the real Processes._async_reader_callback; replies are read from the
real pipe.  (A) every sequence of <= k commands x every chunking; (B) every selector form x term combination.
"""

from __future__ import annotations

import itertools
import multiprocessing as mp
import os

from vt import core
from vt.world import World

PROPERTY = 'C14'

CFG = """
process api { run /bin/cat; encoder json; }
neighbor 127.0.0.2 {
  router-id 1.2.3.4; local-address 127.0.0.1; local-as 65001; peer-as 65002;
  api { processes [ api ]; }
  family { ipv4 unicast; ipv6 unicast; ipv4 flow; }
}
neighbor 127.0.0.3 {
  router-id 1.2.3.4; local-address 127.0.0.1; local-as 65001; peer-as 65003;
  api { processes [ api ]; }
  family { ipv4 unicast; ipv6 unicast; ipv4 flow; }
}
neighbor 127.0.0.4 {
  router-id 5.6.7.8; local-address 127.0.0.1; local-as 65009; peer-as 65002;
  api { processes [ api ]; }
  family { ipv4 unicast; ipv6 unicast; ipv4 flow; }
}
neighbor 127.0.0.20 {
  router-id 1.2.3.40; local-address 127.0.0.1; local-as 650010; peer-as 650020;
  api { processes [ api ]; }
  family { ipv4 unicast; ipv6 unicast; ipv4 flow; }
}
"""
# n4: every one of its values has the corresponding value of n1 as a string prefix (a selector names whole values)
NEIGHBORS = {
    'n1': dict(ip='127.0.0.2', **{'local-as': '65001', 'peer-as': '65002', 'router-id': '1.2.3.4'}),
    'n2': dict(ip='127.0.0.3', **{'local-as': '65001', 'peer-as': '65003', 'router-id': '1.2.3.4'}),
    'n3': dict(ip='127.0.0.4', **{'local-as': '65009', 'peer-as': '65002', 'router-id': '5.6.7.8'}),
    'n4': dict(ip='127.0.0.20', **{'local-as': '650010', 'peer-as': '650020', 'router-id': '1.2.3.40'}),
}

# (name, v6 line, v4 line, expected terminal reply, effect on the model: (op, prefix, target set) or None)
ALL = ('n1', 'n2', 'n3', 'n4')
FLOW_NLRI = 'flow destination-ipv4 10.13.0.0/24'
COMMANDS = [
    ('annA', 'peer * announce route 10.1.0.0/24 next-hop 2.2.2.2', 'announce route 10.1.0.0/24 next-hop 2.2.2.2', 'done', ('add', '10.1.0.0/24', ALL)),
    ('wdrA', 'peer * withdraw route 10.1.0.0/24', 'withdraw route 10.1.0.0/24', 'done', ('del', '10.1.0.0/24', ALL)),
    ('annB1', 'peer 127.0.0.2 announce route 10.2.0.0/24 next-hop 2.2.2.2', 'neighbor 127.0.0.2 announce route 10.2.0.0/24 next-hop 2.2.2.2', 'done', ('add', '10.2.0.0/24', ('n1',))),
    ('annN2', 'peer 127.0.0.3 announce route 10.2.1.0/24 next-hop 2.2.2.2', 'neighbor 127.0.0.3 announce route 10.2.1.0/24 next-hop 2.2.2.2', 'done', ('add', '10.2.1.0/24', ('n2',))),
    ('ann6', 'peer * announce ipv6 unicast 2001:db8:5::/48 next-hop 2001:db8::1', 'announce ipv6 unicast 2001:db8:5::/48 next-hop 2001:db8::1', 'done', ('add', '2001:db8:5::/48', ALL)),
    ('badval', 'peer * announce route 10.3.0.0/24 next-hop 2.2.2.2 med 99999999999', 'announce route 10.3.0.0/24 next-hop 2.2.2.2 med 99999999999', 'error', None),
    ('badsyntax', 'peer * announce route 10.3.0.0/33 next-hop 2.2.2.2', 'announce route 10.3.0.0/33 next-hop 2.2.2.2', 'error', None),
    ('nonexthop', 'peer * announce route 10.3.0.0/24', 'announce route 10.3.0.0/24', 'error', None),
    ('unknown', 'frobnicate the routes', 'frobnicate the routes', 'error', None),
    ('nopeer', 'peer 127.0.0.9 announce route 10.4.0.0/24 next-hop 2.2.2.2', 'neighbor 127.0.0.9 announce route 10.4.0.0/24 next-hop 2.2.2.2', 'error', None),
    # no session is established in this harness: an EOR has nobody to go to and is refused (one terminal reply all the same)
    ('eor', 'peer * announce eor ipv4 unicast', 'announce eor ipv4 unicast', 'error', None),
    ('flush', 'rib flush out', 'flush adj-rib out', 'done', None),
    ('ping', 'session ping', None, 'done', None),
    # --- stateful / multi-route commands (model() below gives their meaning) ---
    ('clear', 'rib clear out', 'clear adj-rib out', 'done', ('clear',)),
    ('attrs2', 'peer * announce attributes next-hop 2.2.2.2 nlri 10.6.0.0/24 10.6.1.0/24', 'announce attributes next-hop 2.2.2.2 nlri 10.6.0.0/24 10.6.1.0/24', 'done', ('add', ('10.6.0.0/24', '10.6.1.0/24'), ALL)),
    # the second prefix cannot be parsed: the command as a whole is refused and its first prefix must not be announced
    ('attrsbad', 'peer * announce attributes next-hop 2.2.2.2 nlri 10.6.0.0/24 10.6.1.0/33', 'announce attributes next-hop 2.2.2.2 nlri 10.6.0.0/24 10.6.1.0/33', 'error', None),
    ('split', 'peer * announce route 10.8.0.0/24 next-hop 2.2.2.2 split /25', 'announce route 10.8.0.0/24 next-hop 2.2.2.2 split /25', 'done', ('add', ('10.8.0.0/25', '10.8.0.128/25'), ALL)),
    ('inline', 'peer * group announce route 10.9.0.0/24 next-hop 2.2.2.2 ; announce route 10.9.1.0/24 next-hop 2.2.2.2', None, 'done', ('add', ('10.9.0.0/24', '10.9.1.0/24'), ALL)),
    ('inline1', 'peer 127.0.0.3 group announce route 10.9.0.0/24 next-hop 2.2.2.2 ; withdraw route 10.1.0.0/24', None, 'done', ('multi', (('add', '10.9.0.0/24', ('n2',)), ('del', '10.1.0.0/24', ('n2',))))),
    # the same prefix as annA with another attribute set
    ('annA2', 'peer * announce route 10.1.0.0/24 next-hop 2.2.2.2 med 7 community [ 65000:7 ]', 'announce route 10.1.0.0/24 next-hop 2.2.2.2 med 7 community [ 65000:7 ]', 'done', ('add', '10.1.0.0/24', ALL)),
    # nested syntax, accepted and refused inside the braces; a list that ends badly; flow rules accepted and refused: what a
    # refused command had already parsed must not show up in a later command
    ('nested', 'peer * announce route 10.11.0.0/24 { next-hop 2.2.2.2 ; med 5 ; }', 'announce route 10.11.0.0/24 { next-hop 2.2.2.2 ; med 5 ; }', 'done', ('add', '10.11.0.0/24', ALL)),
    ('nestedbad', 'peer * announce route 10.12.0.0/24 { next-hop 2.2.2.2 ; local-preference 33 ; bogus 3 ; }', 'announce route 10.12.0.0/24 { next-hop 2.2.2.2 ; local-preference 33 ; bogus 3 ; }', 'error', None),
    ('listbad', 'peer * announce route 10.12.1.0/24 next-hop 2.2.2.2 community [ 1:2 bogus ]', 'announce route 10.12.1.0/24 next-hop 2.2.2.2 community [ 1:2 bogus ]', 'error', None),
    ('flow', 'peer * announce flow route { match { destination 10.13.0.0/24; } then { discard; } }', 'announce flow route { match { destination 10.13.0.0/24; } then { discard; } }', 'done', ('add', FLOW_NLRI, ALL)),
    ('flowbad', 'peer * announce flow route { match { destination 10.14.0.0/24; source-port =80; } then { bogus; } }', 'announce flow route { match { destination 10.14.0.0/24; source-port =80; } then { bogus; } }', 'error', None),
    # an inline group whose selector matches no neighbor: whatever the reply, nobody may be changed
    ('inlinenone', 'peer 127.0.0.9 group announce route 10.9.2.0/24 next-hop 2.2.2.2 ; announce route 10.9.3.0/24 next-hop 2.2.2.2', None, None, None),
    ('show', 'rib show out', 'show adj-rib out', 'done', None),
    ('version', 'system version', 'version', 'done', None),
    ('comment', '# peer * announce route 10.3.0.0/24 next-hop 2.2.2.2', '# announce route 10.3.0.0/24 next-hop 2.2.2.2', 'done', None),
    ('empty', '', '', 'done', None),
    ('gstart', 'group start', None, 'done', ('gstart',)),
    ('gend', 'group end', None, 'done', ('gend',)),
    # a line in the form that a group block buffers (no target in front); outside a block API v6 does not know it
    ('bare', 'announce route 10.5.0.0/24 next-hop 2.2.2.2', None, 'error', ('bare-add', '10.5.0.0/24')),
    ('barewd', 'withdraw route 10.1.0.0/24', None, 'error', ('bare-del', '10.1.0.0/24')),
    ('barebad', 'announce route 10.5.0.0/33 next-hop 2.2.2.2', None, 'error', ('bare-bad',)),
    ('ackoff', 'session ack disable', None, 'done', ('ackoff',)),
    ('ackon', 'session ack enable', None, 'done', ('ackon',)),
    ('silence', 'session ack silence', None, 'done', ('silence',)),
    # the indexed route commands: data lines, then one terminal reply like every other command
    ('radd', 'peer * routes add route 10.20.0.0/24 next-hop 2.2.2.2', None, 'done', ('add', '10.20.0.0/24', ALL)),
    ('radd1', 'peer 127.0.0.2 routes add route 10.20.1.0/24 next-hop 2.2.2.2', None, 'done', ('add', '10.20.1.0/24', ('n1',))),
    ('rlist', 'peer * routes list', None, 'done', None),
    ('rremove', 'peer * routes remove route 10.20.0.0/24', None, None, ('del', '10.20.0.0/24', ALL)),
    ('rremove1', 'peer 127.0.0.2 routes remove route 10.20.0.0/24', None, None, ('del', '10.20.0.0/24', ('n1',))),
    ('rbad', 'peer * routes add route 10.20.0.0/33 next-hop 2.2.2.2', None, 'error', None),
    # clear with something that is neither `in` nor `out`: not a command, nothing may change
    ('clearbad', 'rib clear sideways', 'clear adj-rib sideways', 'error', None),
    # a byte above 0x7f in a comment: the line is a comment (or refused) and the lines around it are untouched
    ('utf8', '# caf\u00e9 peer * announce route 10.3.0.0/24 next-hop 2.2.2.2', '# caf\u00e9 announce route 10.3.0.0/24 next-hop 2.2.2.2', None, None),
]
# the commands every sequence length is crossed over / the ones only crossed up to length 2 (with everything)
CORE = ('annA', 'wdrA', 'annB1', 'ann6', 'badval', 'badsyntax', 'nonexthop', 'unknown', 'nopeer', 'eor', 'flush', 'ping')
PARSE3 = ('inlinenone', 'nested', 'nestedbad', 'listbad', 'flow', 'flowbad', 'annA', 'annA2', 'annB1', 'wdrA', 'attrs2', 'attrsbad')
STATEFUL = ('inlinenone', 'annN2', 'annA2', 'nested', 'nestedbad', 'listbad', 'flow', 'flowbad', 'clear', 'attrs2', 'attrsbad', 'split', 'inline', 'inline1', 'show', 'version', 'comment', 'empty', 'gstart', 'gend', 'bare', 'barewd', 'barebad', 'ackoff', 'ackon', 'silence')
BLOCK3 = ('gstart', 'gend', 'bare', 'barewd', 'barebad', 'annA', 'wdrA', 'unknown', 'ackoff', 'ackon', 'silence')
ROUTES3 = ('radd', 'radd1', 'rlist', 'rremove', 'rremove1', 'rbad', 'annA', 'wdrA', 'clear', 'clearbad', 'unknown')
BLOCK4 = ('gstart', 'gend', 'bare', 'barewd', 'barebad', 'annA')
MANY = '\n'.join(f'peer * announce route 10.{100 + i // 250}.{i % 250}.0/24 next-hop 2.2.2.2' for i in range(120))
MANY_PREFIXES = tuple(f'10.{100 + i // 250}.{i % 250}.0/24' for i in range(120))
COMMANDS.append(('many', MANY, None, 'done', ('add', MANY_PREFIXES, ALL)))
CMD = {c[0]: c for c in COMMANDS}
TERMINALS = ('done', 'error')


class _Svc:
    def __init__(self, scope):
        self.scope = tuple(scope)   # the neighbors which list this helper process
        self.expected, self.who, self.unacked = [], [], 0
        self.ack, self.grouping, self.buf = True, False, []


def model_multi(items, version, scopes):
    """Sequential reference semantics.  items: [(service, command name)] in the order the daemon reads them;
    scopes: {service: neighbors that list it}.  Acknowledgement mode and group blocks are per service, the RIBs are
    shared.  Returns ({service: _Svc}, ribs, nothing_accepted, adder)."""
    ribs = {n: set() for n in NEIGHBORS}
    svcs = {name: _Svc(sc) for name, sc in scopes.items()}
    adder = {}
    changed = [False]

    def apply(sv, eff, c):
        """-> False when the command names only neighbors outside the scope of its service (nobody to apply it to)"""
        op = eff[0]
        if op == 'multi':
            return all([apply(sv, e, c) for e in eff[1]])
        if op == 'clear':
            for n in sv.scope:
                ribs[n].clear()
            changed[0] = True
            return True
        pfxs = eff[1] if isinstance(eff[1], tuple) else (eff[1],)
        targets = [n for n in eff[2] if n in sv.scope]
        if not targets:
            return False
        for n in targets:
            for pfx in pfxs:
                changed[0] = True
                if op == 'add':
                    ribs[n].add(pfx)
                    adder[(n, pfx)] = c
                else:
                    ribs[n].discard(pfx)
        return True

    for svc, c in items:
        sv = svcs[svc]
        line = CMD[c][1] if version == 6 else CMD[c][2]
        eff = CMD[c][4]
        if c == 'many':  # 120 announce lines, each a command of its own
            if not sv.grouping:
                apply(sv, eff, c)
            if sv.ack:
                sv.expected += ['done'] * 120
                sv.who += [c] * 120
            else:
                sv.unacked += 120
            continue
        reply = CMD[c][3]
        kind = eff[0] if eff else None
        low = line.strip().lower()
        if sv.grouping and low.startswith(('announce', 'withdraw')):
            # buffered until "group end"; it is acknowledged when buffered and takes effect (on every peer of the
            # process) when the block ends - a member that cannot be parsed has no effect
            if kind == 'bare-add':
                sv.buf.append((('add', eff[1], ALL), c))
            elif kind == 'bare-del':
                sv.buf.append((('del', eff[1], ALL), c))
            elif kind in ('add', 'del'):
                sv.buf.append(((kind, eff[1], ALL), c))
            reply = None if (eff is None or kind == 'bare-bad') else 'done'
        elif kind == 'gstart':
            if sv.grouping:
                reply = 'error'
            else:
                sv.grouping = True
                sv.buf = []
        elif kind == 'gend':
            if not sv.grouping:
                reply = 'error'
            else:
                for e, bc in sv.buf:
                    apply(sv, e, bc)
                sv.buf = []
                sv.grouping = False
        elif kind in ('bare-add', 'bare-del', 'bare-bad'):
            reply = 'error'
        elif kind == 'ackoff':
            sv.expected.append('done')  # this one is answered whatever the mode
            sv.who.append(c)
            sv.ack = False
            continue
        elif kind == 'ackon':
            sv.ack = True
        elif kind == 'silence':
            sv.ack = False
            sv.unacked += 1
            continue
        elif eff:
            if not apply(sv, eff, c):
                reply = 'error'
        if sv.ack:
            sv.expected.append(reply)
            sv.who.append(c)
        else:
            sv.unacked += 1
    return svcs, ribs, not changed[0], adder


def model(seq, version):
    """One API process which every neighbor lists.  Returns (expected terminal replies: 'done' / 'error' / None (either),
    the command each belongs to, number of commands given while acknowledgements were off, final Adj-RIB-Out per
    neighbor, True when nothing was accepted, {(neighbor, prefix): command that announced it last})."""
    svcs, ribs, nothing, adder = model_multi([('a', c) for c in seq], version, {'a': ALL})
    sv = svcs['a']
    return sv.expected, sv.who, sv.unacked, ribs, nothing, adder


def match_replies(expected, unacked, got):
    """None when the observed terminal replies are what the model allows, else (kind, index)."""
    if unacked == 0 and len(got) != len(expected):
        return ('count', None)
    if unacked == 0 or len(got) == len(expected):
        for i, (e, g) in enumerate(zip(expected, got)):
            if e is not None and e != g:
                return ('wrong', i)
        return None
    # commands given while acknowledgements are off are not judged: the expected replies must be found in order
    if len(got) < len(expected) or len(got) > len(expected) + unacked:
        return ('count', None)
    it = iter(got)
    for i, e in enumerate(expected):
        for g in it:
            if e is None or e == g:
                break
        else:
            return ('wrong', i)
    return None


def rib_state(wd):
    out = {}
    names = {p.neighbor.session.peer_address.top(): p for p in wd.peers_map().values()}
    for n, d in NEIGHBORS.items():
        p = names.get(d['ip'])
        if p is None:
            out[n] = None
            continue
        rib = p.neighbor.rib.outgoing
        try:
            queues = (tuple(sorted(str(r.nlri) for r in rib._new_nlri.values())),
                      tuple(sorted(str(nl) for fam in rib._pending_withdraws.values() for nl, _ in fam.values())), len(rib._refresh_routes))
        except AttributeError:
            # the queues are no longer kept under these names: "is anything waiting to be sent" is all that is left to compare
            queues = (rib.pending(), None, None)
        out[n] = (tuple(sorted(str(r.nlri) for r in rib.cached_routes())), queues[0], queues[1], queues[2],
                  tuple(sorted((str(r.nlri), f'next-hop {r.nexthop} {r.attributes}') for r in rib.cached_routes())))
    return out


_ALONE: dict = {}


def alone(c, version):
    """{neighbor: {prefix: attribute text}} after command c given alone to a fresh daemon (the reference for what the
    routes of c look like when c comes after other commands)."""
    key = (c, version)
    if key not in _ALONE:
        line = CMD[c][1] if version == 6 else CMD[c][2]
        with World(CFG, env={'api.version': version}) as wd:
            wd.settle()
            wd.api_write((line + '\n').encode())
            wd.settle()
            wd.advance(0.05)
            wd.settle()
            st = rib_state(wd)
        _ALONE[key] = {n: dict(st[n][4]) for n in st}
    return _ALONE[key]


def parse_replies(raw: bytes):
    lines = raw.decode('ascii', 'replace').split('\n')
    complete = lines[:-1]
    return complete, lines[-1]


def run_sequence(args):
    seq, cuts, version = args[:3]
    inbound = args[3] if len(args) > 3 else None   # (remote address, sends that find the socket buffer full)
    viols = []
    lines = [l for c in seq for l in (CMD[c][1] if version == 6 else CMD[c][2]).split('\n')]
    data = ('\n'.join(lines) + '\n').encode('utf-8')
    seen = []
    with World(CFG, env={'api.version': version}, listen=inbound is not None) as wd:
        wd.settle()
        orig = wd.reactor.api.process

        def spy(reactor, service, command):
            seen.append(command)
            return orig(reactor, service, command)

        wd.reactor.api.process = spy
        before = rib_state(wd)
        if inbound is not None:
            # part (D): a connection ExaBGP refuses arrives with the commands; the NOTIFICATION it is refused with shares the scheduler of the
            # command callbacks, and the peer takes it only after so many attempts
            sock = wd.incoming(remote=(inbound[0], 40000))
            sock.send_blocked = inbound[1]
        bounds = [0] + list(cuts) + [len(data)]
        for a, b in zip(bounds, bounds[1:]):
            wd.api_write(data[a:b])
            wd.settle()
        wd.advance(0.05)
        wd.settle()
        out = wd.api_output()
        after = rib_state(wd)
        exc = wd.loop_exceptions()
    complete, partial = parse_replies(out)
    if partial:
        viols.append(('reply-unterminated', f'reply stream ends with an unterminated line {partial[:60]!r}'))
    # (1) same commands in the same order
    # (octets above 0x7f have no agreed reading: the ASCII part of a line is what is compared)
    norm = [' '.join(''.join(ch for ch in l if ord(ch) < 128).split()) for l in lines]
    got = [' '.join(''.join(ch for ch in s if ord(ch) < 128).split()) for s in seen]
    if got != norm:
        kind = 'lost' if len(got) < len(norm) else ('extra' if len(got) > len(norm) else 'altered')
        viols.append((f'command-stream:{kind}', f'commands executed {got} != lines written {norm} (chunks at {list(cuts)})'))
    # (2) exactly one terminal reply per command, in order
    expected, who, unacked, ribs, nothing_accepted, adder = model(seq, version)
    terms_n = [l for l in complete if l in TERMINALS]
    bad = match_replies(expected, unacked, terms_n)
    if bad is not None:
        if bad[0] == 'count':
            viols.append((f'ack-count:{len(expected)}->{len(terms_n)}', f'{len(expected)} commands to be acknowledged in {list(seq)} answered with terminal replies {terms_n} (all lines: {[l[:10] for l in complete][:12]})'))
        else:
            i = bad[1]
            viols.append((f'ack-wrong:{who[i]}:{expected[i]}->{terms_n[i] if i < len(terms_n) and len(terms_n) == len(expected) else "?"}', f'commands {list(seq)}: replies {terms_n}, expected {expected}'))
    # (3) RIB effects: exactly the model's
    for n in NEIGHBORS:
        cached = set(after[n][0])
        if cached != ribs[n]:
            sig = 'side-effect-of-refused-command' if nothing_accepted else 'rib-differs-from-model'
            viols.append((f'{sig}:{n}', f'commands {list(seq)}: Adj-RIB-Out of {n} holds {sorted(cached)}, the commands that succeeded say {sorted(ribs[n])}'))
    # (3b) each route carries the attributes its own command gave it: the same text as when that command is given alone
    for n in NEIGHBORS:
        got_attrs = dict(after[n][4])
        for pfx in sorted(ribs[n] & set(after[n][0])):
            c = adder.get((n, pfx))
            ref = alone(c, version).get(n, {}).get(pfx) if c and c != 'many' else None
            if ref is not None and got_attrs.get(pfx) != ref:
                viols.append((f'attributes-differ-from-command:{c}', f'commands {list(seq)}: {n} holds {pfx} with [{got_attrs.get(pfx)}], the command that announced it ({c}) alone gives [{ref}]'))
                break
    if all(CMD[c][4] is None and CMD[c][3] == 'error' for c in seq) and before != after:
        viols.append(('side-effect-of-refused-command:queues', f'only refused commands {list(seq)} but RIB state changed {before} -> {after}'))
    if exc:
        viols.append(('loop-exception', exc[0][:160]))
    seen_v = set()
    outv = []
    for s, wh in viols:
        if s not in seen_v:
            seen_v.add(s)
            outv.append((s, wh))
    return outv, (tuple(terms_n), tuple(sorted((n, tuple(sorted(after[n][0]))) for n in after)))


# ------------------------------------------------------------------------------------------------
# (C) two helper processes, each listed by its own set of neighbors
# ------------------------------------------------------------------------------------------------
CFG2 = """
process svca { run /bin/cat; encoder json; }
process svcb { run /bin/cat; encoder json; }
neighbor 127.0.0.2 {
  router-id 1.2.3.4; local-address 127.0.0.1; local-as 65001; peer-as 65002;
  api { processes [ svca svcb ]; }
  family { ipv4 unicast; ipv6 unicast; ipv4 flow; }
}
neighbor 127.0.0.3 {
  router-id 1.2.3.4; local-address 127.0.0.1; local-as 65001; peer-as 65003;
  api { processes [ svca ]; }
  family { ipv4 unicast; ipv6 unicast; ipv4 flow; }
}
neighbor 127.0.0.4 {
  router-id 5.6.7.8; local-address 127.0.0.1; local-as 65009; peer-as 65002;
  api { processes [ svcb ]; }
  family { ipv4 unicast; ipv6 unicast; ipv4 flow; }
}
neighbor 127.0.0.20 {
  router-id 1.2.3.40; local-address 127.0.0.1; local-as 650010; peer-as 650020;
  family { ipv4 unicast; ipv6 unicast; ipv4 flow; }
}
"""
SCOPES = {'svca': ('n1', 'n2'), 'svcb': ('n1', 'n3')}
MULTI2 = ('annA', 'wdrA', 'annB1', 'annN2', 'unknown', 'badval', 'gstart', 'bare', 'gend', 'clear', 'ackoff', 'ackon')
MULTI3 = ('annA', 'wdrA', 'annN2', 'unknown', 'gstart', 'bare', 'gend', 'clear')


def run_multi(items):
    """items: ((service, command), ...) written one line at a time, each to the pipe of its own helper process."""
    viols = []
    with World(CFG2, env={'api.version': 6}) as wd:
        wd.settle()
        child = wd.children_by_service()
        if sorted(child) != sorted(SCOPES):
            raise core.HarnessError(f'helper processes {sorted(child)}')
        for svc, c in items:
            wd.api_write((CMD[c][1] + '\n').encode(), child=child[svc])
            wd.settle()
        wd.advance(0.05)
        wd.settle()
        out = {svc: wd.api_output(child=child[svc]) for svc in child}
        after = rib_state(wd)
        exc = wd.loop_exceptions()
    svcs, ribs, nothing, adder = model_multi(items, 6, SCOPES)
    replies = {}
    for svc, sv in svcs.items():
        complete, partial = parse_replies(out[svc])
        terms = [l for l in complete if l in TERMINALS]
        replies[svc] = tuple(terms)
        if partial:
            viols.append(('multi:reply-unterminated', f'{svc}: reply stream ends with an unterminated line {partial[:60]!r}'))
        bad = match_replies(sv.expected, sv.unacked, terms)
        if bad is not None:
            other = [x for x in svcs if x != svc][0]
            viols.append((f'multi:ack-{bad[0]}', f'commands {list(items)}: process {svc} read the terminal replies {terms}, its own commands call for {sv.expected} (the other process {other} read {[l for l in parse_replies(out[other])[0] if l in TERMINALS]})'))
    for n in NEIGHBORS:
        cached = set(after[n][0])
        if cached != ribs[n]:
            inscope = [svc for svc, sc in SCOPES.items() if n in sc]
            viols.append((f'multi:rib-differs-from-model:{"unlisted" if not inscope else "listed"}', f'commands {list(items)}: Adj-RIB-Out of {n} (listing {inscope}) holds {sorted(cached)}, the commands accepted from the processes it lists say {sorted(ribs[n])}'))
    if exc:
        viols.append(('loop-exception', exc[0][:160]))
    return _dedup(viols), (tuple(sorted(replies.items())), tuple(sorted((n, tuple(sorted(after[n][0]))) for n in after)))


# ------------------------------------------------------------------------------------------------
# part (E): watchdog commands (they move the configured routes carrying that watchdog name in and out of the Adj-RIB-Out) with selectors
# ------------------------------------------------------------------------------------------------
CFGW = CFG.replace('family { ipv4 unicast; ipv6 unicast; ipv4 flow; }',
                   'family { ipv4 unicast; ipv6 unicast; ipv4 flow; }\n  static { route 10.16.0.0/24 next-hop 2.2.2.2 watchdog dog withdraw; route 10.17.0.0/24 next-hop 2.2.2.2 watchdog cat; }')
WD_ROUTE = {'dog': '10.16.0.0/24', 'cat': '10.17.0.0/24'}
# name: (v6 line, v4 line, reply, (op, watchdog name, targets) | None)
WCMD = {
    'dog+1': ('peer 127.0.0.2 announce watchdog dog', 'neighbor 127.0.0.2 announce watchdog dog', 'done', ('up', 'dog', ('n1',))),
    'dog+2': ('peer 127.0.0.3 announce watchdog dog', 'neighbor 127.0.0.3 announce watchdog dog', 'done', ('up', 'dog', ('n2',))),
    'dog+*': ('peer * announce watchdog dog', 'announce watchdog dog', 'done', ('up', 'dog', ALL)),
    'dog-1': ('peer 127.0.0.2 withdraw watchdog dog', 'neighbor 127.0.0.2 withdraw watchdog dog', 'done', ('down', 'dog', ('n1',))),
    'cat-1': ('peer 127.0.0.2 withdraw watchdog cat', 'neighbor 127.0.0.2 withdraw watchdog cat', 'done', ('down', 'cat', ('n1',))),
    'cat-as': ('peer [* peer-as 65002] withdraw watchdog cat', 'neighbor * peer-as 65002 withdraw watchdog cat', 'done', ('down', 'cat', ('n1', 'n3'))),
    'cat-*': ('peer * withdraw watchdog cat', 'withdraw watchdog cat', 'done', ('down', 'cat', ALL)),
    'cat+3': ('peer 127.0.0.4 announce watchdog cat', 'neighbor 127.0.0.4 announce watchdog cat', 'done', ('up', 'cat', ('n3',))),
    'bird+1': ('peer 127.0.0.2 announce watchdog bird', 'neighbor 127.0.0.2 announce watchdog bird', 'done', None),   # no route carries that name
    'dog+none': ('peer 127.0.0.9 announce watchdog dog', 'neighbor 127.0.0.9 announce watchdog dog', 'error', None),
    'unknown': ('frobnicate the routes', 'frobnicate the routes', 'error', None),
}


def run_watchdog(args):
    seq, version = args
    viols = []
    lines = [WCMD[c][0 if version == 6 else 1] for c in seq]
    with World(CFGW, env={'api.version': version}) as wd:
        wd.settle()
        before = rib_state(wd)
        for line in lines:
            wd.api_write((line + '\n').encode())
            wd.settle()
        wd.advance(0.05)
        wd.settle()
        complete, partial = parse_replies(wd.api_output())
        after = rib_state(wd)
        exc = wd.loop_exceptions()
    # the model: a watchdog route is in the Adj-RIB-Out of a neighbor or held back, per neighbor
    ribs = {n: {WD_ROUTE['cat']} for n in NEIGHBORS}
    for n in NEIGHBORS:
        if set(before[n][0]) != ribs[n]:
            raise core.HarnessError(f'watchdog configuration: {n} starts with {before[n][0]}')
    expected = []
    for c in seq:
        expected.append(WCMD[c][2])
        eff = WCMD[c][3]
        if eff:
            for n in eff[2]:
                (ribs[n].add if eff[0] == 'up' else ribs[n].discard)(WD_ROUTE[eff[1]])
    terms = [l for l in complete if l in TERMINALS]
    if terms != expected:
        viols.append((f'watchdog:ack:{len(expected)}->{len(terms)}' if len(terms) != len(expected) else 'watchdog:ack-wrong', f'commands {lines}: terminal replies {terms}, expected {expected}'))
    for n in NEIGHBORS:
        if set(after[n][0]) != ribs[n]:
            named = {t for c in seq if WCMD[c][3] for t in WCMD[c][3][2]}
            viols.append((f'watchdog:rib-differs-from-model:{"selected" if n in named else "not-selected"}', f'commands {lines}: Adj-RIB-Out of {n} holds {sorted(after[n][0])}, the commands and their selectors say {sorted(ribs[n])}'))
    if exc:
        viols.append(('loop-exception', exc[0][:160]))
    return _dedup(viols), (tuple(terms), tuple(sorted((n, tuple(sorted(after[n][0]))) for n in after)))


def watchdog_jobs(tier):
    names = list(WCMD)
    jobs = [(seq, 6) for k in (1, 2, 3) for seq in itertools.product(names, repeat=k)]
    jobs += [(seq, 4) for k in ((1, 2) if tier == 'quick' else (1, 2, 3)) for seq in itertools.product(names, repeat=k)]
    return jobs


def _dedup(viols):
    seen_v = set()
    outv = []
    for sg, wh in viols:
        if sg not in seen_v:
            seen_v.add(sg)
            outv.append((sg, wh))
    return outv


def multi_jobs(tier):
    items2 = [(svc, c) for svc in SCOPES for c in MULTI2]
    items3 = [(svc, c) for svc in SCOPES for c in MULTI3]
    jobs = [(i,) for i in items2]
    jobs += list(itertools.product(items2, repeat=2))
    jobs += list(itertools.product(items3 if tier == 'quick' else items2, repeat=3))
    return list(dict.fromkeys(jobs))


# ------------------------------------------------------------------------------------------------
# selectors
# ------------------------------------------------------------------------------------------------
TERM_VALUES = {
    # two values in use, one that is only the beginning of values in use (matches nobody), one of n4
    'local-as': ['65001', '65009', '6500', '650010'],
    'peer-as': ['65002', '65003', '6500', '650020'],
    'router-id': ['1.2.3.4', '5.6.7.8', '1.2.3', '1.2.3.40'],
}
IPS = ['*', '127.0.0.2', '127.0.0.3', '127.0.0.4', '127.0.0.20', '127.0.0', '127.0.0.9']


def selectors():
    """(text of one selector, expected matching neighbor set)"""
    keys = list(TERM_VALUES)
    for ip in IPS:
        for r in range(0, len(keys) + 1):
            for ks in itertools.combinations(keys, r):
                for vals in itertools.product(*[TERM_VALUES[k] for k in ks]):
                    terms = list(zip(ks, vals))
                    text = ip + ''.join(f' {k} {v}' for k, v in terms)
                    exp = frozenset(n for n, d in NEIGHBORS.items() if (ip == '*' or d['ip'] == ip) and all(d[k] == v for k, v in terms))
                    yield text, exp, len(terms)


def selector_cases(tier):
    sels = list(selectors())
    out = []
    for text, exp, nterms in sels:
        if not text.startswith('*'):
            out.append(('plain', f'peer {text}', exp))
        out.append(('bracket', f'peer [{text}]', exp))
    # bracket lists: unions of two selectors
    basis = [s for s in sels if s[2] <= (1 if tier == 'quick' else 2)]
    step = 7 if tier == 'quick' else 3
    for i, (t1, e1, _) in enumerate(basis):
        for j, (t2, e2, _) in enumerate(basis):
            if (i * 31 + j) % step == 0:
                out.append(('list', f'peer [{t1}, {t2}]', e1 | e2))
    out.append(('plain', 'peer *', frozenset(NEIGHBORS)))
    out += [(form + '+group', prefix, exp) for form, prefix, exp in out if form in ('plain', 'bracket')]
    return out


def run_selector(args):
    form, prefix, expected = args
    if form.endswith('+group'):
        # the same selector in front of a one-line group of two announces
        line = f'{prefix} group announce route 10.7.0.0/24 next-hop 2.2.2.2 ; announce route 10.7.1.0/24 next-hop 2.2.2.2\n'
    else:
        line = f'{prefix} announce route 10.7.0.0/24 next-hop 2.2.2.2\n'
    with World(CFG, env={'api.version': 6}) as wd:
        wd.settle()
        wd.api_write(line.encode())
        wd.settle()
        wd.advance(0.05)
        wd.settle()
        out = wd.api_output()
        after = rib_state(wd)
    got = frozenset(n for n in NEIGHBORS if '10.7.0.0/24' in after[n][0])
    complete, partial = parse_replies(out)
    terms = [l for l in complete if l in TERMINALS]
    viols = []
    if got != expected:
        extra = sorted(got - expected)
        missing = sorted(expected - got)
        kind = 'too-many' if extra and not missing else ('too-few' if missing and not extra else 'different')
        star = 'wildcard' if '*' in prefix else 'address'
        viols.append((f'selector:{form}:{star}:{kind}', f'`{prefix} announce ...` changed {sorted(got)}, the neighbors matching every term are {sorted(expected)}'))
    want_reply = ['done'] if expected else ['error']
    if form.endswith('+group') and not expected and terms in (['done'], ['error']):
        terms = want_reply  # a group for nobody may be answered either way: one terminal reply is what is asked
    if got == expected and terms != want_reply:
        viols.append((f'selector-reply:{form}:{want_reply[0]}->{terms}', f'`{prefix} announce ...` matched {sorted(expected)} and was answered {terms}'))
    return viols, (form, len(got), tuple(terms))


def chunkings(n, maxcuts):
    yield ()
    for k in range(1, maxcuts + 1):
        for c in itertools.combinations(range(1, n), k):
            yield c


def plan(tier):
    jobs = []
    names = [c[0] for c in COMMANDS if c[0] != 'many']
    seen = set()

    def add(seq, cuts, version):
        key = (tuple(seq), tuple(cuts), version)
        if key not in seen:
            seen.add(key)
            jobs.append(key)

    # sequences, API v6: every sequence of <= 2 commands over the whole alphabet; every sequence of 3 over the core
    # alphabet and over the block/acknowledgement alphabet; 4 over the block alphabet (thorough: 3 over everything, 4 over the core)
    for k in (1, 2):
        for seq in itertools.product(names, repeat=k):
            add(seq, (), 6)
    for seq in itertools.product(CORE, repeat=3):
        add(seq, (), 6)
    for seq in itertools.product(BLOCK3, repeat=3):
        add(seq, (), 6)
    for seq in itertools.product(PARSE3, repeat=3):
        add(seq, (), 6)
    for seq in itertools.product(BLOCK4, repeat=4):
        add(seq, (), 6)
    for seq in itertools.product(ROUTES3, repeat=3):
        add(seq, (), 6)
    if tier != 'quick':
        for seq in itertools.product(names, repeat=3):
            add(seq, (), 6)
        for seq in itertools.product(CORE, repeat=4):
            add(seq, (), 6)
    # a long-running command (the listing of 120 routes on 4 neighbors is produced over several loop rounds) followed by
    # commands answered at once: the replies must not overtake
    for tail in itertools.product(('unknown', 'annA', 'version', 'badval', 'show'), repeat=2):
        add(('many', 'show') + tail, (), 6)
    # chunkings: every single cut and (thorough) every pair of cuts for a set of two-command sequences
    chunk_seqs = [('annA', 'utf8', 'annB1'), ('annA', 'wdrA'), ('badval', 'annA'), ('unknown', 'annB1'), ('annA', 'unknown'), ('gstart', 'bare', 'gend'), ('ackoff', 'annA', 'ackon'), ('attrs2', 'empty', 'unknown')]
    for seq in chunk_seqs:
        data_len = len('\n'.join(CMD[c][1] for c in seq).encode('utf-8')) + 1
        for cuts in chunkings(data_len, 1 if (tier == 'quick' or len(seq) > 2) else 2):
            if cuts:
                add(seq, cuts, 6)
        add(seq, tuple(range(1, data_len)), 6)  # one byte at a time
    # API v4 syntax
    v4 = [c[0] for c in COMMANDS if c[2] is not None]
    for k in (1, 2):
        for seq in itertools.product(v4, repeat=k):
            add(seq, (), 4)
    for seq in itertools.product(('annA', 'wdrA', 'badsyntax', 'annB1', 'clear', 'attrs2', 'attrsbad'), repeat=3):
        add(seq, (), 4)
    return jobs


# part (D): 12 one-line commands written at once while a refused inbound connection is being answered
BUSY = ('annA', 'annB1', 'annN2', 'ann6', 'annA2', 'nested', 'unknown', 'attrs2', 'split', 'wdrA', 'badval', 'version')


def inbound_jobs(tier):
    top = 330 if tier == 'quick' else 660
    jobs = [(BUSY, (), 6, ('127.0.0.77', k)) for k in range(top)]            # no neighbor configured for that address
    jobs += [(BUSY, (), 4, ('127.0.0.77', k)) for k in range(0, top if tier != 'quick' else 110)]
    return jobs


def run(ctx: core.Ctx) -> None:
    jobs = plan(ctx.tier) + inbound_jobs(ctx.tier)
    sels = selector_cases(ctx.tier)
    ctx.rule = (f'(A) every sequence of <= 2 commands (quick: 1 in 9 of the length-3 ones, thorough: all) over {len(COMMANDS)} commands (announce/withdraw to all or one peer, IPv6, out-of-range value, bad mask, missing next hop, unknown verb, no matching peer, eor, flush, ping), API v6 and v4 syntax; '
                'every single cut (thorough: every pair of cuts) and byte-by-byte delivery for 7 streams; (C) two helper processes listed by different neighbor sets: every sequence of <= 2 (process, command) items over 12 commands and of 3 over 8 (thorough: 12), each process must read exactly the replies to its own commands and only the neighbors listing the process may change; (D) 12 commands written at once while an inbound connection nobody is configured for is refused with a NOTIFICATION scheduled among the command callbacks, the socket taking it after k attempts, every k < 330 (thorough 660); (E) every sequence of <= 3 of 11 watchdog commands (announce/withdraw watchdog with one address, an attribute term, the wildcard, an address of nobody, a name no route carries) on four neighbors whose configured routes carry two watchdog names; (B) every selector: 7 address forms (one a truncated address, one neighbor whose every value extends those of another neighbor) x every subset of {local-as, peer-as, router-id} x 4 values each (one only the beginning of values in use), plain and bracket form, and bracket lists of two; '
                'non-trivial = distinct (reply sequence, final RIBs) outcome')
    ctx.assumptions += ['reference model: one terminal reply per command in order; refused commands change nothing; a selector matches a neighbor iff its address matches (or *) and every term equals the neighbor setting']
    pool = mp.Pool(min(16, os.cpu_count() or 1))
    try:
        results = pool.map(run_sequence, jobs, chunksize=8)
        core.replay_check(ctx, pool, run_sequence, jobs, results, stride=32)
        for job, (viols, outcome) in zip(jobs, results):
            ctx.count('executions')
            ctx.count('transitions', len(job[0]) + len(job[1]))
            ctx.add_to_set('outcomes', outcome)
            for sig, what in viols:
                if 'utf8' in job[0]:
                    sig += ':non-ascii'   # (a sequence holding the line with a byte above 0x7f)
                if len(job) > 3:
                    what += f'  [while an inbound connection from {job[3][0]} is refused, its NOTIFICATION accepted by the socket after {job[3][1]} attempts]'
                ctx.violation(sig, f'[API v{job[2]}] {what}', {'kind': 'seq', 'seq': list(job[0]), 'cuts': list(job[1]), 'version': job[2], 'inbound': list(job[3]) if len(job) > 3 else None})
        mjobs = multi_jobs(ctx.tier)
        mresults = pool.map(run_multi, mjobs, chunksize=8)
        core.replay_check(ctx, pool, run_multi, mjobs, mresults, stride=32)
        for job, (viols, outcome) in zip(mjobs, mresults):
            ctx.count('executions')
            ctx.count('transitions', len(job))
            ctx.add_to_set('outcomes', outcome)
            for sig, what in viols:
                ctx.violation(sig, what, {'kind': 'multi', 'items': [list(x) for x in job]})
        ctx.coverage_extra['two_process_sequences'] = len(mjobs)
        wjobs = watchdog_jobs(ctx.tier)
        wresults = pool.map(run_watchdog, wjobs, chunksize=8)
        core.replay_check(ctx, pool, run_watchdog, wjobs, wresults, stride=32)
        for job, (viols, outcome) in zip(wjobs, wresults):
            ctx.count('executions')
            ctx.count('transitions', len(job[0]))
            ctx.add_to_set('outcomes', outcome)
            for sig, what in viols:
                ctx.violation(sig, f'[API v{job[1]}] {what}', {'kind': 'watchdog', 'seq': list(job[0]), 'version': job[1]})
        ctx.coverage_extra['watchdog_sequences'] = len(wjobs)
        for job, (viols, outcome) in zip(sels, pool.imap(run_selector, sels, chunksize=8)):
            ctx.count('executions')
            ctx.count('transitions')
            ctx.add_to_set('outcomes', outcome)
            for sig, what in viols:
                ctx.violation(sig, what, {'kind': 'selector', 'form': job[0], 'prefix': job[1], 'expected': sorted(job[2])})
        ctx.sample({'sequence': list(jobs[len(jobs) // 2][0]), 'cuts': list(jobs[len(jobs) // 2][1])})
        ctx.sample({'selector': sels[len(sels) // 3][1], 'expected': sorted(sels[len(sels) // 3][2])})
        ctx.counters['states'] = ctx.set_size('outcomes')
        ctx.counters['nontrivial'] = ctx.set_size('outcomes')
        ctx.coverage_extra['sequences'] = len(jobs)
        ctx.coverage_extra['selectors'] = len(sels)
    finally:
        pool.close()
        pool.join()


def replay(case):
    if case['kind'] == 'watchdog':
        viols, o = run_watchdog((tuple(case['seq']), case['version']))
        return [{'signature': s, 'what': wh} for s, wh in viols]
    if case['kind'] == 'multi':
        viols, o = run_multi(tuple(tuple(x) for x in case['items']))
        return [{'signature': s, 'what': wh} for s, wh in viols]
    if case['kind'] == 'seq':
        viols, o = run_sequence((tuple(case['seq']), tuple(case['cuts']), case['version']) + ((tuple(case['inbound']),) if case.get('inbound') else ()))
        if 'utf8' in case['seq']:
            viols = [(s + ':non-ascii', wh) for s, wh in viols]
    else:
        viols, o = run_selector((case['form'], case['prefix'], frozenset(case['expected'])))
    return [{'signature': s, 'what': wh} for s, wh in viols]
