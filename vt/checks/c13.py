"""C13 - API events stay well-formed whatever a peer sends.   E-in.

(A) string injection: every peer-chosen text field (host name, domain name, software version, shutdown
communication, NOTIFICATION data, unknown capability / attribute payloads) x a hostile alphabet x {JSON v6, JSON v4,
text v4}, through a full session in the virtual world: the events are what the real Processes wrote on the API
child's pipe.  (B) every decodable UPDATE of the C02 enumeration and of the C08 malformed neighbourhood, rendered by
the three encoders and pushed through the real Processes.write.
"""

from __future__ import annotations

import json
import multiprocessing as mp
import os
import re

from vt import core, exa
from vt.ref import wire as w
from vt.world import World, edev
from vt.checks import c02, c05, c08

PROPERTY = 'C13'

HOSTILE = {
    'benign': b'router1',
    'quote': b'a"b',
    'backslash': b'a\\b',
    'lf': b'a\nb',
    'cr': b'a\rb',
    'nul': b'a\x00b',
    'tab': b'a\tb',
    'del': b'a\x7fb',
    'hi80': b'a\x80b',
    'hiff': b'a\xffb',
    'bad-utf8': b'a\xc3\x28b',
    'u2028': 'a b'.encode(),
    'utf8': 'café'.encode(),
    'forge-state': b'x", "state": "up',
    'forge-event': b'x" } }\n{ "exabgp": "6.0.0", "type": "state", "neighbor": { "state": "down" } }',
    'forge-text': b'x\nneighbor 1.2.3.4 up',
    'long': b'A' * 251,
    'esc': b'a\x1b[2Jb',
}

CAP_HOSTNAME, CAP_SOFTWARE = 73, 75


def field_inject(field: str, payload: bytes):
    """-> (extra capabilities for the peer OPEN, message to send once established or None)"""
    if field == 'hostname':
        p = payload[:240]
        return [(CAP_HOSTNAME, bytes([len(p)]) + p + bytes([3]) + b'dom')], None
    if field == 'domain':
        p = payload[:240]
        return [(CAP_HOSTNAME, bytes([4]) + b'host' + bytes([len(p)]) + p)], None
    if field == 'software':
        p = payload[:240]
        return [(CAP_SOFTWARE, bytes([len(p)]) + p)], None
    if field == 'unknown-cap':
        return [(0xEE, payload[:255])], None
    if field == 'shutdown':
        p = payload[:255]
        return [], (w.NOTIFICATION, w.encode_notification(6, 2, bytes([len(p)]) + p))
    if field == 'notif-data':
        return [], (w.NOTIFICATION, w.encode_notification(3, 1, payload))
    if field == 'unknown-attr':
        attrs = [w.encode_attr(w.ORIGIN, b'\x00'), w.encode_attr(w.AS_PATH, w.encode_as_path([(2, [65002])], True)), w.encode_attr(w.NEXT_HOP, bytes([10, 0, 0, 1])),
                 w.encode_attr(0x99, payload, flags=0xC0)]
        return [], (w.UPDATE, w.encode_update(attrs=attrs, nlri=[w.nlri_ip(1, 1, '10.2.0.0', 16)]))
    raise core.HarnessError(field)


FIELDS = ['hostname', 'domain', 'software', 'unknown-cap', 'shutdown', 'notif-data', 'unknown-attr']
ENCODERS = [(6, 'json'), (4, 'json'), (4, 'text')]

CFG_API = 'receive { parsed; open; update; notification; keepalive; refresh; } send { parsed; open; } neighbor-changes; negotiated; fsm; signal;'


def world_cfg(encoder):
    return edev.base_config(hold=30, apiopts=CFG_API, caps='software-version enable;').replace('encoder json;', f'encoder {encoder};')


def _no_dup(pairs):
    seen = set()
    for k, _ in pairs:
        if k in seen:
            raise ValueError(f'duplicate key {k!r}')
        seen.add(k)
    return dict(pairs)


def shape(x, payload_marks):
    """Structure of a parsed JSON value with string leaves replaced: the payload by PAYLOAD, others kept."""
    if isinstance(x, dict):
        return {k: shape(v, payload_marks) for k, v in x.items()}
    if isinstance(x, list):
        return [shape(v, payload_marks) for v in x]
    if isinstance(x, str):
        return 'S'
    if isinstance(x, (int, float)):
        return 'N'
    return x


CTRL = re.compile(r'[\x00-\x08\x0a-\x1f\x7f-\x9f  ]')


def judge_json_line(line: str):
    """-> (parsed or None, list of problems)"""
    probs = []
    if CTRL.search(line):
        probs.append('raw-control-character')
    try:
        obj = core.strict_json(line)
    except ValueError as e:
        kind = 'duplicate-key' if 'duplicate key' in str(e) else 'not-json'
        return None, probs + [f'{kind}:{str(e)[:60]}']
    for k in ('exabgp', 'time', 'host', 'pid', 'ppid', 'counter', 'type'):
        if k not in obj:
            probs.append(f'envelope-missing:{k}')
    return obj, probs


def session_events(args):
    field, hname, version, encoder = args
    payload = HOSTILE[hname]
    caps, msg = field_inject(field, payload)
    out = b''
    exc = []
    with World(world_cfg(encoder), env={'api.version': version}) as wd:
        env = c05.Env(wd, hold=30, script=[], config_name='active', remote_opts={'extra_caps': caps})
        for i in range(12):
            env.step = i
            a = env.default_action()
            if a == 'time' and env.fsm() == 'ESTABLISHED':
                break
            env.do(a)
        wd.advance(0.3)
        if msg is not None and env.current() is not None:
            env.remote(env.current()).send(*msg)
            wd.settle()
            wd.advance(0.5)
        out = wd.api_output()
        exc = wd.loop_exceptions()
        established = any(b == 'ESTABLISHED' for _, _, _, b in wd.fsm_log)
        broken = ['api'] if hasattr(wd.reactor, 'processes') and wd.reactor.processes.broken(None) else []
    return out, exc, established, broken


def big_update(k: int, size: int = 4096) -> tuple:
    """An UPDATE of `size` octets announcing as many /32 as fit, all different from one UPDATE to the next."""
    attrs = [w.encode_attr(w.ORIGIN, b'\x00'), w.encode_attr(w.AS_PATH, w.encode_as_path([(2, [65002])], True)),
             w.encode_attr(w.NEXT_HOP, bytes([10, 9, 9, 9]))]
    room = size - 19 - 4 - sum(len(a) for a in attrs)
    nlri = [w.nlri_ip(1, 1, f'100.{k}.{i >> 8}.{i & 255}', 32) for i in range(room // 5)]
    return w.encode_update(attrs=attrs, nlri=nlri), {f'100.{k}.{i >> 8}.{i & 255}/32' for i in range(room // 5)}


def slow_helper(args):
    """(D) the helper program does not read its pipe while the peer sends `n` maximum-size UPDATEs (their event lines
    outgrow the 64 KiB pipe), then reads everything: every record must still arrive exactly once, whole and in order."""
    version, encoder, n = args
    viols = []
    with World(world_cfg(encoder), env={'api.version': version}) as wd:
        env = c05.Env(wd, hold=30, script=[], config_name='active')
        for i in range(12):
            env.step = i
            a = env.default_action()
            if a == 'time' and env.fsm() == 'ESTABLISHED':
                break
            env.do(a)
        wd.advance(0.3)
        if env.fsm() != 'ESTABLISHED':
            raise core.HarnessError('slow helper: session not established')
        before = len(wd.api_output())
        wd.reader_paused = True
        sent = []
        s = env.current()
        for k in range(n):
            body, prefixes = big_update(k)
            sent.append(prefixes)
            env.remote(s).send(w.UPDATE, body)
            wd.settle()
            wd.advance(0.2)
        # now the helper reads, a pipe-full at a time, the daemon flushing what it still holds in between
        out = b''
        for _ in range(400):
            chunk = wd.api_output()[before + len(out):]
            out += chunk
            wd.settle()
            wd.advance(0.1)
            if not chunk and not wd.reactor.processes.has_pending_writes() if hasattr(wd.reactor.processes, 'has_pending_writes') else not chunk:
                break
        wd.reader_paused = False
        exc = wd.loop_exceptions()
        fsm = env.fsm()
    tag = f'{encoder}-v{version}'
    text = out.decode('utf-8', 'replace')
    lines = [ln for ln in text.split('\n') if ln]
    if text and not text.endswith('\n'):
        viols.append((f'slow-helper:{tag}:last-record-incomplete', f'the stream read by the helper ends in the middle of a record ({len(lines[-1])} octets)'))
    if exc:
        viols.append((f'slow-helper:{tag}:loop-exception', exc[0][:200]))
    if encoder == 'json':
        got = []
        for ln in lines:
            obj, probs = judge_json_line(ln)
            if probs:
                viols.append((f'slow-helper:{tag}:{probs[0].split(":")[0]}', f'{probs[0][:120]} in a line of {len(ln)} octets starting {ln[:60]!r}'))
                continue
            if isinstance(obj, dict) and obj.get('type') == 'update':
                ann = obj.get('neighbor', {}).get('message', {}).get('update', {}).get('announce', {}).get('ipv4 unicast', {})
                got.append({(r.get('nlri') if isinstance(r, dict) else r) for rs in ann.values() for r in (rs if isinstance(rs, list) else [rs])})
        if not viols and got != sent:
            viols.append((f'slow-helper:{tag}:records-differ', f'{n} UPDATEs sent, {len(got)} update events read; sizes {[len(x) for x in got]} expected {[len(x) for x in sent]}'))
    else:
        ups = [ln for ln in lines if ' announced ' in ln or ' update ' in ln]
        if CTRL.search(text.replace('\n', '')):
            viols.append((f'slow-helper:{tag}:control-character', 'control character in the stream read by the helper'))
        seen = [p for ln in lines for p in re.findall(r'100\.\d+\.\d+\.\d+/32', ln)]
        want = sorted(p for ps in sent for p in ps)
        if sorted(seen) != want:
            viols.append((f'slow-helper:{tag}:records-differ', f'{len(want)} prefixes announced by the peer, {len(seen)} in the text events read ({len(set(seen))} distinct)'))
    return _uniq13(viols), (tag, n, len(lines), fsm)


def _uniq13(viols):
    seen, out = set(), []
    for sg, wh in viols:
        if sg not in seen:
            seen.add(sg)
            out.append((sg, wh))
    return out


def run_injection(args):
    field, hname, version, encoder = args
    viols = []
    out, exc, established, broken = session_events(args)
    ref_out, _, ref_est, _ = session_events((field, 'benign', version, encoder))
    tag = f'{encoder}-v{version}'
    # a peer whose OPEN is refused (e.g. a host name that is not UTF-8) produces other events: every line is still
    # judged on its own, the comparison with the benign run only applies when the session came up in both
    comparable = established == ref_est
    if exc:
        kind = exc[0].split('(')[0][:40]
        viols.append((f'event-lost:{tag}:{field}:{kind}', f'{field}={hname}: exception in the event loop while rendering/writing the event: {exc[0][:200]}'))
    lines = out.decode('utf-8', 'replace').split('\n')
    ref_lines = ref_out.decode('utf-8', 'replace').split('\n')
    if lines and lines[-1] == '':
        lines = lines[:-1]
    if ref_lines and ref_lines[-1] == '':
        ref_lines = ref_lines[:-1]
    if encoder == 'json':
        objs = []
        for ln in lines:
            obj, probs = judge_json_line(ln)
            for p in probs:
                viols.append((f'json:{tag}:{field}:{p.split(":")[0]}', f'{field}={hname}: {p}: {ln[:200]!r}'))
            if obj is not None:
                objs.append(obj)
        ref_objs = [json.loads(ln) for ln in ref_lines if ln.strip().startswith('{')]
        # same number and type of events as with a benign string, and the same structure
        if not comparable:
            pass
        elif [o.get('type') for o in objs] != [o.get('type') for o in ref_objs]:
            if not exc and not any(s.startswith('json:') for s, _ in viols):
                viols.append((f'event-stream-differs:{tag}:{field}', f'{field}={hname}: event types {[o.get("type") for o in objs]} vs {[o.get("type") for o in ref_objs]} with a benign string'))
        else:
            for o, r in zip(objs, ref_objs):
                o2, r2 = dict(o), dict(r)
                for k in ('time', 'counter', 'pid', 'ppid', 'host'):
                    o2.pop(k, None)
                    r2.pop(k, None)
                if shape(o2, None) != shape(r2, None):
                    viols.append((f'forged-structure:{tag}:{field}', f'{field}={hname}: the event has a different structure than with a benign string: {json.dumps(o2)[:300]}'))
                    break
    else:
        if comparable and len(lines) != len(ref_lines):
            if not exc:
                viols.append((f'text-line-count:{tag}:{field}', f'{field}={hname}: {len(lines)} text lines vs {len(ref_lines)} with a benign string: {lines[-3:]}'))
        for ln in lines:
            if CTRL.search(ln):
                viols.append((f'text-control-character:{tag}:{field}', f'{field}={hname}: control character in text event {ln[:200]!r}'))
                break
    seen = set()
    outv = []
    for s, wh in viols:
        if s not in seen:
            seen.add(s)
            outv.append((s, wh))
    return outv, (field, tag, len(lines), bool(exc))


# ------------------------------------------------------------------------------------------------
# (B) UPDATE corpus through the encoders and Processes.write
# ------------------------------------------------------------------------------------------------
class _Child:
    stdin = None
    stdout = None


def make_processes(encoders):
    """the three encoders installed the production way: API v4 gives the V4 JSON / text encoders, API v6 the JSON one"""
    want = {'json6': ('json', 6), 'json4': ('json', 4), 'text4': ('text', 4)}
    return exa.make_processes([(name, want[name][0], want[name][1]) for name in encoders])


def _render_one(res, n, neg, procs, encs, body, sidx):
    """decode one UPDATE body and judge every rendering of it"""
    from exabgp.bgp.message import Message, Notify

    case_extra = {} if isinstance(sidx, int) else {'corpus': True}
    try:
        m = Message.unpack(w.UPDATE, body, neg)
        coll = m if m.IS_EOR else m.data
    except Notify:
        return
    except Exception:
        return  # decode failures are C03's subject
    for name, enc in encs.items():
        res['exec'] += 1
        case = dict({'kind': 'update', 'session': sidx, 'body': body.hex(), 'encoder': name}, **case_extra)
        try:
            text = enc.update(n, 'receive', coll, b'', b'', neg)
        except Exception as e:  # noqa: BLE001
            sig = f'render-exception:{name}:{type(e).__name__}'
            res['viol'].setdefault(sig, (f'{type(e).__name__}: {str(e)[:120]} for UPDATE {body.hex()[:160]}', case, 0))
            continue
        if text is None:
            continue
        res['events'] += 1
        try:
            exa.drop_pending_writes(procs)
            procs.write(name, text, n)
        except Exception as e:  # noqa: BLE001
            sig = f'write-exception:{name}:{type(e).__name__}'
            res['viol'].setdefault(sig, (f'Processes.write raised {type(e).__name__}: {str(e)[:100]} for UPDATE {body.hex()[:160]}', case, 0))
        if name.startswith('json'):
            for ln in text.split('\n') if '\n' in text else [text]:
                obj, probs = judge_json_line(ln)
                for p in probs:
                    sig = f'json:{name}:update:{p.split(":")[0]}' + (':' + p.split("'")[1] if 'duplicate key' in p else '')
                    res['viol'].setdefault(sig, (f'{p}: {ln[:300]!r}', case, 0))
            if '\n' in text:
                res['viol'].setdefault(f'json:{name}:update:several-lines', (f'a JSON update event spans several lines: {text[:200]!r}', case, 0))
        else:
            if CTRL.search(text.replace('\n', '')):
                res['viol'].setdefault(f'text-control-character:{name}:update', (f'control character in text event {text[:200]!r}', case, 0))


def _encoders():
    from exabgp.reactor.api.response import Response
    from exabgp.version import json as json_version
    from exabgp.version import json_v4 as json_v4_version
    from exabgp.version import text_v4 as text_v4_version

    return {'json6': Response.JSON(json_version), 'json4': Response.V4.JSON(json_v4_version), 'text4': Response.V4.Text(text_v4_version)}


def _all_families_session(asn4):
    from exabgp.protocol.family import Family

    fams = sorted({(int(a), int(sa)) for a, sa in Family.size})
    return exa.negotiated_all_families(fams, asn4=asn4, addpath=False, direction_out=False, ext_nh=True)


def corpus_bodies(asn4):
    """(C) every UPDATE of the frozen C03 seed corpus (one per registered family, attribute, BGP-LS / SR / prefix-SID TLV ...)
    and every member of the C15 attribute corpus wrapped in an UPDATE with one IPv4 route"""
    from vt.checks import c03, c15

    seen = set()
    for sd in c03.load_seeds():
        if sd['type'] == w.UPDATE and sd['body'] not in seen:
            seen.add(sd['body'])
            yield sd['body']
    base = [w.encode_attr(w.ORIGIN, b'\x00'), w.encode_attr(w.AS_PATH, w.encode_as_path([(2, [65002])], asn4)), w.encode_attr(w.NEXT_HOP, bytes([10, 0, 0, 1]))]
    for code, members in sorted(c15.load_attrs().items()):
        if code in (w.ORIGIN, w.AS_PATH, w.NEXT_HOP, 14, 15):
            continue
        for flags, a4, hx, src in members:
            if a4 not in (asn4, 'ap'):
                continue
            body = w.encode_update(attrs=base + [w.encode_attr(code, bytes.fromhex(hx), flags=flags & 0xE0)], nlri=[w.nlri_ip(1, 1, '10.7.0.0', 16)])
            if body not in seen:
                seen.add(body)
                yield body


def corpus_worker(args):
    asn4, shard, nshards = args
    exa.reset_process_state()
    n, neg = _all_families_session(asn4)
    encs = _encoders()
    procs = make_processes(encs)
    res = {'exec': 0, 'viol': {}, 'events': 0}
    for i, body in enumerate(corpus_bodies(asn4)):
        if i % nshards == shard:
            _render_one(res, n, neg, procs, encs, body, f'all-families-asn4-{asn4}')
    return res


def update_worker(args):
    tier, sidx, shard, nshards = args
    from exabgp.bgp.message import Message, Notify
    from exabgp.reactor.api.response import Response
    from exabgp.version import json as json_version
    from exabgp.version import json_v4 as json_v4_version
    from exabgp.version import text_v4 as text_v4_version

    s = c02.SESSIONS[sidx]
    exa.reset_process_state()
    n, neg = c02.session_objects(s)
    encs = {'json6': Response.JSON(json_version), 'json4': Response.V4.JSON(json_v4_version), 'text4': Response.V4.Text(text_v4_version)}
    procs = make_processes(encs)
    ap = set(c02.AP_FAMS) if s['addpath'] else set()
    res = {'exec': 0, 'viol': {}, 'events': 0}

    def bodies():
        for i, case in enumerate(c02.cases(tier, s)):
            if i % nshards == shard:
                yield ('c02', i), c02.encode(case, s['asn4'], ap)
        if shard == 0 and not s['addpath']:
            for seed in c08.SEEDS:
                base = c08.seed_tlvs(seed, s['asn4'])
                for idx in range(len(base)):
                    for kind, attr_bytes, overrun in c08.corruptions(base, idx):
                        yield ('c08', seed, idx, kind), w.encode_update(attrs=attr_bytes, nlri=c08.SEEDS[seed]['nlri'])
            # both AGGREGATOR and AS4_AGGREGATOR present
            tl = [w.encode_attr(c, v, flags=f) for c, f, v in c08.seed_tlvs('v4', s['asn4'])] + [w.encode_attr(w.AS4_AGGREGATOR, w.encode_attr_value(w.AS4_AGGREGATOR, (70000, '10.9.8.7'), True))]
            yield ('agg+as4agg',), w.encode_update(attrs=tl, nlri=c08.SEEDS['v4']['nlri'])

    for ident, body in bodies():
        _render_one(res, n, neg, procs, encs, body, sidx)
    return res


def run(ctx: core.Ctx) -> None:
    inj = [(f, h, v, e) for f in FIELDS for h in HOSTILE if h != 'benign' for v, e in ENCODERS]
    ctx.rule = (f'(A) {len(FIELDS)} peer-chosen string fields x {len(HOSTILE) - 1} hostile payloads x 3 encoders (JSON v6, JSON v4, text v4), each a full session in the virtual world compared with the same session carrying a benign string; '
                '(B) every decodable UPDATE of the C02 enumeration (4 sessions) and of the C08 malformed-attribute neighbourhood rendered by the 3 encoders and written through Processes.write; (C) every UPDATE of the frozen C03 seed corpus (every registered family, attribute, BGP-LS / SR / prefix-SID / tunnel TLV recorded in the QA data of the repository) and every member of the C15 attribute corpus, decoded on a session with every family negotiated (ASN4 on / off) and rendered the same way; (D) a helper that does not read its pipe while the peer sends 1, 2, 3, 5 maximum-size UPDATEs (event lines outgrowing the 64 KiB pipe), then reads everything: every record exactly once, whole, in order, for the three encoders; non-trivial = every (field, payload, encoder) and every rendered event')
    ctx.assumptions += ['strict JSON: json.loads with a duplicate-key-rejecting hook; one event = one line', 'structure (keys, nesting, value kinds) must equal that of the benign run']
    pool = mp.Pool(min(16, os.cpu_count() or 1))
    try:
        ires = pool.map(run_injection, inj, chunksize=2)
        core.replay_check(ctx, pool, run_injection, inj, ires, stride=16)
        for job, (viols, outcome) in zip(inj, ires):
            ctx.count('executions')
            ctx.count('nontrivial')
            ctx.add_to_set('outcomes', outcome)
            for sig, what in viols:
                ctx.violation(sig, what, {'kind': 'inject', 'field': job[0], 'payload': job[1], 'version': job[2], 'encoder': job[3]})
        nshards = 8
        jobs = [(ctx.tier, si, sh, nshards) for si in range(len(c02.SESSIONS)) for sh in range(nshards)]
        for res in pool.imap_unordered(update_worker, jobs):
            ctx.count('executions', res['exec'])
            ctx.count('nontrivial', res['events'])
            for sig, (what, case, _) in res['viol'].items():
                ctx.violation(sig, what, case)
        sjobs = [(v, e, n) for v, e in ENCODERS for n in (1, 2, 3, 5)]
        for job, (viols, outcome) in zip(sjobs, pool.map(slow_helper, sjobs)):
            ctx.count('executions')
            ctx.count('nontrivial')
            ctx.add_to_set('outcomes', outcome)
            for sig, what in viols:
                ctx.violation(sig, what, {'kind': 'slow', 'version': job[0], 'encoder': job[1], 'n': job[2]})
        cjobs = [(asn4, sh, 8) for asn4 in (True, False) for sh in range(8)]
        for res in pool.imap_unordered(corpus_worker, cjobs):
            ctx.count('executions', res['exec'])
            ctx.count('nontrivial', res['events'])
            ctx.count('corpus_events', res['events'])
            for sig, (what, case, _) in res['viol'].items():
                ctx.violation(sig, what, case)
        ctx.sample({'field': 'hostname', 'payload': repr(HOSTILE['forge-state']), 'encoder': 'json v6'})
        ctx.sample({'field': 'shutdown', 'payload': repr(HOSTILE['lf']), 'encoder': 'text v4'})
        ctx.counters['states'] = ctx.set_size('outcomes')
        ctx.counters['transitions'] = ctx.counters.get('executions', 0)
    finally:
        pool.close()
        pool.join()


def replay(case):
    if case['kind'] == 'slow':
        viols, o = slow_helper((case['version'], case['encoder'], case['n']))
        return [{'signature': s_, 'what': wh} for s_, wh in viols]
    if case['kind'] == 'inject':
        viols, o = run_injection((case['field'], case['payload'], case['version'], case['encoder']))
        return [{'signature': s, 'what': wh} for s, wh in viols]
    from exabgp.bgp.message import Message
    from exabgp.reactor.api.response import Response
    from exabgp.version import json as json_version
    from exabgp.version import json_v4 as json_v4_version
    from exabgp.version import text_v4 as text_v4_version

    exa.reset_process_state()
    if case.get('corpus'):
        n, neg = _all_families_session(case['session'].endswith('True'))
    else:
        n, neg = c02.session_objects(c02.SESSIONS[case['session']])
    encs = {'json6': Response.JSON(json_version), 'json4': Response.V4.JSON(json_v4_version), 'text4': Response.V4.Text(text_v4_version)}
    procs = make_processes(encs)
    body = bytes.fromhex(case['body'])
    name = case['encoder']
    out = []
    try:
        m = Message.unpack(w.UPDATE, body, neg)
        coll = m if m.IS_EOR else m.data
        text = encs[name].update(n, 'receive', coll, b'', b'', neg)
    except Exception as e:  # noqa: BLE001
        return [{'signature': f'render-exception:{name}:{type(e).__name__}', 'what': str(e)[:200]}]
    try:
        procs.write(name, text, n)
    except Exception as e:  # noqa: BLE001
        out.append({'signature': f'write-exception:{name}:{type(e).__name__}', 'what': str(e)[:200]})
    if name.startswith('json'):
        obj, probs = judge_json_line(text)
        for p in probs:
            out.append({'signature': f'json:{name}:update:{p.split(":")[0]}' + (':' + p.split("'")[1] if 'duplicate key' in p else ''), 'what': p})
    elif CTRL.search(text.replace('\n', '')):
        out.append({'signature': f'text-control-character:{name}:update', 'what': text[:200]})
    return out
