"""C04 - Adj-RIB-Out converges.   E-seq: explicit-state BFS over operation sequences on the real
OutgoingRIB, with the transmitter's own steps (real Protocol.new_update_generator) interleaved.

State   = operation history (replayed on a fresh real OutgoingRIB).
Oracle  = at the drained state reached from *every* explored state: the table a peer builds by applying
          (reference decoder) every UPDATE sent == the Adj-RIB-Out ExaBGP reports (cached_routes()), and
          == the table the operation history intends (last op on a prefix wins).
"""

from __future__ import annotations

import collections
import multiprocessing as mp
import os

from vt import core, exa
from vt.ref import wire

PROPERTY = 'C04'

CONFIG = """
neighbor 127.0.0.2 {
  router-id 1.2.3.4;
  local-address 127.0.0.1;
  local-as 65001;
  peer-as 65002;
  %(group)s
  capability { route-refresh enable; %(addpath)s }
  family { ipv4 unicast; ipv6 unicast; ipv4 nlri-mpls; }
  static {
    %(conf)s
  }
}
"""

# name -> (api text, abstract (prefix key, nexthop, med))
ROUTES = {
    'Ax': 'route 10.0.0.0/24 next-hop 1.1.1.1 med 10',
    'Ay': 'route 10.0.0.0/24 next-hop 1.1.1.1 med 20',
    'Az': 'route 10.0.0.0/24 next-hop 2.2.2.2 med 10',
    'Bx': 'route 10.0.1.0/24 next-hop 1.1.1.1 med 10',
    'By': 'route 10.0.1.0/24 next-hop 1.1.1.1 med 20',
    'Dx': 'route 2001:db8::/32 next-hop 2001:db8::1 med 10',
    'Dy': 'route 2001:db8::/32 next-hop 2001:db8::1 med 20',
    # a labelled route: another address family under the very same attribute sets and next hop as Ax / Ay
    'Lx': 'route 10.0.4.0/24 label [ 100 ] next-hop 1.1.1.1 med 10',
    'Ly': 'route 10.0.4.0/24 label [ 100 ] next-hop 1.1.1.1 med 20',
}
ROUTES_AP = {
    'Ax': 'route 10.0.0.0/24 path-information 0.0.0.1 next-hop 1.1.1.1 med 10',
    'Ay': 'route 10.0.0.0/24 path-information 0.0.0.1 next-hop 1.1.1.1 med 20',
    'Az': 'route 10.0.0.0/24 path-information 0.0.0.2 next-hop 1.1.1.1 med 10',
    'Bx': 'route 10.0.1.0/24 path-information 0.0.0.1 next-hop 1.1.1.1 med 10',
}
ABSTRACT = {
    'Ax': (('A',), '1.1.1.1', 10),
    'Ay': (('A',), '1.1.1.1', 20),
    'Az': (('A',), '2.2.2.2', 10),
    'Bx': (('B',), '1.1.1.1', 10),
    'By': (('B',), '1.1.1.1', 20),
    'Dx': (('D',), '2001:db8::1', 10),
    'Dy': (('D',), '2001:db8::1', 20),
    'Lx': (('L',), '1.1.1.1', 10),
    'Ly': (('L',), '1.1.1.1', 20),
}
PFX = {
    'A': wire.nlri_key(wire.nlri_ip(1, 1, '10.0.0.0', 24)),
    'B': wire.nlri_key(wire.nlri_ip(1, 1, '10.0.1.0', 24)),
    'C': wire.nlri_key(wire.nlri_ip(1, 1, '10.0.3.0', 24)),
    'W': wire.nlri_key(wire.nlri_ip(1, 1, '10.0.2.0', 24)),
    'D': wire.nlri_key(wire.nlri_ip(2, 1, '2001:db8::', 32)),
    'L': wire.nlri_key(wire.nlri_ip(1, 4, '10.0.4.0', 24, labels=(100,))),
}

CONF = ['route 10.0.3.0/24 next-hop 1.1.1.1 med 10', 'route 10.0.2.0/24 next-hop 1.1.1.1 med 10 watchdog dog']
CONF_AP = ['route 10.0.3.0/24 path-information 0.0.0.1 next-hop 1.1.1.1 med 10',
           'route 10.0.2.0/24 path-information 0.0.0.1 next-hop 1.1.1.1 med 10 watchdog dog']

VARIANTS = {
    # name: (group-updates, add-path, op alphabet)
    'grouped': dict(group='group-updates true;', addpath='', ops=['Ax', 'Ay', 'Az', 'Bx', 'By', '-A', '-B', 'wd+', 'wd-', 'flush', 'clear', 'pull']),
    # in this variant the withdraws are given as the operator usually types them: the announce line with 'withdraw'
    # in front (next hop and attributes of the *x* flavour), not the bare prefix
    'ungrouped': dict(group='group-updates false;', addpath='', wd_full=True, ops=['Ax', 'Ay', 'Az', 'Bx', '-A', '-B', 'wd+', 'wd-', 'flush', 'clear', 'pull']),
    'v6': dict(group='group-updates true;', addpath='', ops=['Ax', 'Ay', 'Dx', 'Dy', '-A', '-D', 'eflush', 'clear', 'pull']),
    # two address families whose routes share attribute sets: the queue is keyed by attribute set, then family
    'labeled': dict(group='group-updates true;', addpath='', ops=['Ax', 'Ay', 'Lx', 'Ly', '-A', '-L', 'flush', 'clear', 'pull']),
    'addpath': dict(group='group-updates true;', addpath='add-path send/receive;', ops=['Ax', 'Ay', 'Az', 'Bx', '-A', '-A2', 'flush', 'clear', 'pull']),
    # the same texts (path-information written) on a session without ADD-PATH: the wire has no path identifier, the two paths of A are one route there
    'pathid': dict(group='group-updates true;', addpath='', texts='ap', ops=['Ax', 'Az', 'Bx', '-A', '-A2', 'clear', 'pull']),
}


class _Conn:
    def __init__(self):
        self.sent = []

    async def writer_async(self, raw):
        self.sent.append(bytes(raw))

    def session(self):
        return 'verif'

    def name(self):
        return 'verif'


class _Peer:
    def __init__(self, neighbor):
        self.neighbor = neighbor
        self.stats = collections.defaultdict(int)
        self._restarted = False


_W = {}  # per-process world cache: variant -> dict


def world(variant: str):
    w = _W.get(variant)
    if w is not None:
        return w
    from exabgp.reactor.api import API
    from exabgp.reactor.protocol import Protocol

    exa.reset_process_state()
    v = VARIANTS[variant]
    conf = CONF_AP if variant == 'addpath' else CONF
    cfg, neighbor = exa.neighbor_from_text(CONFIG % dict(v, conf=' '.join(c + ';' for c in conf)))
    addpath = [(1, 1, 3)] if v['addpath'] else None
    neg = exa.negotiated_for(neighbor, exa.peer_open_body(65002, [(1, 1), (2, 1), (1, 4)], addpath=addpath))
    api = API.__new__(API)
    from exabgp.configuration.configuration import Configuration

    api.configuration = Configuration([])
    api.reactor = None
    texts = ROUTES_AP if variant == 'addpath' or v.get('texts') == 'ap' else ROUTES
    routes = {}
    for name, text in texts.items():
        (r,) = api.api_route(text, 'announce')
        routes[name] = neighbor.resolve_self(r)
    wd = {}
    for name, text in texts.items():
        (r,) = api.api_route(text if v.get('wd_full') else text.split(' next-hop')[0], 'withdraw')
        from exabgp.protocol.ip import IP

        if r.nexthop is IP.NoNextHop:
            r = r.with_nexthop(IP.from_string('0.0.0.0'))
        wd[name] = neighbor.resolve_self(r)
    proto = Protocol.__new__(Protocol)
    proto.neighbor = neighbor
    proto.negotiated = neg
    proto.peer = _Peer(neighbor)
    w = dict(cfg=cfg, neighbor=neighbor, neg=neg, routes=routes, wd=wd, proto=proto, conf=conf, api=api,
             variant=variant, fingerprints=None)
    w['fingerprints'] = _fingerprints(w)
    _W[variant] = w
    return w


def _fingerprints(w):
    out = {}
    for name, r in list(w['routes'].items()) + [('wd' + n, r) for n, r in w['wd'].items()]:
        out[name] = (r.index(), r.attributes.index(), str(r.nexthop), r.extensive())
    return out


class State:
    """One real OutgoingRIB + the transmitter's generator + the peer model + the intended table."""

    def __init__(self, variant: str):
        from exabgp.rib.outgoing import OutgoingRIB

        self.w = w = world(variant)
        n = w['neighbor']
        self.rib = OutgoingRIB(True, n.rib.outgoing.families)
        n.rib.outgoing = self.rib
        self.conn = _Conn()
        w['proto'].connection = self.conn
        self.peer = wire.PeerTable(asn4=True, addpath={(1, 1)} if variant == 'addpath' else set())
        self.gen = None
        self.include_withdraw = False
        self.pulled = 0  # messages taken from the live generator
        self.intended = {}
        self.dog = '+'
        self.err = None
        # what the configuration parser does with the configured routes (parsed afresh: parsing a
        # watchdog route consumes its internal watchdog attribute)
        conf_routes = []
        for text in w['conf']:
            (r,) = w['api'].api_route(text, 'announce')
            r = n.resolve_self(r)
            conf_routes.append(r)
            self.rib.add_to_rib_watchdog(r)
        pid = 1 if variant == 'addpath' else None
        for p in ('C', 'W'):
            k = PFX[p]
            self.intended[(k[0], k[1], pid) + k[3:]] = ('1.1.1.1', 10)
        # session start, as Peer._main does
        self.rib.replace_restart([], conf_routes)

    # -- transmitter steps, exactly as Peer._send_route_updates performs them ---------------
    def pull(self) -> bool:
        """One iteration of the send loop body: returns False if there was nothing to do."""
        if self.gen is None:
            if not self.rib.pending():
                return False
            self.gen = self.w['proto'].new_update_generator(self.include_withdraw)
            self.pulled = 0
        before = len(self.conn.sent)
        try:
            co = self.gen.__anext__()
            try:
                co.send(None)
                raise core.HarnessError('generator awaited something real')
            except StopIteration:
                pass
            self.pulled += 1
        except StopAsyncIteration:
            self.gen = None
            self.include_withdraw = True
            self.rib.fire_flush_callbacks()
        for raw in self.conn.sent[before:]:
            (m,) = exa.split_messages(raw)
            self.peer.apply_message(*m)
        return True

    def quiescent(self) -> bool:
        return self.gen is None and not self.rib.pending()

    def drain(self, limit: int = 200) -> int:
        n = 0
        while not self.quiescent():
            self.pull()
            n += 1
            if n > limit:
                raise core.HarnessError('drain did not terminate')
        return n

    # -- operator steps ---------------------------------------------------------------------------
    def apply(self, op: str) -> None:
        w = self.w
        if op == 'pull':
            self.pull()
        elif op in w['routes']:
            self.rib.add_to_rib(w['routes'][op])
            key, nh, med = self._abs(op)
            self.intended[key] = (nh, med)
        elif op.startswith('-'):
            name = {'-A': 'Ax', '-B': 'Bx', '-D': 'Dx', '-A2': 'Az', '-L': 'Lx'}[op]
            self.rib.del_from_rib(w['wd'][name])
            key, _, _ = self._abs(name)
            self.intended.pop(key, None)
        elif op == 'wd+':
            self.rib.announce_watchdog('dog')
            if self.dog == '-':
                self.dog = '+'
                self.intended[self._wkey()] = ('1.1.1.1', 10)
        elif op == 'wd-':
            self.rib.withdraw_watchdog('dog')
            if self.dog == '+':
                self.dog = '-'
                self.intended.pop(self._wkey(), None)
        elif op == 'flush':
            self.rib.resend(False)
        elif op == 'eflush':
            self.rib.resend(True)
        elif op == 'clear':
            self.rib.withdraw()
            self.intended.clear()
        else:
            raise core.HarnessError(f'unknown op {op}')

    def _wkey(self):
        k = PFX['W']
        return (k[0], k[1], 1 if self.w['variant'] == 'addpath' else None) + k[3:]

    def _abs(self, name):
        (p,), nh, med = ABSTRACT[name]
        key = PFX[p]
        if self.w['variant'] == 'addpath':
            pid = 2 if name == 'Az' else 1
            nh = '1.1.1.1'
            key = (key[0], key[1], pid) + key[3:]
        elif self.w['variant'] == 'pathid':
            nh = '1.1.1.1'   # (the path-information texts all use this next hop; the key keeps no path identifier: the wire has none)
        return key, nh, med

    # -- observations -----------------------------------------------------------------------------
    def reported(self):
        """The Adj-RIB-Out ExaBGP reports, parsed from the text it would show the operator."""
        out = {}
        for r in self.rib.cached_routes():
            k = _key_from_text(r)
            if self.w['variant'] == 'pathid':
                # what ExaBGP reports is compared by the key the peer can see; two entries under one such key are a disagreement in themselves
                k2 = (k[0], k[1], None) + k[3:]
                if k2 in out and out[k2] != _nh_med_from_text(r):
                    out[k2] = ('two-entries', out[k2], _nh_med_from_text(r))
                    continue
                k = k2
            out[k] = _nh_med_from_text(r)
        return out

    def peer_table(self):
        return {k: (nh, dict(attrs).get(wire.MED)) for k, (nh, attrs, _l) in self.peer.table.items()}

    def canon(self):
        try:
            return self._canon_fields()
        except AttributeError:
            # the Adj-RIB-Out no longer has the fields the projection names (a refactoring): fall back to a projection
            # of every instance attribute, insertion order kept - finer (more states) but never merges different futures
            return ('generic', _generic(vars(self.rib)), self.gen is not None, self.include_withdraw,
                    tuple(sorted(self.peer.table.items())), tuple(sorted(self.intended.items())), self.dog)

    def _canon_fields(self):
        rib = self.rib
        seen = tuple(sorted((fam, tuple(sorted((i, r.attributes.index(), str(r.nexthop)) for i, r in d.items())))
                            for fam, d in rib._seen.items() if d))
        new = tuple((i, r.attributes.index(), str(r.nexthop)) for i, r in rib._new_nlri.items())
        naf = tuple((a, tuple((f, tuple(d.keys())) for f, d in per.items() if d)) for a, per in rib._new_attr_af_nlri.items())
        naf = tuple(x for x in naf if x[1])
        pw = tuple((f, tuple(d.keys())) for f, d in rib._pending_withdraws.items() if d)
        ref = (tuple(sorted(rib._refresh_families)), tuple((r.index(), r.attributes.index()) for r in rib._refresh_routes),
               tuple((r.index(), r.attributes.index(), str(r.nexthop)) for r in getattr(rib, '_superseded', ())))
        wdg = tuple(sorted((n, tuple(sorted((s, tuple(sorted(d.keys()))) for s, d in per.items())))
                           for n, per in rib._watchdog.items()))
        return (seen, new, naf, pw, ref, wdg, self.gen is not None, self.include_withdraw,
                tuple(sorted(self.peer.table.items())), tuple(sorted(self.intended.items())), self.dog)


def _generic(x, depth=0):
    """canonical, hashable image of a value made of containers, routes and NLRIs"""
    import collections

    if isinstance(x, (int, str, bytes, bool, float, type(None))):
        return x
    if isinstance(x, (bytearray, memoryview)):
        return bytes(x)
    if isinstance(x, dict):
        return tuple((_generic(k, depth + 1), _generic(v, depth + 1)) for k, v in x.items())
    if isinstance(x, (list, tuple, collections.deque)):
        return tuple(_generic(i, depth + 1) for i in x)
    if isinstance(x, (set, frozenset)):
        return tuple(sorted(repr(_generic(i, depth + 1)) for i in x))
    if hasattr(x, 'nlri') and hasattr(x, 'attributes'):
        return ('route', bytes(x.index()), bytes(x.attributes.index()), str(x.nexthop))
    if hasattr(x, 'index') and callable(x.index) and hasattr(x, 'pack_nlri'):
        return ('nlri', bytes(x.index()))
    if hasattr(x, 'is_set') and callable(x.is_set):
        return ('event', bool(x.is_set()))
    if callable(x):
        return ('callable', getattr(x, '__qualname__', type(x).__name__))
    if depth < 6 and hasattr(x, '__dict__'):
        return (type(x).__name__, _generic(vars(x), depth + 1))
    if depth < 6 and hasattr(x, '__slots__'):
        return (type(x).__name__, tuple((n, _generic(getattr(x, n, None), depth + 1)) for n in x.__slots__))
    return (type(x).__name__, str(x))


def _key_from_text(route):
    import ipaddress

    nlri = route.nlri
    text = str(nlri)
    # "10.0.0.0/24" possibly followed by " path-information 0.0.0.1"
    words = text.split()
    net = ipaddress.ip_network(words[0])
    afi = 1 if net.version == 4 else 2
    pid = None
    if 'path-information' in words:
        pid = int(ipaddress.ip_address(words[words.index('path-information') + 1]))
    safi = 4 if 'label' in words else 1
    key = wire.nlri_key(wire.nlri_ip(afi, safi, str(net.network_address), net.prefixlen, path_id=pid))
    return key


def _nh_med_from_text(route):
    words = route.extensive().split()
    nh = words[words.index('next-hop') + 1] if 'next-hop' in words else None
    med = int(words[words.index('med') + 1]) if 'med' in words else None
    return (nh, med)


def check_state(variant: str, hist: tuple):
    """Build the state, canonicalise it, then drain it and evaluate the oracle.  Returns
    (canon, remaining, violations)."""
    st = State(variant)
    viols = []
    try:
        for op in hist:
            st.apply(op)
        canon = st.canon()
        n0 = len(st.conn.sent)
        st.drain()
        remaining = tuple(st.conn.sent[n0:])
        peer = st.peer_table()
        reported = st.reported()
        intended = dict(st.intended)
        if peer != reported:
            viols.append(('peer-vs-reported', _diff(peer, reported, 'peer', 'reported')))
        if peer != intended:
            viols.append(('peer-vs-intended', _diff(peer, intended, 'peer', 'intended')))
    except core.HarnessError:
        raise
    except wire.RefError as e:
        canon, remaining = ('error', hist), ()
        viols.append(('emitted-undecodable', f'reference decoder refused an emitted UPDATE: {e}'))
    except Exception as e:  # the RIB itself raised
        canon, remaining = ('error', hist), ()
        viols.append(('exception', f'{type(e).__name__}: {e}'))
    return (canon, remaining), viols


def _diff(a, b, na, nb):
    keys = sorted(set(a) | set(b), key=repr)
    parts = []
    for k in keys:
        if a.get(k) != b.get(k):
            name = [n for n, v in PFX.items() if v[:2] + v[3:] == k[:2] + k[3:]]
            parts.append(f'{name[0] if name else k}{"#%s" % k[2] if k[2] is not None else ""}: {na}={a.get(k)} {nb}={b.get(k)}')
    return '; '.join(parts)


def classify(variant, hist, kind, detail):
    """Signature = failure kind + shape of the disagreement (which way each mismatching prefix differs);
    the shortest witness history of each class is what gets written to the replay file."""
    shapes = set()
    for part in detail.split('; '):
        if '=None' in part.split(' ')[1:2][0] if len(part.split(' ')) > 1 else False:
            shapes.add('missing-at-peer')
        elif part.endswith('=None'):
            shapes.add('ghost-at-peer')
        elif '=' in part:
            shapes.add('stale-at-peer')
    if kind in ('exception', 'emitted-undecodable'):
        shapes = {detail.split(':')[0]}
    return f'{kind}:{"+".join(sorted(shapes))}' + (':pathid' if variant == 'pathid' else '')


def _expand(args):
    variant, hists, ops = args
    out = []
    for h in hists:
        for op in ops:
            nh = h + (op,)
            key, viols = check_state(variant, nh)
            out.append((nh, key, viols))
    return out


def run(ctx: core.Ctx) -> None:
    depth = int(os.environ.get('C04_DEPTH', '6' if ctx.tier == 'quick' else '7'))
    variants = ['grouped', 'ungrouped', 'v6', 'labeled', 'addpath', 'pathid']
    if os.environ.get('C04_ONLY'):
        variants = [v for v in variants if v in os.environ['C04_ONLY'].split(',')]
        ctx.cap(f'restricted to variants {variants} by C04_ONLY')
    ctx.rule = ('BFS over all operation sequences (announce same prefix with 2 attribute sets / 2 next hops / 2 path ids, '
                'withdraw (bare prefix; in the ungrouped variant the full announce line, i.e. with attributes), watchdog +/-, flush, enhanced flush, clear, transmitter pull) up to depth %d on a real OutgoingRIB driven '
                'through the real Protocol.new_update_generator; a state is non-trivial when the drained peer table is non-empty '
                'and at least one operator op interleaved with a live generator' % depth)
    ctx.assumptions += [
        'reference UPDATE decoder vt/ref/wire.py (RFC 4271/4760/7911)',
        'operations enter through the same OutgoingRIB calls the API command handlers make',
        'canonical state = every field OutgoingRIB reads + remaining output of the live generator + peer table',
    ]
    pool = mp.Pool(min(16, os.cpu_count() or 1))
    try:
        for variant in variants:
            ops = VARIANTS[variant]['ops']
            key0, v0 = check_state(variant, ())
            seen = {key0}
            frontier = [()]
            _record(ctx, variant, (), v0)
            ctx.count('states')
            for d in range(1, depth + 1):
                if not frontier:
                    break
                shards = [frontier[i::64] for i in range(64)]
                results = pool.map(_expand, [(variant, s, ops) for s in shards if s])
                nxt = []
                for res in results:
                    for nh, key, viols in res:
                        ctx.count('transitions')
                        ctx.count('executions')
                        _record(ctx, variant, nh, viols)
                        if key in seen:
                            continue
                        seen.add(key)
                        ctx.count('states')
                        if any(o != 'pull' for o in nh) and 'pull' in nh[:-1]:
                            ctx.count('nontrivial')
                        # do not expand beyond a state whose drained oracle failed: its descendants inherit it
                        if viols:
                            continue
                        nxt.append(nh)
                nxt.sort()
                frontier = nxt
                ctx.coverage_extra.setdefault('per_variant', {}).setdefault(variant, {})[f'depth{d}'] = len(seen)
                if ctx.budget_s and ctx.elapsed() > ctx.budget_s:
                    ctx.cap(f'{variant}: stopped after depth {d} (budget)')
                    break
            ctx.sample({'variant': variant, 'history': list(frontier[len(frontier) // 2]) if frontier else []})
        ctx.coverage_extra['depth'] = depth
        # mutation of shared route objects would invalidate replay-by-history: check fingerprints
        for variant in variants:
            w = world(variant)
            if _fingerprints(w) != w['fingerprints']:
                ctx.violation('route-object-mutated', 'a Route object handed to the RIB was altered by RIB operations', {'variant': variant, 'history': []})
    finally:
        pool.close()
        pool.join()


def _record(ctx, variant, hist, viols):
    for kind, detail in viols:
        ctx.violation(classify(variant, hist, kind, detail), f'after {list(hist)} + drain: {detail}', {'variant': variant, 'history': list(hist)})


def replay(case):
    _, viols = check_state(case['variant'], tuple(case['history']))
    return [{'signature': classify(case['variant'], tuple(case['history']), k, d), 'what': d} for k, d in viols]
