"""C15 - Every family and attribute survives an encode/decode round trip.   E-in, pairwise-exhaustive.

A FROZEN input alphabet (text lines and hex strings under corpus/c15/, built once by tools/harvest_c15.py from the
repository's own example configurations, its recorded qa messages and hand-built RFC boundary members) is turned
into objects by the tree under test at every run, and four groups of laws are decided on every member:

 1 bytes  : b -> NLRI.unpack_nlri / AttributeCollection.unpack (the entry points the UPDATE decoder uses) -> pack
            == b (STRONG law; b is canonical: reference-encoded for the IP families, recorded from the wire or
            transcribed from the RFC layout for the others), then unpack(pack(o)) == o with the same index and hash
            and pack(unpack(pack(o))) == pack(o) (WEAK law, always applied as well).
            Law 5: every member against each of its one-octet neighbours by law 4 (see neighbours()).
 2 text   : API / configuration text -> Route -> pack -> unpack -> equal object, same index/hash/pack/renderings,
            for the NLRI, for every attribute, and for the whole UPDATE (the project's own check_generation path).
 3 render : json()/str()/extensive() of the same bytes decoded in a fresh state, after every OTHER member of the
            alphabet in forward order, in reverse order, and with the attribute caches switched on and pre-filled,
            are the same strings; json() is valid JSON once wrapped the way the JSON encoder wraps it.
 4 pairs  : on EVERY ORDERED PAIR of a family alphabet: a == b => same index() and same hash(); == is symmetric and
            agrees with !=; objects whose family, path identifier, route distinguisher or prefix (by the reference
            reading of their bytes) differ never share nlri.index() nor the family-prefixed Route.index() the RIB
            uses. Labels: nothing is asserted about labels and the index (RFC 8277: not part of the key).
"""

from __future__ import annotations

import json
import multiprocessing as mp
import os
import struct

from vt import core, exa
from vt.ref import wire

PROPERTY = 'C15'
CORPUS = os.path.join(core.ROOT, 'corpus', 'c15')

FAM_NAME = {
    (1, 1): 'ipv4-unicast', (1, 2): 'ipv4-multicast', (2, 1): 'ipv6-unicast', (2, 2): 'ipv6-multicast',
    (1, 4): 'ipv4-nlri-mpls', (2, 4): 'ipv6-nlri-mpls', (1, 128): 'ipv4-mpls-vpn', (2, 128): 'ipv6-mpls-vpn',
    (25, 65): 'l2vpn-vpls', (25, 70): 'l2vpn-evpn', (1, 132): 'ipv4-rtc', (1, 133): 'ipv4-flow', (2, 133): 'ipv6-flow',
    (1, 134): 'ipv4-flow-vpn', (2, 134): 'ipv6-flow-vpn', (16388, 71): 'bgp-ls', (16388, 72): 'bgp-ls-vpn',
    (1, 85): 'ipv4-mup', (2, 85): 'ipv6-mup', (1, 5): 'ipv4-mcast-vpn', (2, 5): 'ipv6-mcast-vpn',
    (1, 73): 'ipv4-sr-policy', (2, 73): 'ipv6-sr-policy',
}
FAMILIES = sorted(FAM_NAME)
# the families whose codec reads and writes the RFC 7911 path identifier; the others neither emit nor consume one even
# when ADD-PATH is negotiated for them (measured below: law 'addpath-symmetry'), which is symmetrical and so outside C15
ADDPATH_FAMS = {(1, 1), (1, 2), (2, 1), (2, 2), (1, 4), (2, 4), (1, 128), (2, 128)}
IP_FAMS = ADDPATH_FAMS
# NLRI in which every byte is key (no label, no attribute-like field): different bytes => different route
WHOLE_KEY = {(1, 133), (2, 133), (1, 134), (2, 134), (1, 132), (1, 73), (2, 73), (1, 5), (2, 5), (16388, 71), (16388, 72)}
MIN_MEMBERS = 6

ATTR_NAME = {1: 'origin', 2: 'as-path', 3: 'next-hop', 4: 'med', 5: 'local-pref', 6: 'atomic-aggregate', 7: 'aggregator', 8: 'communities',
             9: 'originator-id', 10: 'cluster-list', 14: 'mp-reach', 15: 'mp-unreach', 16: 'ext-communities', 17: 'as4-path', 18: 'as4-aggregator',
             22: 'pmsi', 23: 'tunnel-encap', 25: 'ipv6-ext-communities', 26: 'aigp', 29: 'bgp-ls', 32: 'large-communities', 40: 'prefix-sid'}
ASN4_SENSITIVE = (2, 7)


def pids(tier):
    return [None, 0, 1] if tier == 'quick' else [None, 0, 1, 2, 0xFFFFFFFF]


# ---------------------------------------------------------------------------------------------
# corpus
# ---------------------------------------------------------------------------------------------
def _rows(name):
    with open(os.path.join(CORPUS, name)) as f:
        for line in f:
            line = line.rstrip('\n')
            if line and not line.startswith('#'):
                yield line.split('\t')


def _extra_thorough(out):
    for afi, top in ((1, 32), (2, 128)):
        for safi in (1, 2):
            have = {h for _, h, _ in out[(afi, safi)]}
            for m in range(top + 1):
                n = wire.nlri_ip(afi, safi, _masked(afi, m), m)
                h = wire.encode_nlri(n, False).hex()
                if h not in have:
                    have.add(h)
                    out[(afi, safi)].append(('A', h, f'ref:every-mask {m}'))
        for safi, rd in ((4, None), (128, wire.rd_type0(65000, 1))):
            have = {h for _, h, _ in out[(afi, safi)]}
            for m in range(top + 1):
                n = wire.nlri_ip(afi, safi, _masked(afi, m), m, None, (16,), rd)
                h = wire.encode_nlri(n, False).hex()
                if h not in have:
                    have.add(h)
                    out[(afi, safi)].append(('A', h, f'ref:every-mask {m}'))


def _masked(afi, mask, pattern=0xAB):
    import ipaddress

    size = 4 if afi == 1 else 16
    raw = bytearray([(pattern + 17 * i) & 0xFF or 1 for i in range(size)])
    full, rem = divmod(mask, 8)
    for i in range(size):
        if i > full or (i == full and rem == 0):
            raw[i] = 0
        elif i == full:
            raw[i] &= (0xFF << (8 - rem)) & 0xFF
    return str(ipaddress.ip_address(bytes(raw)))


def load_nlri(tier='quick'):
    """-> {(afi, safi): [(action, hex, source)]} in file order (thorough: plus every mask length from the reference encoder)."""
    out = {f: [] for f in FAMILIES}
    for afi, safi, action, hx, src in _rows('nlri.txt'):
        out.setdefault((int(afi), int(safi)), []).append((action, hx, src))
    if tier == 'thorough':
        _extra_thorough(out)
    return out


def load_attrs():
    """-> {code: [(flags, asn4, hex, source)]}"""
    out = {}
    for code, flags, asn4, hx, src in _rows('attrs.txt'):
        out.setdefault(int(code), []).append((int(flags, 16), 'ap' if asn4 == 'ap' else asn4 == '1', hx, src))
    return out


def load_api():
    return [(st, src, line) for st, src, line in _rows('api_lines.txt')]


def load_confs():
    out = []
    for name, n in _rows('conf_index.txt'):
        with open(os.path.join(CORPUS, 'conf', name)) as f:
            out.append((name, int(n), f.read()))
    return out


# ---------------------------------------------------------------------------------------------
# the implementation under test
# ---------------------------------------------------------------------------------------------
_NEG = {}


def neg(asn4=True, ap=False, out=True, extnh=False):
    """extnh: RFC 8950 extended next hop negotiated too; only used for the members whose next hop needs it (with it on,
    the MP_REACH decoder refuses or crashes on every family outside Family.size's IP rows - see notes/C15.md)."""
    k = (asn4, ap, out, extnh)
    if k not in _NEG:
        _NEG[k] = exa.negotiated_all_families(FAMILIES, asn4, ap, out, extnh)[1]
    return _NEG[k]


def unpack_nlri(afi, safi, data, action, ap):
    from exabgp.bgp.message import Action
    from exabgp.bgp.message.open.capability.negotiated import Negotiated
    from exabgp.bgp.message.update.nlri import NLRI
    from exabgp.protocol.family import AFI, SAFI

    o, left = NLRI.unpack_nlri(AFI.from_int(afi), SAFI.from_int(safi), data, Action.ANNOUNCE if action == 'A' else Action.WITHDRAW, ap, Negotiated.UNSET)
    if o is NLRI.INVALID:
        raise ValueError('NLRI.INVALID returned')
    return o, bytes(left)


def pack_nlri(o, ap, asn4=True):
    return bytes(o.pack_nlri(neg(asn4, ap)))


def route_index(o):
    from exabgp.bgp.message.update.attribute.collection import AttributeCollection
    from exabgp.rib.cache import Cache
    from exabgp.rib.route import Route

    a = Route(o, AttributeCollection()).index()
    b = Cache._make_index(o)
    if a != b:
        raise core.HarnessError(f'Route.index() {a!r} != Cache._make_index {b!r}')
    return bytes(a)


def reset_caches(poison=False):
    """Process-wide state the codecs keep: attribute cache, last parsed collection, community interning."""
    from exabgp.bgp.message.update.attribute import Attribute
    from exabgp.bgp.message.update.attribute.collection import AttributeCollection

    exa.reset_process_state()
    AttributeCollection.cached = None
    AttributeCollection.previous = b''
    Attribute.caching = bool(poison)
    for c in Attribute.cache.values():
        try:
            c.clear()
        except Exception:  # noqa: BLE001
            pass
    try:
        from exabgp.bgp.message.update.attribute.community.initial.community import Community
        from exabgp.bgp.message.update.attribute.community.large.community import LargeCommunity

        if not poison:
            if isinstance(getattr(Community, 'cache', None), dict):
                for k in [k for k in Community.cache if k not in _COMMUNITY_BUILTIN]:
                    del Community.cache[k]
            if isinstance(getattr(LargeCommunity, '_instance_cache', None), dict):
                LargeCommunity._instance_cache.clear()
    except ImportError:
        pass


_COMMUNITY_BUILTIN = set()


def _init_process():
    try:
        from exabgp.bgp.message.update.attribute.community.initial.community import Community

        if isinstance(getattr(Community, 'cache', None), dict):
            _COMMUNITY_BUILTIN.update(Community.cache)
    except ImportError:
        pass


def subtype(afi, safi, b):
    """Route type inside the family, for signatures."""
    try:
        if (afi, safi) == (25, 70) or safi == 5:
            return f':type{b[0]}'
        if safi == 85:
            return f':type{struct.unpack("!H", b[1:3])[0]}'
        if afi == 16388:
            return f':type{struct.unpack("!H", b[0:2])[0]}'
    except (IndexError, struct.error):
        pass
    return ''


# ---- the reference reading of the key fields ------------------------------------------------------------------------
def ref_key(afi, safi, action, b, pid):
    """{'pid', 'rd', 'prefix'} by the RFC layouts (no exabgp). A field is None when the layout has none / it is not key."""
    k = {'pid': pid, 'rd': None, 'prefix': None}
    fam = (afi, safi)
    if fam in IP_FAMS:
        n = wire.decode_nlris(b, afi, safi, False, withdraw=(action == 'W'))[0]
        nk = wire.nlri_key(n)
        k['rd'] = nk[3]
        k['prefix'] = (nk[4], nk[5])
    elif fam == (25, 70):
        t, v = b[0], b[2:]
        k['rd'] = v[:8].hex()
        if t == 1:      # RFC 7432 7.1
            k['prefix'] = (1, v[8:18].hex(), v[18:22].hex())
        elif t == 2:    # RFC 7432 7.2: Ethernet Tag, MAC length, MAC, IP length, IP are the prefix; ESI and labels are not
            iplen = v[29] // 8
            k['prefix'] = (2, v[18:22].hex(), v[22:29].hex(), v[29:30 + iplen].hex())
        elif t == 3:    # RFC 7432 7.3
            k['prefix'] = (3, v[8:12].hex(), v[12:].hex())
        elif t == 4:    # RFC 7432 7.4
            k['prefix'] = (4, v[8:18].hex(), v[18:].hex())
        elif t == 5:    # RFC 9136 3.1: RD, Ethernet Tag, prefix length, prefix are the key; ESI, gateway, label are not
            iplen = (len(v) - 8 - 10 - 4 - 1 - 3) // 2
            k['prefix'] = (5, v[18:22].hex(), v[22:23 + iplen].hex())
        else:
            k['prefix'] = (t, v[8:].hex())
    elif fam == (25, 65):
        k['rd'] = b[2:10].hex()
        k['prefix'] = b[10:14].hex()  # RFC 4761 3.2.2: VE ID and VE block offset identify the block
    elif safi == 5:
        k['rd'] = b[2:10].hex()
        k['prefix'] = (b[0], b[10:].hex())
    elif safi == 85:
        # draft-mpmz-bess-mup-safi 3.1: [arch 1][type 2][len 1][rd 8][...]; ISD (1) and T1ST (3) start with a prefix
        k['rd'] = b[4:12].hex()
        t = int.from_bytes(b[1:3], 'big')
        if t in (1, 3) and len(b) > 12:
            k['prefix'] = (t, b[12], b[13:13 + (b[12] + 7) // 8].hex())
    elif safi == 134:
        off = 2 if b[0] >= 0xF0 else 1
        k['rd'] = b[off:off + 8].hex()
        k['prefix'] = b[off + 8:].hex()
    elif fam == (16388, 72):
        k['rd'] = b[4:12].hex()
        k['prefix'] = (b[:2].hex(), b[12:].hex())
    elif fam in WHOLE_KEY:
        k['prefix'] = b.hex()
    return k


def key_differs(ka, kb):
    """Names of the key fields in which two members of one family differ (None vs a value of pid is not counted:
    a session either has ADD-PATH or has not, the two never meet in one table)."""
    out = []
    if ka['pid'] is not None and kb['pid'] is not None and ka['pid'] != kb['pid']:
        out.append('path-id')
    if ka['rd'] != kb['rd']:
        out.append('rd')
    if ka['prefix'] is not None and kb['prefix'] is not None and ka['prefix'] != kb['prefix']:
        out.append('prefix')
    return out


# ---------------------------------------------------------------------------------------------
# rendering
# ---------------------------------------------------------------------------------------------
def render_nlri(o):
    """-> ({name: string}, [(law, detail)])"""
    out, bad = {}, []
    for name, fn in (('json', lambda: o.json()), ('json-compact', lambda: o.json(compact=True)), ('str', lambda: str(o)), ('repr', lambda: repr(o)),
                     ('extensive', lambda: o.extensive() if hasattr(o, 'extensive') else '')):
        try:
            out[name] = fn()
        except Exception as e:  # noqa: BLE001
            out[name] = f'<{type(e).__name__}>'
            bad.append((f'render-exception:{name}:{type(e).__name__}', f'{name}() raised {type(e).__name__}: {str(e)[:120]}'))
    for name in ('json', 'json-compact'):
        if not out[name].startswith('<'):
            try:
                core.strict_json('[ ' + out[name] + ' ]')
            except ValueError as e:
                bad.append((f'json-invalid:{name}', f'[ {out[name][:200]} ] is not JSON: {e}'))
    return out, bad


def render_attr(a):
    from exabgp.bgp.message.update.attribute.collection import AttributeCollection

    out, bad = {}, []
    coll = AttributeCollection()
    coll.add(a)
    for name, fn in (('json', lambda: coll.json()), ('json-generic', lambda: coll.json(generic=True)), ('text', lambda: str(coll)), ('str', lambda: str(a)), ('index', lambda: coll.index().decode('latin1'))):
        try:
            out[name] = fn()
        except Exception as e:  # noqa: BLE001
            out[name] = f'<{type(e).__name__}>'
            bad.append((f'render-exception:{name}:{type(e).__name__}', f'{name} raised {type(e).__name__}: {str(e)[:120]}'))
    for name in ('json', 'json-generic'):
        if not out[name].startswith('<'):
            try:
                core.strict_json('{ ' + out[name] + ' }')
            except ValueError as e:
                bad.append((f'json-invalid:{name}', f'{{ {out[name][:200]} }} is not JSON: {e}'))
    return out, bad


# ---------------------------------------------------------------------------------------------
# law 1 (+ the per-object part of 3) on one NLRI member in one ADD-PATH context
# ---------------------------------------------------------------------------------------------
def nlri_laws(afi, safi, action, b, pid):
    """-> (object or None, [(law, what)])"""
    fam = (afi, safi)
    ap = pid is not None
    data = (struct.pack('!L', pid) if ap else b'') + b
    v = []
    try:
        o, left = unpack_nlri(afi, safi, data, action, ap)
    except Exception as e:  # noqa: BLE001
        return None, [(f'decode-refused:{type(e).__name__}', f'unpack_nlri refused {data.hex()}: {type(e).__name__}: {str(e)[:160]}')]
    if left:
        v.append(('leftover', f'unpack_nlri of the single NLRI {data.hex()} left {left.hex()} unread'))
    try:
        p1 = pack_nlri(o, ap)
    except Exception as e:  # noqa: BLE001
        return o, v + [(f'pack-exception:{type(e).__name__}', f'pack_nlri of the object decoded from {data.hex()} raised {type(e).__name__}: {str(e)[:160]}')]
    # RFC 8277 2.4: the label field of a withdrawn labeled NLRI (0x800000 / 0x000000 conventions) is ignored on receipt:
    # the decoder need not keep it, only the WEAK laws apply to those members
    compat = action == 'W' and safi in (4, 128)
    if p1 != data and not compat:
        v.append(('pack-differs', f'pack(unpack(b)) != b: b={data.hex()} packed={p1.hex()}'))
    if pack_nlri(o, ap, asn4=False) != p1:
        v.append(('asn4-dependent', f'NLRI bytes differ between a 2-byte and a 4-byte AS session for {data.hex()}'))
    try:
        o2, left2 = unpack_nlri(afi, safi, p1, action, ap)
        p2 = pack_nlri(o2, ap)
        if left2 or p2 != p1:
            v.append(('repack-unstable', f'pack(unpack(pack(o))) != pack(o): {p1.hex()} then {p2.hex()} left {left2.hex()}'))
        if not (o2 == o) or (o2 != o):
            v.append(('object-differs', f'unpack(pack(o)) != o for {data.hex()}: {o2!s} vs {o!s}'))
        if o2.index() != o.index():
            v.append(('index-differs', f'unpack(pack(o)).index() != o.index() for {data.hex()}'))
        if hash(o2) != hash(o):
            v.append(('hash-differs', f'hash(unpack(pack(o))) != hash(o) for {data.hex()}'))
    except Exception as e:  # noqa: BLE001
        v.append((f're-decode-refused:{type(e).__name__}', f'what ExaBGP encoded ({p1.hex()}) from {data.hex()} is refused by its own decoder: {str(e)[:160]}'))
    if fam in IP_FAMS:
        # the other ADD-PATH context, against the reference encoder
        try:
            other = pack_nlri(o, not ap)
            n = wire.decode_nlris(b, afi, safi, False, withdraw=(action == 'W'))[0]
            want = wire.encode_nlri(n[:2] + (0,) + n[3:], True) if not ap else b
            if action == 'A' and other != want:
                v.append(('cross-addpath', f'object from {data.hex()} packed for a session {"with" if not ap else "without"} ADD-PATH gives {other.hex()}, reference {want.hex()}'))
        except Exception as e:  # noqa: BLE001
            v.append((f'cross-addpath:{type(e).__name__}', f'{data.hex()}: {str(e)[:160]}'))
        v += ip_meaning(afi, safi, action, b, pid, o)
    elif not v:
        if safi == 85:
            v += mup_meaning(afi, b, o)
        # ADD-PATH negotiated for a family whose codec ignores it: must be ignored in both directions
        # (only looked at when the plain round trip holds: otherwise it is the same failure again)
        try:
            pa = pack_nlri(o, True)
            oa, la = unpack_nlri(afi, safi, pa, action, True)
            if pa != p1 and not (len(pa) == len(p1) + 4 and pa[4:] == p1):
                v.append(('addpath-symmetry', f'with ADD-PATH negotiated {p1.hex()} is sent as {pa.hex()}'))
            if la or not (oa == o) or oa.index() != o.index():
                v.append(('addpath-symmetry', f'with ADD-PATH negotiated what is sent ({pa.hex()}) does not decode back to the object'))
        except Exception as e:  # noqa: BLE001
            v.append((f'addpath-symmetry:{type(e).__name__}', f'{data.hex()}: {str(e)[:160]}'))
    r, bad = render_nlri(o)
    v += bad
    return o, v


def ip_meaning(afi, safi, action, b, pid, o):
    """The decoded object says what the reference decoder reads in the bytes (prefix, path id, rd, labels of an announce)."""
    import ipaddress

    v = []
    n = wire.decode_nlris(b, afi, safi, False, withdraw=(action == 'W'))[0]
    try:
        j = json.loads(o.json())
        net = ipaddress.ip_network(j['nlri'], strict=False)
        got_pid = int(ipaddress.ip_address(j['path-information'])) if 'path-information' in j else None
        size = 4 if afi == 1 else 16
        raw = bytes.fromhex(n[5])
        want_net = ipaddress.ip_network((raw + bytes(size - len(raw)), n[6]), strict=False)
        if net != want_net:
            v.append(('meaning:prefix', f'{b.hex()} is {want_net}, json() says {net}'))
        if got_pid != pid:
            v.append(('meaning:path-id', f'{b.hex()} with path id {pid}: json() says {got_pid}'))
        if n[4] is not None:
            rd = bytes.fromhex(n[4])
            t = struct.unpack('!H', rd[:2])[0]
            if t == 0:
                want = f'{struct.unpack("!H", rd[2:4])[0]}:{struct.unpack("!L", rd[4:])[0]}'
            elif t == 1:
                want = f'{ipaddress.ip_address(rd[2:6])}:{struct.unpack("!H", rd[6:])[0]}'
            else:
                want = f'{struct.unpack("!L", rd[2:6])[0]}:{struct.unpack("!H", rd[6:])[0]}'
            if j.get('rd') != want:
                v.append(('meaning:rd', f'{b.hex()} has rd {want}, json() says {j.get("rd")}'))
        if n[3] is not None and action == 'A':
            got = tuple(x[0] for x in j.get('label', []))
            if got != n[3]:
                v.append(('meaning:labels', f'{b.hex()} has labels {n[3]}, json() says {got}'))
    except Exception as e:  # noqa: BLE001
        v.append((f'meaning:{type(e).__name__}', f'json() of {b.hex()} cannot be read back: {str(e)[:120]}'))
    return v


def mup_meaning(afi, b, o):
    """MUP Interwork Segment Discovery (type 1) and Type 1 Session Transformed (type 3) routes: the prefix the object
    reports is the prefix in the bytes (length in bits, ceil(length/8) octets, draft-mpmz-bess-mup-safi 3.1.1/3.1.3)."""
    import ipaddress

    t = int.from_bytes(b[1:3], 'big')
    if t not in (1, 3) or len(b) <= 12:
        return []
    plen = b[12]
    raw = b[13:13 + (plen + 7) // 8]
    size = 4 if afi == 1 else 16
    want = ipaddress.ip_network((raw + bytes(size - len(raw)), plen), strict=False)
    v = []
    try:
        j = json.loads(o.json())
        got = ipaddress.ip_network(f'{j["prefix_ip"]}/{j["prefix_ip_len"]}', strict=False)
        if got != want:
            v.append(('meaning:prefix', f'{b.hex()} is {want}, json() says {got}'))
        if str(want.network_address) not in str(o) and str(want.network_address.exploded) not in str(o):
            v.append(('meaning:prefix:str', f'{b.hex()} is {want}, str() says {str(o)[:120]}'))
    except Exception as e:  # noqa: BLE001
        v.append((f'meaning:{type(e).__name__}', f'json() of {b.hex()} cannot be read back: {str(e)[:120]}'))
    return v


# ---------------------------------------------------------------------------------------------
# attributes
# ---------------------------------------------------------------------------------------------
def unpack_attr(tlv, asn4):
    """The way the UPDATE decoder does it -> (attribute or None, AttributeCollection)."""
    from exabgp.bgp.message.update.attribute.collection import AttributeCollection

    AttributeCollection.cached = None
    AttributeCollection.previous = b''
    coll = AttributeCollection.unpack(tlv, neg(asn4, False, out=False))
    code = tlv[1]
    return (coll[code] if code in coll else None), coll


def attr_laws(code, flags, asn4, value):
    v = []
    tlv = wire.encode_attr(code, value, flags=flags)
    contexts = [asn4] if code in ASN4_SENSITIVE else [True, False]
    first = None
    for a4 in contexts:
        tag = '' if code in ASN4_SENSITIVE or a4 else ':asn2-session'
        try:
            a, coll = unpack_attr(tlv, a4)
        except Exception as e:  # noqa: BLE001
            v.append((f'decode-refused:{type(e).__name__}{tag}', f'attribute {tlv.hex()[:120]} refused: {type(e).__name__}: {str(e)[:160]}'))
            continue
        if a is None:
            v.append((f'decode-lost{tag}', f'attribute {tlv.hex()[:120]} decoded to {[hex(k) for k in coll]}'))
            continue
        if first is None:
            first = a
        try:
            p1 = bytes(a.pack_attribute(neg(a4, False)))
        except Exception as e:  # noqa: BLE001
            v.append((f'pack-exception:{type(e).__name__}{tag}', f'pack_attribute of what {tlv.hex()[:80]} decoded to raised {type(e).__name__}: {str(e)[:160]}'))
            r, bad = render_attr(a)
            v += bad
            continue
        if p1 != tlv:
            v.append((f'pack-differs{tag}', f'pack(unpack(b)) != b: b={tlv.hex()[:160]} packed={p1.hex()[:160]}'))
        try:
            a2, _ = unpack_attr(p1, a4)
            if a2 is None:
                v.append((f're-decode-lost{tag}', f'what ExaBGP encoded ({p1.hex()[:120]}) is dropped by its own decoder'))
            else:
                p2 = bytes(a2.pack_attribute(neg(a4, False)))
                if p2 != p1:
                    v.append((f'repack-unstable{tag}', f'{p1.hex()[:120]} then {p2.hex()[:120]}'))
                if not (a2 == a) or (a2 != a):
                    v.append((f'object-differs{tag}', f'unpack(pack(a)) != a for {tlv.hex()[:120]}: {str(a2)[:60]} vs {str(a)[:60]}'))
        except Exception as e:  # noqa: BLE001
            v.append((f're-decode-refused:{type(e).__name__}{tag}', f'what ExaBGP encoded ({p1.hex()[:120]}) is refused by its own decoder: {str(e)[:160]}'))
        r, bad = render_attr(a)
        v += bad
    seen = {law for law, _ in v if not law.endswith(':asn2-session')}
    v = [(law, what) for law, what in v if not (law.endswith(':asn2-session') and law[:-len(':asn2-session')] in seen)]
    return first, v


# ---------------------------------------------------------------------------------------------
# text members
# ---------------------------------------------------------------------------------------------
_API = None


def api_parser():
    global _API
    if _API is None:
        from exabgp.configuration.configuration import Configuration
        from exabgp.reactor.api import API

        _API = API.__new__(API)
        _API.configuration = Configuration([])
        _API.reactor = None
    return _API


def parse_api_line(line):
    """The dispatch of reactor/api/command/announce.py (_V6_ANNOUNCE_HANDLERS) -> [Route] (empty: refused)."""
    api = api_parser()
    w = line.split()
    if len(w) < 2 or w[0] not in ('announce', 'withdraw'):
        return []
    kind = w[1]
    if kind == 'route':
        return api.api_route(line)
    if kind == 'vpls':
        return api.api_vpls(line)
    if kind in ('attribute', 'attributes'):
        return api.api_attributes(line, [])
    if kind == 'flow':
        return api.api_flow(line)
    if kind == 'ipv4':
        return api.api_announce_v4(line)
    if kind == 'ipv6':
        return api.api_announce_v6(line)
    return []


def conf_routes(text):
    from exabgp.configuration.configuration import Configuration

    exa.reset_process_state()
    cfg = Configuration([text], text=True)
    if not cfg.reload():
        return None
    routes = []
    for name in sorted(cfg.neighbors):
        nb = cfg.neighbors[name]
        for _ in nb.rib.outgoing.updates(False):
            pass
        rs = list(nb.rib.outgoing.cached_routes())
        rs.sort(key=lambda r: (tuple(int(x) for x in r.nlri.family().afi_safi()), bytes(r.index()), str(r.attributes)))
        routes += rs
    exa.reset_process_state()
    return routes


def harvest_text_status(api, confs):
    """Used by tools/harvest_c15.py: what the tree of the day makes of every text member."""
    st = []
    for src, line in api:
        try:
            r = parse_api_line(line)
            w = line.split()
            not_a_route = w[0] == 'group' or (len(w) > 1 and w[1] in ('eor', 'route-refresh', 'operational', 'watchdog'))
            st.append('A' if r else ('S' if not_a_route else 'R'))
        except Exception:  # noqa: BLE001
            st.append('X')
    cn = []
    for name, text in confs:
        try:
            r = conf_routes(text)
            cn.append(-1 if r is None else len(r))
        except Exception:  # noqa: BLE001
            cn.append(-1)
    return {'api': st, 'conf': cn}


_TEXT = None


def text_members():
    """-> [(desc, Route)] with desc = ['api', line] | ['conf', name, ordinal]; plus [(desc, problem)]"""
    global _TEXT
    if _TEXT is not None:
        return _TEXT
    ok, bad = [], []
    for st, src, line in load_api():
        if st != 'A':
            continue
        try:
            rs = parse_api_line(line)
        except Exception as e:  # noqa: BLE001
            bad.append((['api', line], f'exception:{type(e).__name__}', f'{type(e).__name__}: {e}'))
            continue
        if not rs:
            bad.append((['api', line], 'refused', 'accepted when the corpus was frozen, refused now'))
        for k, r in enumerate(rs):
            ok.append((['api', line, k], r))
    for name, n, text in load_confs():
        try:
            rs = conf_routes(text)
        except Exception as e:  # noqa: BLE001
            bad.append((['conf', name], f'exception:{type(e).__name__}', f'{type(e).__name__}: {e}'))
            continue
        if rs is None or len(rs) != n:
            bad.append((['conf', name], 'route-count', f'{n} routes when the corpus was frozen, {None if rs is None else len(rs)} now'))
        for k, r in enumerate(rs or []):
            ok.append((['conf', name, k], r))
    _TEXT = (ok, bad)
    return _TEXT


def text_route(desc):
    ok, _ = text_members()
    for d, r in ok:
        if d == desc:
            return r
    return None


def fam_of(o):
    a, s = o.family().afi_safi()
    return (int(a), int(s))


def has_pid(o):
    from exabgp.bgp.message.update.nlri.qualifier import PathInfo

    pi = getattr(o, 'path_info', None)
    return pi is not None and pi is not PathInfo.DISABLED


def text_laws(route):
    """Law 2 on one route -> [(signature-tail, what)] (already family/attribute qualified)."""
    from exabgp.bgp.message import UpdateCollection
    from exabgp.bgp.message.update.attribute.collection import AttributeCollection
    from exabgp.bgp.message.update.collection import RoutedNLRI

    v = []
    n = route.nlri
    fam = fam_of(n)
    fn = FAM_NAME.get(fam, str(fam))
    ap = has_pid(n) and fam in ADDPATH_FAMS
    try:
        p = pack_nlri(n, ap)
        st = subtype(fam[0], fam[1], p)
        o2, left = unpack_nlri(fam[0], fam[1], p, 'A', ap)
        if left:
            v.append((f'text-roundtrip:{fn}{st}:leftover', f'{p.hex()} left {left.hex()}'))
        if not (o2 == n) or (o2 != n):
            v.append((f'text-roundtrip:{fn}{st}:object-differs', f'text {n!s} -> {p.hex()} -> {o2!s}'))
        if o2.index() != n.index():
            v.append((f'text-roundtrip:{fn}{st}:index-differs', f'text {n!s}: index {bytes(n.index()).hex()} after the round trip {bytes(o2.index()).hex()}'))
        if hash(o2) != hash(n):
            v.append((f'text-roundtrip:{fn}{st}:hash-differs', f'text {n!s} -> {p.hex()}: hash differs after the round trip'))
        if pack_nlri(o2, ap) != p:
            v.append((f'text-roundtrip:{fn}{st}:repack-unstable', f'{p.hex()} then {pack_nlri(o2, ap).hex()}'))
        r1, bad1 = render_nlri(n)
        r2, _ = render_nlri(o2)
        for law, what in bad1:
            v.append((f'{law.split(":")[0]}:{fn}{st}:{":".join(law.split(":")[1:])}:from-text', what))
        for k in r1:
            if r1[k] != r2[k]:
                v.append((f'text-roundtrip:{fn}{st}:render-differs:{k}', f'{k} of the text object {r1[k][:150]!r}, of the decoded one {r2[k][:150]!r}'))
    except Exception as e:  # noqa: BLE001
        v.append((f'text-roundtrip:{fn}:exception:{type(e).__name__}', f'{n!s}: {type(e).__name__}: {str(e)[:160]}'))
    # attributes (registered codes only: an unknown code is carried as a generic attribute, C01/C02's subject)
    from exabgp.bgp.message.update.attribute import Attribute
    known = {c for c, _ in Attribute.registered_attributes}
    for code in sorted(route.attributes.keys()):
        if code not in known:
            continue
        a = route.attributes[code]
        an = f'attr{code}'
        for a4 in (True, False):
            tag = '' if a4 else ':asn2-session'
            try:
                p = bytes(a.pack_attribute(neg(a4, False)))
                if not p:
                    continue  # nothing is sent for it (e.g. an empty optional attribute)
                AttributeCollection.cached = None
                coll = AttributeCollection.unpack(p, neg(a4, False, out=False))
                if a.ID not in coll:
                    v.append((f'text-roundtrip:{an}:lost{tag}', f'{str(a)[:80]} -> {p.hex()[:120]} -> {[hex(k) for k in coll]}'))
                    continue
                a2 = coll[a.ID]
                p2 = bytes(a2.pack_attribute(neg(a4, False)))
                if a.GENERIC:
                    # `attribute [ 0x04 0x80 0x... ]` with a known code: same bytes is all that can be asked
                    if p2 != p:
                        v.append((f'text-roundtrip:{an}:repack-unstable{tag}', f'{p.hex()[:120]} then {p2.hex()[:120]}'))
                    continue
                if not (a2 == a) or (a2 != a):
                    v.append((f'text-roundtrip:{an}:object-differs{tag}', f'text {str(a)[:80]} ({type(a).__name__}) -> {p.hex()[:80]} -> {str(a2)[:80]} ({type(a2).__name__}) compare unequal'))
                    continue
                if p2 != p:
                    v.append((f'text-roundtrip:{an}:repack-unstable{tag}', f'{p.hex()[:120]} then {p2.hex()[:120]}'))
                    continue
                r1, _ = render_attr(a)
                r2, _ = render_attr(a2)
                for k in r1:
                    if r1[k] != r2[k]:
                        v.append((f'text-roundtrip:{an}:render-differs:{k}{tag}', f'{r1[k][:120]!r} vs {r2[k][:120]!r}'))
                        break
            except Exception as e:  # noqa: BLE001
                v.append((f'text-roundtrip:{an}:exception:{type(e).__name__}{tag}', f'{str(a)[:80]}: {type(e).__name__}: {str(e)[:160]}'))
    # the whole UPDATE, the way configuration/check.py check_generation does it
    from exabgp.protocol.ip import IP
    whole = route.nexthop is not IP.NoNextHop and all(c in known or c > 255 for c in route.attributes.keys())
    for a4 in ((True, False) if whole else ()):
        tag = '' if a4 else ':asn2-session'
        try:
            xnh = fam[0] in (1, 2) and getattr(route.nexthop, 'afi', None) is not None and int(route.nexthop.afi) != fam[0]
            nout, nin = neg(a4, ap, extnh=xnh), neg(a4, ap, out=False, extnh=xnh)
            packed = [bytes(m) for m in UpdateCollection([RoutedNLRI(n, route.nexthop)], [], route.attributes).messages(nout)]
            if not packed:
                v.append((f'text-roundtrip:update:{fn}:nothing-emitted{tag}', f'{route.extensive()[:200]}'))
                continue
            body = packed[0][19:]
            # RFC 4760 3 / RFC 4364 4.3.2 / RFC 7752 3.4: the next hop of MP_REACH_NLRI is one (or two, IPv6 with link-local)
            # addresses of the next-hop family, each behind an all-zero route distinguisher for the VPN families (SAFI 128,
            # BGP-LS-VPN 72) and for those only - read with the reference walker, not with ExaBGP's decoder
            try:
                wl = struct.unpack('!H', body[:2])[0]
                al = struct.unpack('!H', body[2 + wl:4 + wl])[0]
                for flags, code, value in wire.walk_attrs(body[4 + wl:4 + wl + al]):
                    if code == 14 and len(value) >= 4:
                        mp_safi, nhlen = value[2], value[3]
                        allowed = (12, 24, 48) if mp_safi in (128, 72) else (0, 4, 16, 32)
                        if nhlen not in allowed:
                            v.append((f'text-roundtrip:update:{fn}:mp-nexthop-length{tag}', f'MP_REACH_NLRI for SAFI {mp_safi} carries a next hop of {nhlen} octets, the RFC forms are {allowed}: {packed[0].hex()[:200]}'))
            except (struct.error, IndexError, ValueError):
                pass
            AttributeCollection.cached = None
            upd = UpdateCollection.unpack_message(body, nin)
            if not upd.announces:
                v.append((f'text-roundtrip:update:{fn}:no-announce{tag}', f'{packed[0].hex()[:200]}'))
                continue
            routed = upd.announces[0]
            if not (routed.nlri == n):
                v.append((f'text-roundtrip:update:{fn}:nlri-differs{tag}', f'{n!s} came back as {routed.nlri!s}'))
            if str(routed.nexthop) != str(route.nexthop) and str(route.nexthop) not in ('self',):
                v.append((f'text-roundtrip:update:{fn}:nexthop-differs{tag}', f'{route.nexthop} came back as {routed.nexthop}'))
            again = [bytes(m) for m in UpdateCollection([routed], [], upd.attributes).messages(nout)]
            if not again or (again[0] != packed[0] and not same_update_modulo_attribute_order(again[0], packed[0])):
                v.append((f'text-roundtrip:update:{fn}:repack-differs{tag}', f'{packed[0].hex()[:300]} then {(again[0].hex() if again else "")[:300]}'))
            # the same bytes decoded a second time on the same session, the daemon's caches left as the first decode left
            # them: the object decoded is a function of the bytes, so the same routes come back and pack to the same bytes
            upd2 = UpdateCollection.unpack_message(body, nin)
            if len(upd2.announces) != len(upd.announces) or not upd2.announces or not (upd2.announces[0].nlri == n):
                v.append((f'text-roundtrip:update:{fn}:second-decode-differs{tag}', f'{packed[0].hex()[:200]} decoded twice in a row: first {[str(r.nlri) for r in upd.announces][:3]}, then {[str(r.nlri) for r in upd2.announces][:3]}'))
            else:
                again2 = [bytes(m) for m in UpdateCollection([upd2.announces[0]], [], upd2.attributes).messages(nout)]
                if not again2 or (again2[0] != packed[0] and not same_update_modulo_attribute_order(again2[0], packed[0])):
                    v.append((f'text-roundtrip:update:{fn}:second-decode-repack-differs{tag}', f'{packed[0].hex()[:300]} then {(again2[0].hex() if again2 else "")[:300]}'))
        except Exception as e:  # noqa: BLE001
            v.append((f'text-roundtrip:update:{fn}:exception:{type(e).__name__}{tag}', f'{route.extensive()[:120]}: {type(e).__name__}: {str(e)[:160]}'))
    seen = {sig for sig, _ in v if not sig.endswith(':asn2-session')}
    return [(sig, what) for sig, what in v if not (sig.endswith(':asn2-session') and sig[:-len(':asn2-session')] in seen)]


def same_update_modulo_attribute_order(m1, m2):
    """Two framed UPDATEs that differ only in the order of their path attributes (RFC 4271 5: any order is allowed)."""
    try:
        parts = []
        for m in (m1, m2):
            body = m[19:]
            wl = struct.unpack('!H', body[:2])[0]
            al = struct.unpack('!H', body[2 + wl:4 + wl])[0]
            parts.append((body[:2 + wl], sorted(wire.walk_attrs(body[4 + wl:4 + wl + al])), body[4 + wl + al:]))
        return parts[0] == parts[1]
    except Exception:  # noqa: BLE001
        return False


# ---------------------------------------------------------------------------------------------
# family alphabets: law 3 (history independence) and law 4 (pairs)
# ---------------------------------------------------------------------------------------------
def family_variants(fam, tier, members):
    """-> [desc] with desc = ['bytes', afi, safi, action, hex, pid]"""
    out = []
    for action, hx, src in members:
        for pid in pids(tier):
            if pid is not None and fam not in ADDPATH_FAMS:
                continue
            out.append(['bytes', fam[0], fam[1], action, hx, pid])
    return out


def build(desc):
    """desc -> object or None"""
    if desc[0] == 'bytes':
        _, afi, safi, action, hx, pid = desc
        b = bytes.fromhex(hx)
        data = (struct.pack('!L', pid) if pid is not None else b'') + b
        try:
            o, left = unpack_nlri(afi, safi, data, action, pid is not None)
        except Exception:  # noqa: BLE001
            return None
        return o
    r = text_route(desc)
    return None if r is None else r.nlri


def key_of(desc, o):
    if desc[0] == 'bytes':
        _, afi, safi, action, hx, pid = desc
        try:
            return ref_key(afi, safi, action, bytes.fromhex(hx), pid)
        except Exception:  # noqa: BLE001
            return None
    # a text member: the key is read from what it packs to (labels/attributes never enter it)
    try:
        fam = fam_of(o)
        ap = has_pid(o) and fam in ADDPATH_FAMS
        p = pack_nlri(o, ap)
        pid = struct.unpack('!L', p[:4])[0] if ap else None
        return ref_key(fam[0], fam[1], 'A', p[4:] if ap else p, pid)
    except Exception:  # noqa: BLE001
        return None


def _desc_subtype(fam, d, o):
    try:
        if d[0] == 'bytes':
            return subtype(fam[0], fam[1], bytes.fromhex(d[4]))
        return subtype(fam[0], fam[1], pack_nlri(o, False))
    except Exception:  # noqa: BLE001
        return ''


def pair_laws(fam, da, a, ka, db, b, kb, pre_a=None, pre_b=None):
    """Law 4 on the ordered pair (a, b) -> [(signature, what)]"""
    fn = FAM_NAME[fam] + _desc_subtype(fam, da, a)
    v = []
    try:
        eq = a == b
        ne = a != b
    except Exception as e:  # noqa: BLE001
        return [(f'contract:{fn}:eq-exception:{type(e).__name__}', f'{a!s} == {b!s} raised {e}')]
    ia, ha, ra = pre_a or (bytes(a.index()), hash(a), route_index(a))
    ib, hb, rb = pre_b or (bytes(b.index()), hash(b), route_index(b))
    if bool(eq) == bool(ne):
        v.append((f'contract:{fn}:ne-inconsistent', f'{a!s} == {b!s} is {eq} and != is {ne}'))
    why = ''
    if ka is not None and kb is not None:
        d = key_differs(ka, kb)
        why = ('key-' + '+'.join(d)) if d else ('same-key' if da != db else 'same-member')
    if eq:
        if ia != ib:
            v.append((f'contract:{fn}:equal-but-index-differs:{why}', f'{a!s} == {b!s} but index() {ia.hex()} != {ib.hex()}'))
        if ha != hb:
            v.append((f'contract:{fn}:equal-but-hash-differs:{why}', f'{a!s} == {b!s} (index {ia.hex()}) but hash() differs: a set or dict keeps both'))
    if ka is not None and kb is not None and da != db:
        d = key_differs(ka, kb)
        if d:
            if ia == ib:
                v.append((f'index-collision:{fn}:{"+".join(d)}', f'{a!s} and {b!s} differ in {d} but share nlri.index() {ia.hex()}'))
            if ra == rb:
                v.append((f'index-collision:{fn}:{"+".join(d)}:route-index', f'{a!s} and {b!s} differ in {d} but share Route.index() {ra!r}'))
            if eq:
                v.append((f'contract:{fn}:equal-across-key:{"+".join(d)}', f'{a!s} == {b!s} although they differ in {d}'))
    return v


def family_unit(fam, tier, members):
    """Laws 3 and 4 on the alphabet of one family. -> result dict"""
    res = new_result()
    fn = FAM_NAME[fam]
    descs = family_variants(fam, tier, members)
    ok, _ = text_members()
    descs += [d for d, r in ok if fam_of(r.nlri) == fam]
    # ---- law 3: forward, reverse, caches switched on and pre-filled
    def one_pass(order, poison):
        out = {}
        reset_caches(poison)
        for i in order:
            o = build(descs[i])
            out[i] = None if o is None else render_nlri(o)[0]
            if o is not None:
                # a second object from the same bytes, rendered straight after the first
                o_b = build(descs[i])
                if o_b is not None and render_nlri(o_b)[0] != out[i]:
                    add_viol(res, f'render-unstable:{fn}:same-bytes-twice', f'{descs[i]}: two objects from the same input render differently', {'kind': 'render', 'fam': list(fam)})
        return out
    idx = list(range(len(descs)))
    fwd = one_pass(idx, False)
    rev = one_pass(idx[::-1], False)
    poi = one_pass(idx[1::2] + idx[0::2], True)
    reset_caches(False)
    for i in idx:
        res['exec'] += 3
        for name, other in (('reverse-order', rev), ('caches-on', poi)):
            if fwd[i] != other[i]:
                k = next((k for k in (fwd[i] or {}) if (other[i] or {}).get(k) != fwd[i][k]), '?')
                add_viol(res, f'render-unstable:{fn}:{name}:{k}', f'{descs[i]}: {k} is {str((fwd[i] or {}).get(k))[:120]!r} after the members before it and {str((other[i] or {}).get(k))[:120]!r} in the other order/cache state',
                         {'kind': 'render', 'fam': list(fam)})
    # ---- law 4: every ordered pair
    objs = []
    for d in descs:
        o = build(d)
        if o is None:
            continue  # reported by the member unit
        try:
            objs.append((d, o, key_of(d, o), (bytes(o.index()), hash(o), route_index(o))))
        except Exception as e:  # noqa: BLE001
            add_viol(res, f'contract:{fn}:index-exception:{type(e).__name__}', f'{d}: index()/hash() raised {type(e).__name__}: {str(e)[:120]}', {'kind': 'pair', 'fam': list(fam), 'a': d, 'b': d})
    eqm = {}
    for i, (da, a, ka, pa) in enumerate(objs):
        for j, (db, b, kb, pb) in enumerate(objs):
            res['pairs'] += 1
            vs = pair_laws(fam, da, a, ka, db, b, kb, pa, pb)
            eqm[(i, j)] = (a == b)
            for sig, what in vs:
                add_viol(res, sig, what, {'kind': 'pair', 'fam': list(fam), 'a': da, 'b': db})
    for (i, j), e in eqm.items():
        if i < j and bool(e) != bool(eqm[(j, i)]):
            add_viol(res, f'contract:{fn}:eq-asymmetric', f'{objs[i][1]!s} == {objs[j][1]!s} is {e}, the other way round {eqm[(j, i)]}', {'kind': 'pair', 'fam': list(fam), 'a': objs[i][0], 'b': objs[j][0]})
    res['nontrivial'] += sum(1 for (i, j), e in eqm.items() if i != j and (e or (objs[i][2] and objs[j][2] and key_differs(objs[i][2], objs[j][2]))))
    res['objects'] = len(objs)
    # for the cross-family comparison in the parent
    res['indexes'] = [(pa[0].hex(), pa[2].hex() if isinstance(pa[2], bytes) else str(pa[2]), list(fam), json.dumps(d)) for d, o, k, pa in objs]
    res['outcomes'].add((fn, 'pairs', len(objs)))
    return res


def attr_family_unit(code, members):
    """Laws 3 and 4 on the alphabet of one attribute code."""
    res = new_result()
    an = f'attr{code}'

    def mk(i):
        flags, asn4, hx, src = members[i]
        try:
            a, _ = unpack_attr(wire.encode_attr(code, bytes.fromhex(hx), flags=flags), asn4)
            return a
        except Exception:  # noqa: BLE001
            return None

    def one_pass(order, poison):
        out = {}
        reset_caches(poison)
        for i in order:
            a = mk(i)
            out[i] = None if a is None else render_attr(a)[0]
            a_b = mk(i)
            if a is not None and a_b is not None and render_attr(a_b)[0] != out[i]:
                add_viol(res, f'render-unstable:{an}:same-bytes-twice', f'{members[i][2][:80]}: two objects from the same bytes render differently', {'kind': 'attr-render', 'code': code})
        return out
    idx = list(range(len(members)))
    fwd = one_pass(idx, False)
    rev = one_pass(idx[::-1], False)
    poi = one_pass(idx[1::2] + idx[0::2], True)
    reset_caches(False)
    for i in idx:
        res['exec'] += 3
        for name, other in (('reverse-order', rev), ('caches-on', poi)):
            if fwd[i] != other[i]:
                k = next((k for k in (fwd[i] or {}) if (other[i] or {}).get(k) != fwd[i][k]), '?')
                add_viol(res, f'render-unstable:{an}:{name}:{k}', f'attribute {code} value {members[i][2][:80]}: {k} is {str((fwd[i] or {}).get(k))[:120]!r} and {str((other[i] or {}).get(k))[:120]!r} in another order/cache state',
                         {'kind': 'attr-render', 'code': code})
    objs = []
    for i in idx:
        a = mk(i)
        if a is None:
            continue
        try:
            p = bytes(a.pack_attribute(neg(members[i][1], False)))
        except Exception:  # noqa: BLE001
            p = None
        objs.append((i, a, p))
    for i, a, pa in objs:
        for j, b, pb in objs:
            res['pairs'] += 1
            case = {'kind': 'attr-pair', 'code': code, 'a': list(members[i][:3]), 'b': list(members[j][:3])}
            try:
                eq, ne = (a == b), (a != b)
            except Exception as e:  # noqa: BLE001
                add_viol(res, f'contract:{an}:eq-exception:{type(e).__name__}', f'{str(a)[:60]} == {str(b)[:60]} raised {e}', case)
                continue
            if bool(eq) == bool(ne):
                add_viol(res, f'contract:{an}:ne-inconsistent', f'{str(a)[:60]} == {str(b)[:60]} is {eq} and != is {ne}', case)
            same_bytes = members[i][2] == members[j][2] and members[i][1] == members[j][1]
            if same_bytes and not eq:
                add_viol(res, f'contract:{an}:same-bytes-unequal', f'attribute {code} value {members[i][2][:80]} decoded twice gives unequal objects', case)
            if eq and pa is not None and pb is not None and pa != pb and members[i][1] == members[j][1]:
                add_viol(res, f'contract:{an}:equal-but-pack-differs', f'{members[i][2][:80]} and {members[j][2][:80]} decode to equal objects which encode differently', case)
            if eq:
                try:
                    if hash(a) != hash(b):
                        add_viol(res, f'contract:{an}:equal-but-hash-differs', f'{members[i][2][:80]} and {members[j][2][:80]}: equal objects, different hashes', case)
                except TypeError:
                    pass  # unhashable: no hash contract to hold
            if eq and not same_bytes:
                res['nontrivial'] += 1
    res['objects'] = len(objs)
    res['outcomes'].add((an, 'pairs', len(objs)))
    return res


# ---------------------------------------------------------------------------------------------
# MP_REACH / MP_UNREACH: containers; re-encoded through the collection the UPDATE encoder uses
# ---------------------------------------------------------------------------------------------
def mp_laws(code, flags, value, ap=False):
    from exabgp.bgp.message.update.attribute import Attribute
    from exabgp.bgp.message.update.nlri.collection import MPNLRICollection

    v = []
    tlv = wire.encode_attr(code, value, flags=flags)
    try:
        xnh = False
        if code == 14 and len(value) > 4:
            afi, nhl = struct.unpack('!H', value[:2])[0], value[3]
            xnh = (afi == 1 and nhl in (16, 24, 32)) or (afi == 2 and nhl in (4, 12))
        n_in = neg(True, ap, out=False, extnh=xnh)
        n_out = neg(True, ap, extnh=xnh)
        a = Attribute.unpack(code, flags, value, n_in)
        if code == 14:
            routed = list(a.iter_routed())
            coll = MPNLRICollection.from_routed(routed, {}, a.afi, a.safi)
            again = b''.join(coll.packed_reach_attributes(n_out, 65535))
        else:
            nl = list(a)
            coll = MPNLRICollection(nl, {}, a.afi, a.safi)
            again = b''.join(coll.packed_unreach_attributes(n_out, 65535))
            if len(value) == 3:
                return v  # an End-of-RIB marker: no NLRI, nothing to re-encode
        if again != tlv:
            # a recorded MP_REACH may carry a next hop form the encoder never produces (global + link-local, RD-prefixed):
            # the law is on the NLRI part, the next hop is C01/C02's subject
            off = 4 + value[3] + 1 if code == 14 else 3
            got = wire.walk_attrs(again)
            gv = got[0][2] if len(got) == 1 else b''
            goff = 4 + gv[3] + 1 if (code == 14 and len(gv) > 3) else 3
            if gv[goff:] != value[off:] or gv[:3] != value[:3]:
                v.append(('pack-differs', f'NLRIs of {tlv.hex()[:200]} re-encode as {again.hex()[:200]}'))
    except Exception as e:  # noqa: BLE001
        v.append((f'exception:{type(e).__name__}', f'{tlv.hex()[:120]}: {type(e).__name__}: {str(e)[:160]}'))
    return v


# ---------------------------------------------------------------------------------------------
# results plumbing
# ---------------------------------------------------------------------------------------------
def new_result():
    return {'exec': 0, 'pairs': 0, 'nontrivial': 0, 'viol': {}, 'outcomes': set(), 'samples': [], 'indexes': [], 'objects': 0, 'refused': []}


def add_viol(res, sig, what, case):
    v = res['viol'].get(sig)
    if v is None:
        res['viol'][sig] = [what, case, 1]
    else:
        v[2] += 1
        if len(json.dumps(case)) < len(json.dumps(v[1])):
            v[0], v[1] = what, case


def nlri_member_unit(fam, tier, members):
    res = new_result()
    fn = FAM_NAME[fam]
    for action, hx, src in members:
        b = bytes.fromhex(hx)
        st = subtype(fam[0], fam[1], b)
        for pid in pids(tier):
            if pid is not None and fam not in ADDPATH_FAMS:
                continue
            reset_caches(False)
            o, vs = nlri_laws(fam[0], fam[1], action, b, pid)
            res['exec'] += 1
            res['nontrivial'] += 1 if o is not None else 0
            res['outcomes'].add((fn, st, pid is not None, type(o).__name__, tuple(sorted(set(law.split(':')[0] for law, _ in vs)))))
            for law, what in vs:
                kind = law.split(':')[0]
                head = {'decode-refused': 'decode', 're-decode-refused': 'roundtrip', 'json-invalid': 'json-invalid', 'render-exception': 'render', 'meaning': 'meaning',
                        'addpath-symmetry': 'addpath', 'cross-addpath': 'addpath'}.get(kind, 'roundtrip')
                tail = law if head in ('roundtrip', 'decode', 'addpath') else ':'.join(law.split(':')[1:])
                add_viol(res, f'{head}:{fn}{st}:{tail}', what + f'  [{src}]', {'kind': 'nlri', 'afi': fam[0], 'safi': fam[1], 'action': action, 'hex': hx, 'pid': pid})
            if len(res['samples']) < 1 and o is not None:
                res['samples'].append({'family': fn, 'bytes': hx, 'path-id': pid, 'object': str(o)[:120], 'json': render_nlri(o)[0]['json'][:200]})
        neighbours(res, fam, action, hx)
    return res


def neighbours(res, fam, action, hx):
    """Law 5: the member against each of its one-octet neighbours (every octet of the NLRI, lowest and highest bit flipped) that ExaBGP decodes and
    packs back to the same bytes. Where the RFC reading of the key fields tells the two apart they are two routes and never share an index. Every
    octet of every key field is thereby shown to reach nlri.index() and Route.index()."""
    da = ['bytes', fam[0], fam[1], action, hx, None]
    a = build(da)
    if a is None:
        return
    try:
        ka = key_of(da, a)
        pre_a = (bytes(a.index()), hash(a), route_index(a))
        if pack_nlri(a, False) != bytes.fromhex(hx):
            return
    except Exception:  # noqa: BLE001
        return  # reported by laws 1-4
    b0 = bytes.fromhex(hx)
    for i in range(len(b0)):
        for bit in (0x01, 0x80):
            b1 = b0[:i] + bytes([b0[i] ^ bit]) + b0[i + 1:]
            db = ['bytes', fam[0], fam[1], action, b1.hex(), None]
            try:
                o, left = unpack_nlri(fam[0], fam[1], b1, action, False)
                if o is None or left or pack_nlri(o, False) != b1:
                    continue
                kb = key_of(db, o)
            except Exception:  # noqa: BLE001
                continue
            res['exec'] += 1
            res['pairs'] += 1
            if ka is None or kb is None or not key_differs(ka, kb):
                continue
            res['nontrivial'] += 1
            # a neighbour need not be well formed (ExaBGP reads some length octets leniently: C03/C08 judge that), so only the law that holds for
            # any two byte strings accepted as two routes is applied: different key, different index
            for sig, what in pair_laws(fam, da, a, ka, db, o, kb, pre_a):
                if sig.startswith('index-collision:'):
                    add_viol(res, sig, what + '  [one-octet neighbour]', {'kind': 'pair', 'fam': list(fam), 'a': da, 'b': db})


def attr_member_unit(code, members):
    res = new_result()
    an = f'attr{code}'
    for flags, asn4, hx, src in members:
        reset_caches(False)
        res['exec'] += 1
        if code in (14, 15):
            vs = mp_laws(code, flags, bytes.fromhex(hx), ap=(asn4 == 'ap'))
            a = True
        else:
            a, vs = attr_laws(code, flags, asn4, bytes.fromhex(hx))
        res['nontrivial'] += 1 if a is not None else 0
        res['outcomes'].add((an, type(a).__name__, tuple(sorted(set(law.split(':')[0] for law, _ in vs)))))
        for law, what in vs:
            kind = law.split(':')[0]
            head = {'decode-refused': 'decode', 'decode-lost': 'decode', 'json-invalid': 'json-invalid', 'render-exception': 'render'}.get(kind, 'roundtrip')
            tail = law if head in ('roundtrip', 'decode') else ':'.join(law.split(':')[1:])
            add_viol(res, f'{head}:{an}:{tail}', what + f'  [{src}]', {'kind': 'attr', 'code': code, 'flags': flags, 'asn4': asn4, 'hex': hx})
        if len(res['samples']) < 1 and a is not None and code not in (14, 15):
            res['samples'].append({'attribute': code, 'value': hx[:80], 'text': render_attr(a)[0]['text'][:120]})
    return res


def text_unit(shard, nshards):
    res = new_result()
    ok, bad = text_members()
    if shard == 0:
        for desc, kind, what in bad:
            add_viol(res, f'text:{kind}', f'{desc}: {what}', {'kind': 'text-parse', 'desc': desc})
    for i, (desc, route) in enumerate(ok):
        if i % nshards != shard:
            continue
        reset_caches(False)
        res['exec'] += 1
        res['nontrivial'] += 1
        vs = text_laws(route)
        res['outcomes'].add(('text', FAM_NAME.get(fam_of(route.nlri)), tuple(sorted(route.attributes.keys())), bool(vs)))
        for sig, what in vs:
            add_viol(res, sig, what + f'  [{desc}]', {'kind': 'text', 'desc': desc})
        if shard == 0 and len(res['samples']) < 1:
            res['samples'].append({'text': desc, 'route': route.extensive()[:200]})
    return res


def worker(job):
    kind = job[0]
    _init_process()
    try:
        if kind == 'nlri':
            return nlri_member_unit(tuple(job[1]), job[2], job[3])
        if kind == 'family':
            return family_unit(tuple(job[1]), job[2], job[3])
        if kind == 'attr':
            return attr_member_unit(job[1], job[2])
        if kind == 'attr-family':
            return attr_family_unit(job[1], job[2])
        if kind == 'text':
            return text_unit(job[1], job[2])
    except core.HarnessError:
        raise
    raise core.HarnessError(f'unknown job {kind}')


def registry():
    """What the tree under test registers -> (families, attribute codes)."""
    import exabgp.bgp.message.update  # noqa: F401
    from exabgp.bgp.message.update.attribute import Attribute
    from exabgp.bgp.message.update.nlri import NLRI

    fams = sorted({(int(a), int(s)) for a, s in NLRI.registered_families if f'{a}/{s}' in NLRI.registered_nlri})
    codes = sorted({c for c, _ in Attribute.registered_attributes})
    return fams, codes


def coverage_table(tier='quick'):
    nl = load_nlri(tier)
    at = load_attrs()
    fams, codes = registry()
    ok, _ = text_members()
    tf = {}
    ta = {}
    for d, r in ok:
        tf[fam_of(r.nlri)] = tf.get(fam_of(r.nlri), 0) + 1
        for c in r.attributes:
            if c <= 255:
                ta[c] = ta.get(c, 0) + 1
    ftab = {f: {'bytes': len(nl.get(f, [])), 'text': tf.get(f, 0)} for f in fams}
    atab = {c: {'bytes': len(at.get(c, [])), 'text': ta.get(c, 0)} for c in codes}
    return ftab, atab


def coverage_report():
    ftab, atab = coverage_table()
    print('family alphabet sizes (frozen byte members / text members):')
    for f, v in sorted(ftab.items()):
        print(f'  {FAM_NAME.get(f, f)!s:22} {v["bytes"]:4} / {v["text"]:3}' + ('   THIN' if v['bytes'] + v['text'] < MIN_MEMBERS else ''))
    print('attribute alphabet sizes:')
    for c, v in sorted(atab.items()):
        print(f'  {c:3} {ATTR_NAME.get(c, "?"):22} {v["bytes"]:4} / {v["text"]:3}' + ('   THIN' if v['bytes'] + v['text'] < MIN_MEMBERS else ''))


def run(ctx: core.Ctx) -> None:
    tier = ctx.tier
    nl = load_nlri(tier)
    at = load_attrs()
    fams, codes = registry()
    ftab, atab = coverage_table(tier)
    thin_f = [FAM_NAME.get(f, str(f)) for f, v in ftab.items() if v['bytes'] + v['text'] < MIN_MEMBERS]
    thin_a = [f'{c} ({ATTR_NAME.get(c, "?")})' for c, v in atab.items() if v['bytes'] + v['text'] < MIN_MEMBERS]
    unknown_f = [f for f in fams if f not in FAM_NAME]
    for f in unknown_f:
        ctx.violation(f'coverage:family-without-alphabet:{f[0]}/{f[1]}', f'family {f} is registered but the frozen corpus has no alphabet for it', {'kind': 'coverage'})
    for c in codes:
        if c not in at and atab[c]['text'] == 0:
            ctx.violation(f'coverage:attribute-without-alphabet:{c}', f'attribute {c} is registered but the frozen corpus has no member for it', {'kind': 'coverage'})
    ctx.rule = (f'frozen alphabet corpus/c15 ({sum(len(v) for v in nl.values())} NLRI byte members over {len(fams)} registered families, {sum(len(v) for v in at.values())} attribute values over '
                f'{len(codes)} registered codes, {len([1 for s, _, _ in load_api() if s == "A"])} API lines, {len(load_confs())} configuration files) x path identifier {pids(tier)} for the 8 IP families '
                'x ASN4 on/off for attributes; laws 1-3 on every member, law 4 on every ordered pair of every family/attribute alphabet, plus one cross-family index table; '
                'non-trivial = a member that decodes to an object (members), a pair that is equal or differs in a key field (pairs)')
    ctx.assumptions += [
        'vt/ref/wire.py is the canonical encoder for the 8 IP families (STRONG law pack(unpack(b)) == b against reference bytes)',
        'for every other family and for attributes the frozen bytes (recorded qa messages, RFC layouts transcribed in tools/harvest_c15.py) are taken as canonical: STRONG law too, '
        'and the WEAK laws pack(unpack(pack(unpack(b)))) == pack(unpack(b)), unpack(pack(o)) == o apply to every member of every family',
        'key fields (path id, RD, prefix) are read from the bytes by the RFC layouts in ref_key(); labels are never part of the key and nothing is asserted about labels and index()',
        'ADD-PATH: only the 8 IP families put a path identifier on the wire; for the 15 others it is checked that negotiating ADD-PATH changes nothing in either direction',
        'objects without a path identifier and objects with one are not compared for index collisions (they cannot meet in one table)',
    ]
    ctx.coverage_extra['alphabet_sizes_families'] = {FAM_NAME.get(f, str(f)): v for f, v in sorted(ftab.items())}
    ctx.coverage_extra['alphabet_sizes_attributes'] = {f'{c} {ATTR_NAME.get(c, "?")}': v for c, v in sorted(atab.items())}
    ctx.coverage_extra['thin_coverage_fewer_than_6_members'] = {'families': thin_f, 'attributes': thin_a,
                                                                 'note': 'ATOMIC_AGGREGATE has one possible value; ORIGIN has three'}
    ctx.coverage_extra['law_applied'] = {'strong pack(unpack(b))==b': 'all 23 families and all attribute codes (IP families: reference encoder bytes; others: recorded/RFC-transcribed bytes)',
                                         'weak idempotence + unpack(pack(o))==o': 'all',
                                         'MP_REACH/MP_UNREACH (14, 15)': 'containers: NLRI part re-encoded through MPNLRICollection, plus whole-UPDATE round trip of every text member'}
    jobs = []
    for f in fams:
        if f not in FAM_NAME:
            continue
        ms = nl.get(f, [])
        step = 24
        for i in range(0, len(ms), step):
            jobs.append(('nlri', list(f), tier, ms[i:i + step]))
        jobs.append(('family', list(f), tier, ms))
    for c in codes:
        ms = at.get(c, [])
        if ms:
            jobs.append(('attr', c, ms))
            if c not in (14, 15):
                jobs.append(('attr-family', c, ms))
    nsh = 16
    jobs += [('text', i, nsh) for i in range(nsh)]
    # biggest first
    jobs.sort(key=lambda j: -(len(j[3]) ** 2 if j[0] == 'family' else 1))
    pool = mp.Pool(min(16, os.cpu_count() or 1))
    outcomes = set()
    indexes = []
    samples = []
    objects = 0
    try:
        for res in pool.imap_unordered(worker, jobs, chunksize=1):
            ctx.count('executions', res['exec'])
            ctx.count('pairs', res['pairs'])
            ctx.count('nontrivial', res['nontrivial'])
            objects += res['objects']
            outcomes.update(res['outcomes'])
            indexes += res['indexes']
            for sig, (what, case, n) in res['viol'].items():
                ctx.violation(sig, what, case)
                ctx.viol[sig]['count'] += n - 1
            samples += res['samples']
    finally:
        pool.close()
        pool.join()
    for smp in sorted(samples, key=lambda x: json.dumps(x, sort_keys=True))[::max(1, len(samples) // 8)]:
        ctx.sample(smp, limit=8)
    # cross-family: one table of every index of every object
    by_idx, by_ridx = {}, {}
    for ih, rh, fam, d in sorted(indexes):
        by_idx.setdefault(ih, set()).add(tuple(fam))
        by_ridx.setdefault(rh, set()).add(tuple(fam))
    for name, table in (('nlri-index', by_idx), ('route-index', by_ridx)):
        for h, fs in sorted(table.items()):
            if len(fs) > 1:
                names = '/'.join(sorted(FAM_NAME[f] for f in fs))
                ctx.violation(f'index-collision:{names}:{name}', f'objects of families {names} share the {name} {h}', {'kind': 'cross', 'index': h, 'which': name})
    ctx.counters['executions'] = ctx.counters.get('executions', 0) + ctx.counters.get('pairs', 0)
    ctx.counters['objects_in_pair_alphabets'] = objects
    ctx.counters['states'] = len(outcomes)
    ctx.counters['transitions'] = ctx.counters['executions']
    for o in sorted(outcomes, key=str):
        ctx.add_to_set('outcomes', str(o))


# ---------------------------------------------------------------------------------------------
# replay
# ---------------------------------------------------------------------------------------------
def replay(case):
    _init_process()
    kind = case['kind']
    res = new_result()
    if kind == 'nlri':
        fam = (case['afi'], case['safi'])
        one = nlri_member_unit(fam, 'thorough', [(case['action'], case['hex'], 'replay')])
        return [{'signature': s, 'what': w} for s, (w, c, n) in one['viol'].items() if c.get('pid') == case.get('pid')] or \
               [{'signature': s, 'what': w} for s, (w, c, n) in one['viol'].items()]
    if kind == 'attr':
        one = attr_member_unit(case['code'], [(case['flags'], case['asn4'], case['hex'], 'replay')])
        return [{'signature': s, 'what': w} for s, (w, c, n) in one['viol'].items()]
    if kind == 'text':
        r = text_route(case['desc'])
        if r is None:
            return []
        return [{'signature': s, 'what': w} for s, w in text_laws(r)]
    if kind == 'text-parse':
        _, bad = text_members()
        return [{'signature': f'text:{k}', 'what': w} for d, k, w in bad if d == case['desc']]
    if kind == 'pair':
        fam = tuple(case['fam'])
        a, b = build(case['a']), build(case['b'])
        if a is None or b is None:
            return []
        out = pair_laws(fam, case['a'], a, key_of(case['a'], a), case['b'], b, key_of(case['b'], b))
        out += pair_laws(fam, case['b'], b, key_of(case['b'], b), case['a'], a, key_of(case['a'], a))
        if bool(a == b) != bool(b == a):
            out.append((f'contract:{FAM_NAME[fam]}:eq-asymmetric', f'{a!s} == {b!s} is {a == b}, the other way round {b == a}'))
        try:
            bytes(a.index()), hash(a)
        except Exception as e:  # noqa: BLE001
            out.append((f'contract:{FAM_NAME[fam]}:index-exception:{type(e).__name__}', str(e)))
        return [{'signature': s, 'what': w} for s, w in out]
    if kind == 'render':
        fam = tuple(case['fam'])
        one = family_unit(fam, 'quick', load_nlri('quick').get(fam, []))
        return [{'signature': s, 'what': w} for s, (w, c, n) in one['viol'].items() if s.startswith('render-unstable')]
    if kind in ('attr-render', 'attr-pair'):
        one = attr_family_unit(case['code'], load_attrs().get(case['code'], []))
        return [{'signature': s, 'what': w} for s, (w, c, n) in one['viol'].items()]
    if kind == 'cross':
        # rebuild the table
        out = []
        nl = load_nlri('quick')
        table = {}
        for fam in FAMILIES:
            r = family_unit(fam, 'quick', nl.get(fam, []))
            for ih, rh, f, d in r['indexes']:
                table.setdefault(ih if case['which'] == 'nlri-index' else rh, set()).add(tuple(f))
        fs = table.get(case['index'], set())
        if len(fs) > 1:
            names = '/'.join(sorted(FAM_NAME[f] for f in fs))
            out.append({'signature': f'index-collision:{names}:{case["which"]}', 'what': f'families {names} share {case["index"]}'})
        return out
    if kind == 'coverage':
        fams, codes = registry()
        at = load_attrs()
        out = [{'signature': f'coverage:family-without-alphabet:{f[0]}/{f[1]}', 'what': 'no alphabet'} for f in fams if f not in FAM_NAME]
        out += [{'signature': f'coverage:attribute-without-alphabet:{c}', 'what': 'no member'} for c in codes if c not in at]
        return out
    return []
