"""C08 - Malformed attributes never yield announced routes (RFC 7606).   E-in, single-fault neighbourhood.

Seeds: well-formed UPDATEs (IPv4 NLRI, MP_REACH IPv6, both) carrying the full recognised attribute set, built by
the reference encoder.  For every attribute in the seed and every corruption kind (length-1, length+1, zero
length, length overrunning the block, optional/transitive flag flipped, RFC-named invalid values, truncated
block, duplicate), at the first/middle/last position, the corrupted UPDATE goes through the real
Protocol.read_message (API JSON event) and the real UpdateHandler (Adj-RIB-In).
"""

from __future__ import annotations

import collections
import json
import multiprocessing as mp
import os

from vt import core, exa
from vt.ref import wire as w
from vt.world import FakeSocket, LoopOnly
from vt.checks import c02

PROPERTY = 'C08'

CFG = """
process api { run /bin/cat; encoder json; }
neighbor 127.0.0.2 {
  router-id 1.2.3.4;
  local-address 127.0.0.1;
  local-as 65001;
  peer-as 65002;
  capability { asn4 %(asn4)s; aigp enable; }
  api { processes [ api ]; receive { parsed; update; notification; } }
  family { ipv4 unicast; ipv6 unicast; ipv4 nlri-mpls; ipv4 mpls-vpn; }
}
"""

# attribute -> RFC 7606 handling when malformed: 'discard' or 'withdraw' (session reset is always allowed)
DISCARD = {w.ATOMIC_AGGREGATE, w.AGGREGATOR, w.AS4_AGGREGATOR}

SEED_ATTRS = collections.OrderedDict([
    (w.ORIGIN, 1),
    (w.AS_PATH, ((2, (65002, 65003)), (1, (65010,)))),
    (w.NEXT_HOP, '10.0.0.1'),
    (w.MED, 77),
    (w.LOCAL_PREF, 300),
    (w.ATOMIC_AGGREGATE, True),
    (w.AGGREGATOR, (65010, '10.9.8.7')),
    (w.COMMUNITIES, (0x10002, 0x30004)),
    (w.ORIGINATOR_ID, '10.0.0.9'),
    (w.CLUSTER_LIST, ('10.0.0.1', '10.0.0.2')),
    (w.EXT_COMMUNITIES, ('0002fde800000001',)),
    (w.LARGE_COMMUNITIES, ((1, 2, 3),)),
    (w.AIGP, 1000),
])

SEEDS = {
    'v4': dict(nlri=[c02.N4('10.2.0.0', 16), c02.N4('10.3.3.0', 24)], mp=None),
    'v6': dict(nlri=[], mp=(2, 1, '2001:db8::1', [c02.N6('2001:db8:1::', 48), c02.N6('2001:db8:2::', 48)])),
    'both': dict(nlri=[c02.N4('10.2.0.0', 16)], mp=(2, 1, '2001:db8::1', [c02.N6('2001:db8:1::', 48)])),
    # labeled and VPN routes in MP_REACH (their NLRI carry labels / route distinguishers the withdraw must name too)
    'lab4': dict(nlri=[], mp=(1, 4, '10.0.0.9', [w.nlri_ip(1, 4, '10.4.0.0', 16, None, (3,)), w.nlri_ip(1, 4, '10.4.4.0', 24, None, (16, 17))])),
    'vpn4': dict(nlri=[c02.N4('10.2.0.0', 16)], mp=(1, 128, '10.0.0.9', [w.nlri_ip(1, 128, '10.5.0.0', 16, None, (100,), c02.RD0)])),
}


def seed_tlvs(seed, asn4):
    """[(code, flags, value bytes)] in canonical order."""
    s = SEEDS[seed]
    out = []
    for code, v in SEED_ATTRS.items():
        if code == w.NEXT_HOP and not s['nlri']:
            continue
        out.append((code, w.CANON_FLAGS[code], w.encode_attr_value(code, v, asn4)))
    if s['mp']:
        afi, safi, nh, nl = s['mp']
        out.append((w.MP_REACH, w.CANON_FLAGS[w.MP_REACH], w.encode_mp_reach(afi, safi, nh, nl, False)))
    return out


INVALID_VALUES = {
    w.ORIGIN: [('origin-3', b'\x03'), ('origin-255', b'\xff')],
    w.AS_PATH: [('segment-type-9', bytes([9, 1, 0, 0, 0xfd, 0xea])), ('segment-count-overrun', bytes([2, 5, 0, 0, 0xfd, 0xea])), ('segment-zero-length', bytes([2, 0]))],
    w.NEXT_HOP: [('nexthop-len-3', bytes(3)), ('nexthop-len-5', bytes(5)), ('nexthop-len-16', bytes(16))],
    w.MED: [('med-len-3', bytes(3)), ('med-len-5', bytes(5))],
    w.LOCAL_PREF: [('lp-len-3', bytes(3)), ('lp-len-5', bytes(5))],
    w.ATOMIC_AGGREGATE: [('aa-len-1', bytes(1))],
    w.AGGREGATOR: [('agg-len-5', bytes(5)), ('agg-len-7', bytes(7)), ('agg-len-6-on-asn4', bytes(6))],
    w.COMMUNITIES: [('comm-len-3', bytes(3)), ('comm-len-5', bytes(5)), ('comm-len-0', b'')],
    w.ORIGINATOR_ID: [('oid-len-3', bytes(3)), ('oid-len-5', bytes(5))],
    w.CLUSTER_LIST: [('cl-len-5', bytes(5)), ('cl-len-0', b'')],
    w.EXT_COMMUNITIES: [('ext-len-7', bytes(7)), ('ext-len-9', bytes(9)), ('ext-len-0', b'')],
    w.LARGE_COMMUNITIES: [('lc-len-11', bytes(11)), ('lc-len-13', bytes(13)), ('lc-len-0', b'')],
    w.AIGP: [('aigp-tlv-len-2', bytes([1, 0, 2])), ('aigp-truncated', bytes([1, 0, 11, 0, 0]))],
    w.MP_REACH: [('mp-nh-len-overrun', bytes([0, 2, 1, 200, 0])), ('mp-too-short', bytes([0, 2, 1])), ('mp-nlri-mask-129', bytes([0, 2, 1, 16]) + bytes(16) + bytes([0, 129, 0x20, 1]))],
}


def corruptions(tlvs, idx):
    """Yield (kind, new list of encoded attribute bytes, overrun flag) for corrupting tlvs[idx]."""
    code, flags, val = tlvs[idx]

    def enc(i, c, f, v, length=None, ext=None):
        if length is None:
            return w.encode_attr(c, v, flags=f, extended=ext)
        # explicit (possibly lying) length field
        if length > 255 or ext:
            return bytes([f | w.F_EXTLEN, c]) + length.to_bytes(2, 'big') + v
        return bytes([f & ~w.F_EXTLEN, c, length]) + v

    def rebuild(replacement):
        return [replacement if i == idx else w.encode_attr(c, v, flags=f) for i, (c, f, v) in enumerate(tlvs)]

    if len(val) >= 1:
        yield 'len-1', rebuild(enc(idx, code, flags, val[:-1])), False
    if code != w.MP_REACH:  # for MP_REACH one more zero byte is a well-formed extra ::/0 NLRI
        yield 'len+1', rebuild(enc(idx, code, flags, val + b'\x00')), False
    if len(val) > 0 and code != w.AS_PATH:
        yield 'zero-length', rebuild(enc(idx, code, flags, b'')), False
    # declared length runs past the end of the attribute block (block length stays truthful)
    if idx == len(tlvs) - 1:
        yield 'overrun-block', rebuild(enc(idx, code, flags, val, length=len(val) + 7)), True
        # by one and two octets, with the one-octet and with the two-octet (Extended Length) form of the length: what is
        # actually there is then a well-formed value of the attribute
        for extra in (1, 2):
            yield f'overrun-block+{extra}', rebuild(enc(idx, code, flags, val, length=len(val) + extra)), True
            yield f'overrun-block+{extra}-extended-length', rebuild(enc(idx, code, flags, val, length=len(val) + extra, ext=True)), True
    # declared length swallows the following attribute(s): block stays consistent, attribute is too long
    if idx < len(tlvs) - 1:
        nxt = w.encode_attr(tlvs[idx + 1][0], tlvs[idx + 1][2], flags=tlvs[idx + 1][1])
        merged = [enc(idx, code, flags, val + nxt) if i == idx else (None if i == idx + 1 else w.encode_attr(c, v, flags=f)) for i, (c, f, v) in enumerate(tlvs)]
        yield 'swallow-next', [m for m in merged if m is not None], False
    yield 'flag-optional-flipped', rebuild(enc(idx, code, flags ^ w.F_OPTIONAL, val)), False
    yield 'flag-transitive-flipped', rebuild(enc(idx, code, flags ^ w.F_TRANSITIVE, val)), False
    for name, bad in INVALID_VALUES.get(code, []):
        if name == 'agg-len-6-on-asn4' and len(val) == 6:
            continue
        yield 'value:' + name, rebuild(enc(idx, code, flags, bad)), False
    yield 'duplicate', rebuild(enc(idx, code, flags, val) + enc(idx, code, flags, val)), False
    yield 'extended-length-flag-lie', rebuild(bytes([flags | w.F_EXTLEN, code, len(val)]) + val), False


class _Recorder:
    """stands for Reactor.processes: renders events with the real encoder, as Processes does"""

    def __init__(self):
        from exabgp.reactor.api.response import Response
        from exabgp.version import json as json_version

        self.enc = Response.JSON(json_version)
        self.events = []

    def message(self, message_id, peer, direction, message, header, body, negotiated):
        if message_id == w.UPDATE:
            coll = message if message.IS_EOR else message.data
            self.events.append(self.enc.update(peer.neighbor, direction, coll, header, body, negotiated))

    def notification(self, *a, **k):
        pass

    def packets(self, *a, **k):
        pass


class _Reactor:
    pass


class _Peer:
    def __init__(self, neighbor):
        self.neighbor = neighbor
        self.stats = collections.defaultdict(int)
        self.reactor = _Reactor()
        self.reactor.processes = _Recorder()
        self._restarted = False


_W = {}


def setup(asn4):
    if asn4 in _W:
        return _W[asn4]
    exa.reset_process_state()
    cfg, n = exa.neighbor_from_text(CFG % dict(asn4='enable' if asn4 else 'disable'))
    body = exa.peer_open_body(65002, [(1, 1), (2, 1), (1, 4), (1, 128)], asn4=asn4)
    neg = exa.negotiated_for(n, body, direction_out=False)
    _W[asn4] = (n, neg)
    return _W[asn4]


def drive(asn4, body, reset=True):
    """-> (outcome kind, data): ('notify', (code, sub)) | ('nop', None) | ('update', (json message, rib table))"""
    from exabgp.bgp.message import Notify
    from exabgp.bgp.message.update.attribute.collection import AttributeCollection
    from exabgp.protocol.family import AFI
    from exabgp.reactor.network.incoming import Incoming
    from exabgp.reactor.peer.handlers.update import UpdateHandler
    from exabgp.reactor.protocol import Protocol
    from exabgp.rib.incoming import IncomingRIB

    n, neg = setup(asn4)
    if reset and hasattr(AttributeCollection, 'cached'):
        AttributeCollection.cached = None
        AttributeCollection.previous = b''
    n.rib.incoming = IncomingRIB(True, n.rib.incoming.families)
    peer = _Peer(n)
    result = {}
    with LoopOnly() as lw:
        sock = FakeSocket(lw, 'in')
        proto = Protocol(peer)
        proto.negotiated = neg
        proto.connection = Incoming(AFI.ipv4, '127.0.0.2', '127.0.0.1', sock)

        async def go():
            try:
                result['msg'] = await proto.read_message()
            except Notify as e:
                result['notify'] = (e.code, e.subcode)

        task = lw.loop.create_task(go())
        sock.feed(w.frame(w.UPDATE, body))
        lw.run_until_blocked(task)
        if task.done() and task.exception() is not None:
            return 'exception', (type(task.exception()).__name__, str(task.exception())[:120]), peer.reactor.processes.events
    events = peer.reactor.processes.events
    if 'notify' in result:
        return 'notify', result['notify'], events
    msg = result.get('msg')
    if msg is None:
        return 'exception', ('NoResult', 'read_message did not complete'), events
    if not getattr(msg, 'TYPE', None) == bytes([2]) or getattr(msg, 'SCHEDULING', False):
        return 'nop', None, events
    ctx = c02._Ctx()
    ctx.neighbor, ctx.negotiated, ctx.stats, ctx.peer_id = n, neg, {'receive-prefixes': 0, 'receive-withdraws': 0}, 'verif'
    if not msg.IS_EOR:
        for _ in UpdateHandler().handle(ctx, msg):
            pass
    table = {}
    for r in n.rib.incoming.cached_routes():
        fam = c02.FAMNAME[(int(r.nlri.afi), int(r.nlri.safi))]
        js = r.nlri.json()
        j = json.loads(js if js.lstrip().startswith('{') else '{' + js + '}')
        k, _ = c02.canon_nlri(fam, j)
        table[k] = (str(r.nexthop), r.attributes)
    return 'update', table, events


def seed_expect(seed, asn4):
    s = SEEDS[seed]
    routes = {}
    for x in s['nlri']:
        routes[w.nlri_key(x)] = '10.0.0.1'
    if s['mp']:
        for x in s['mp'][3]:
            routes[w.nlri_key(x)] = s['mp'][2]
    attrs = {}
    for code, v in SEED_ATTRS.items():
        if code == w.NEXT_HOP:
            continue
        attrs[code] = v
    attrs['path'] = w.merge_segments(SEED_ATTRS[w.AS_PATH])
    attrs['origin'] = SEED_ATTRS[w.ORIGIN]
    del attrs[w.AS_PATH]
    del attrs[w.ORIGIN]
    return routes, attrs


def judge(seed, asn4, code, kind, overrun, outcome, data, events):
    """-> list of (signature, what)"""
    routes, attrs = seed_expect(seed, asn4)
    viols = []
    name = f'attr{code}'
    if outcome == 'exception':
        return [(f'exception:{data[0]}:{name}', f'{data[0]}: {data[1]}')]
    if outcome == 'notify':
        c, sc = data
        if c != 3:
            viols.append((f'reset-with-non-update-code:{c}/{sc}:{name}', f'malformed attribute {code} ({kind}) reset the session with {c}/{sc}, not an UPDATE Message Error (3/x)'))
    # what the API was told
    announced_api = {}
    withdrawn_api = set()
    api_attrs = None
    for ev in events:
        try:
            msg = json.loads(ev)['neighbor']['message']
        except Exception as e:  # noqa: BLE001
            viols.append((f'api-event-not-json:{name}', f'{e}'))
            continue
        try:
            gann, gwds, gattrs, dup = c02.canon_json(msg)
        except Exception as e:  # noqa: BLE001
            viols.append((f'api-event-uncanonical:{name}', f'{type(e).__name__}: {e}: {str(msg)[:200]}'))
            continue
        announced_api.update(gann)
        withdrawn_api |= gwds
        api_attrs = gattrs
    rib = data if outcome == 'update' else {}
    announced_rib = set(rib)
    announced = set(announced_api) | announced_rib
    ours = [k for k in announced if k in routes]
    foreign = [k for k in announced if k not in routes]
    if foreign:
        viols.append((f'invented-route:{name}:{kind.split(":")[0]}', f'routes {foreign} not in the seed were announced after corrupting attribute {code} ({kind})'))
    if not ours:
        return viols  # nothing announced: withdrawn, dropped or reset - all inside the statement
    where = 'api' if any(k in announced_api for k in ours) else 'rib-in'
    # announced: only legal when T is discard-class, T absent, everything else as in the seed
    if code == w.MP_REACH:
        # routes of the NLRI field keep all their attributes; only routes taken out of the malformed MP_REACH_NLRI count
        mp_routes = {w.nlri_key(x) for x in (SEEDS[seed]['mp'][3] if SEEDS[seed]['mp'] else [])}
        bad = [k for k in ours if k in mp_routes]
        if bad:
            viols.append((f'announced-after-malformed-mp-reach:{kind}', f'{bad} announced ({where}) out of a malformed MP_REACH_NLRI ({kind})'))
        return viols
    if overrun:
        viols.append((f'overrun-accepted:{name}', f'attribute {code} declared a length overrunning the attribute block and the routes were still announced ({where})'))
    if api_attrs is not None and kind in ('swallow-next', 'extended-length-flag-lie') and code not in DISCARD:
        # the bytes of the following attribute(s) were swallowed: whatever is announced is announced from a block
        # that cannot be parsed as sent
        viols.append((f'announced-after-unparseable-block:{name}:{kind}', f'{ours} announced ({where}) although attribute {code} ({kind}) swallowed the attributes after it'))
        return viols
    if api_attrs is not None:
        got = dict(api_attrs)
        got.pop('next-hop', None)
        if kind == 'duplicate':
            # RFC 7606 3.g: later occurrences are discarded and processing continues: the seed's values must come out
            for c2, v in attrs.items():
                g = got.get(c2)
                ok = (g is not None and sorted(g) == sorted(v)) if c2 in (w.COMMUNITIES, w.EXT_COMMUNITIES, w.LARGE_COMMUNITIES) else ((g is not None and tuple(g) == tuple(v)) if c2 == w.AGGREGATOR else g == v)
                if not ok:
                    viols.append((f'duplicate-changed-attribute:{name}', f'duplicating attribute {code} changed attribute {c2}: reported {g}, sent {v}'))
                    break
            return viols
        t_present = (code in got) or (code == w.AS_PATH and 'path' in got) or (code == w.ORIGIN and 'origin' in got) or (code == w.NEXT_HOP and any(k in announced_api for k in ours))
        if code not in DISCARD:
            if not t_present:
                viols.append((f'announced-with-attribute-missing:{name}:{kind}', f'{ours} announced ({where}) with attribute {code} simply missing after corruption {kind}; RFC 7606 asks for treat-as-withdraw'))
            else:
                viols.append((f'announced-with-malformed-attribute:{name}:{kind}', f'{ours} announced ({where}) with malformed attribute {code} ({kind}) interpreted as {str(got.get(code, got.get("path")))[:60]}'))
        elif t_present and kind not in ('flag-transitive-flipped',):
            viols.append((f'discard-class-kept:{name}:{kind}', f'{ours} announced with malformed attribute {code} ({kind}) still present: {str(got.get(code))[:60]}'))
        # every other attribute must be as in the seed (unless its bytes were swallowed by the malformed one)
        for c2, v in attrs.items():
            if kind in ('swallow-next', 'extended-length-flag-lie'):
                break
            if c2 == code or (code == w.AS_PATH and c2 == 'path') or (code == w.ORIGIN and c2 == 'origin'):
                continue
            if c2 == w.AGGREGATOR and code == w.AS4_AGGREGATOR:
                continue
            g = got.get(c2)
            if c2 in (w.COMMUNITIES, w.EXT_COMMUNITIES, w.LARGE_COMMUNITIES):
                ok = g is not None and sorted(g) == sorted(v)
            elif c2 == w.AGGREGATOR:
                ok = g is not None and tuple(g) == tuple(v)
            else:
                ok = g == v
            if not ok:
                viols.append((f'collateral-attribute-changed:{name}:{kind.split(":")[0]}', f'corrupting attribute {code} ({kind}) changed attribute {c2}: reported {g}, sent {v}'))
                break
    return viols


def worker(args):
    asn4, seed = args
    res = {'exec': 0, 'viol': {}, 'outcomes': collections.Counter(), 'samples': []}
    base = seed_tlvs(seed, asn4)
    n = len(base)
    # sanity: the unmodified seed must be announced in full
    body0 = w.encode_update(attrs=[w.encode_attr(c, v, flags=f) for c, f, v in base], nlri=SEEDS[seed]['nlri'])
    out, data, events = drive(asn4, body0)
    routes, _ = seed_expect(seed, asn4)
    if out != 'update' or set(data) != set(routes):
        res['viol'][f'seed-refused:{seed}'] = (f'the well-formed seed {seed} was not announced in full: {out} {str(data)[:100]}', {'asn4': asn4, 'seed': seed, 'pos': -1, 'idx': -1, 'kind': 'seed'}, 1)
        return res
    for idx in range(n):
        code = base[idx][0]
        # positions: the attribute moved first / kept in the middle / moved last
        for pos in ('first', 'middle', 'last'):
            order = list(range(n))
            if pos == 'first':
                order.remove(idx)
                order.insert(0, idx)
            elif pos == 'last':
                order.remove(idx)
                order.append(idx)
            tl = [base[i] for i in order]
            j = order.index(idx)
            for kind, attr_bytes, overrun in corruptions(tl, j):
                body = w.encode_update(attrs=attr_bytes, nlri=SEEDS[seed]['nlri'])
                out, data, events = drive(asn4, body)
                res['exec'] += 1
                res['outcomes'][(code, kind.split(':')[0], out if out != 'notify' else f'notify{data[0]}/{data[1]}')] += 1
                for sig, what in judge(seed, asn4, code, kind, overrun, out, data, events):
                    case = {'asn4': asn4, 'seed': seed, 'pos': pos, 'idx': idx, 'kind': kind}
                    v = res['viol'].get(sig)
                    res['viol'][sig] = (what + f' [seed {seed} asn4 {asn4} position {pos}] body {body.hex()[:120]}...', case, (v[2] if v else 0) + 1) if v is None else (v[0], v[1], v[2] + 1)
                # the same malformed UPDATE again, after a good one and itself, with the process-wide attribute cache left
                # as the daemon leaves it: the verdict must not depend on what was decoded before
                drive(asn4, body0, reset=True)
                drive(asn4, body, reset=False)
                out2, data2, events2 = drive(asn4, body, reset=False)
                res['exec'] += 1
                for sig, what in judge(seed, asn4, code, kind, overrun, out2, data2, events2):
                    sig = 'repeated:' + sig
                    case = {'asn4': asn4, 'seed': seed, 'pos': pos, 'idx': idx, 'kind': kind, 'repeat': True}
                    v = res['viol'].get(sig)
                    res['viol'][sig] = (what + f' [the UPDATE was decoded after a good one and a first copy of itself; seed {seed} asn4 {asn4} position {pos}]', case, 1) if v is None else (v[0], v[1], v[2] + 1)
                if len(res['samples']) < 1 and out == 'notify':
                    res['samples'].append({'seed': seed, 'attribute': code, 'kind': kind, 'position': pos, 'outcome': [out, list(data)]})
    res['outcomes'] = dict(('|'.join(map(str, k)), v) for k, v in res['outcomes'].items())
    return res


LOCAL_KINDS = ('len-1', 'len+1', 'zero-length', 'flag-optional-flipped', 'flag-transitive-flipped')


def announced_of(outcome, data, events):
    """-> (routes announced on the API or stored in Adj-RIB-In, problems)"""
    probs = []
    api = {}
    for ev in events:
        try:
            gann, gwds, gattrs, dup = c02.canon_json(json.loads(ev)['neighbor']['message'])
        except Exception as e:  # noqa: BLE001
            probs.append(f'{type(e).__name__}: {e}')
            continue
        api.update(gann)
    rib = data if outcome == 'update' else {}
    return set(api) | set(rib), probs


def pair_worker(args):
    """thorough: two attributes of the same UPDATE corrupted at once (corruptions that touch one attribute only: lengths,
    flags, the RFC-named invalid values).  Nothing may be announced unless both attributes are of the attribute-discard
    class; a reset must carry a 3/x code; nothing may raise."""
    asn4, seed = args
    res = {'exec': 0, 'viol': {}, 'outcomes': collections.Counter(), 'samples': []}
    base = seed_tlvs(seed, asn4)
    n = len(base)
    routes, _ = seed_expect(seed, asn4)
    mp_routes = {w.nlri_key(x) for x in (SEEDS[seed]['mp'][3] if SEEDS[seed]['mp'] else [])}
    local = {}
    for idx in range(n):
        local[idx] = [(kind, lst[idx]) for kind, lst, overrun in corruptions(base, idx)
                      if not overrun and len(lst) == n and (kind in LOCAL_KINDS or kind.startswith('value:'))]
    plain = [w.encode_attr(c, v, flags=f) for c, f, v in base]
    for i in range(n):
        for j in range(i + 1, n):
            for ka, ba in local[i]:
                for kb, bb in local[j]:
                    attrs = list(plain)
                    attrs[i], attrs[j] = ba, bb
                    body = w.encode_update(attrs=attrs, nlri=SEEDS[seed]['nlri'])
                    out, data, events = drive(asn4, body)
                    res['exec'] += 1
                    ca, cb = base[i][0], base[j][0]
                    res['outcomes'][(0, 'pair', out if out != 'notify' else f'notify{data[0]}/{data[1]}')] += 1
                    viols = []
                    if out == 'exception':
                        viols.append((f'pair:exception:{data[0]}', f'{data[0]}: {data[1]}'))
                    elif out == 'notify' and data[0] != 3:
                        viols.append((f'pair:reset-with-non-update-code:{data[0]}/{data[1]}', f'attributes {ca} ({ka}) and {cb} ({kb}) malformed: session reset with {data[0]}/{data[1]}'))
                    else:
                        ann, probs = announced_of(out, data, events)
                        ours = {k for k in ann if k in routes}
                        if w.MP_REACH in (ca, cb):
                            other = cb if ca == w.MP_REACH else ca
                            # routes of the NLRI field survive a malformed MP_REACH_NLRI, unless the other attribute forbids it too
                            bad = {k for k in ours if k in mp_routes} | (ours if other not in DISCARD else set())
                        else:
                            bad = ours if not (ca in DISCARD and cb in DISCARD) else set()
                        if bad:
                            viols.append((f'pair:announced-with-malformed-attributes:attr{ca}+attr{cb}', f'{sorted(bad)[:2]} announced although attribute {ca} ({ka}) and attribute {cb} ({kb}) are malformed'))
                    for sig, what in viols:
                        case = {'asn4': asn4, 'seed': seed, 'pair': [i, ka, j, kb]}
                        v = res['viol'].get(sig)
                        res['viol'][sig] = (what + f' [seed {seed} asn4 {asn4}] body {body.hex()[:120]}...', case, 1) if v is None else (v[0], v[1], v[2] + 1)
    return res


def run(ctx: core.Ctx) -> None:
    ctx.rule = (f'{len(SEEDS)} seeds (IPv4 NLRI x2, MP_REACH IPv6 x2, both, MP_REACH labeled x2, IPv4 NLRI + MP_REACH VPN) x 2 sessions (ASN4 on/off) x every attribute of the seed ({len(SEED_ATTRS)} + MP_REACH) x 3 positions (first, middle, last) x every corruption '
                '(length-1, length+1, zero length, overrun of the block, swallowing the next attribute, optional/transitive flag flipped, RFC-named invalid values, duplicate, extended-length flag lie); '
                '(thorough: also every pair of single-attribute corruptions - lengths, flags, RFC-named values - of two attributes of one UPDATE); non-trivial = every case (each is a distinct malformed UPDATE); distinct outcomes = (attribute, corruption, result class)')
    ctx.assumptions += ['reference encoder vt/ref/wire.py', 'RFC 7606 classes: ATOMIC_AGGREGATE/AGGREGATOR/AS4_AGGREGATOR attribute-discard, others treat-as-withdraw; a session reset with 3/x is always accepted; announcing nothing is accepted']
    pool = mp.Pool(min(16, os.cpu_count() or 1))
    outcomes = collections.Counter()
    try:
        jobs = [(worker, (a, s)) for a in (True, False) for s in SEEDS]
        if ctx.tier != 'quick':
            jobs += [(pair_worker, (a, s)) for a in (True, False) for s in SEEDS]
        asyncs = [pool.apply_async(fn, (arg,)) for fn, arg in jobs]
        for res in (a.get() for a in asyncs):
            ctx.count('executions', res['exec'])
            ctx.count('nontrivial', res['exec'])
            for k, v in res['outcomes'].items():
                outcomes[k] += v
            for smp in res['samples']:
                ctx.sample(smp)
            for sig, (what, case, n) in res['viol'].items():
                ctx.violation(sig, what, case)
                ctx.viol[sig]['count'] += n - 1
    finally:
        pool.close()
        pool.join()
    ctx.counters['states'] = len(outcomes)
    ctx.counters['transitions'] = ctx.counters.get('executions', 0)
    ctx.coverage_extra['outcome_classes'] = {str(k): v for k, v in sorted(outcomes.items(), key=repr)[:400]}


def replay(case):
    asn4, seed = case['asn4'], case['seed']
    if 'pair' in case:
        res = pair_worker((asn4, seed))
        return [{'signature': sig, 'what': v[0]} for sig, v in res['viol'].items()]
    base = seed_tlvs(seed, asn4)
    n = len(base)
    if case['kind'] == 'seed':
        body0 = w.encode_update(attrs=[w.encode_attr(c, v, flags=f) for c, f, v in base], nlri=SEEDS[seed]['nlri'])
        out, data, events = drive(asn4, body0)
        routes, _ = seed_expect(seed, asn4)
        if out != 'update' or set(data) != set(routes):
            return [{'signature': f'seed-refused:{seed}', 'what': f'{out} {str(data)[:100]}'}]
        return []
    idx, pos = case['idx'], case['pos']
    order = list(range(n))
    if pos == 'first':
        order.remove(idx)
        order.insert(0, idx)
    elif pos == 'last':
        order.remove(idx)
        order.append(idx)
    tl = [base[i] for i in order]
    j = order.index(idx)
    for kind, attr_bytes, overrun in corruptions(tl, j):
        if kind == case['kind']:
            body = w.encode_update(attrs=attr_bytes, nlri=SEEDS[seed]['nlri'])
            if case.get('repeat'):
                body0 = w.encode_update(attrs=[w.encode_attr(c, v, flags=f) for c, f, v in base], nlri=SEEDS[seed]['nlri'])
                drive(asn4, body0, reset=True)
                drive(asn4, body, reset=False)
                out, data, events = drive(asn4, body, reset=False)
                return [{'signature': 'repeated:' + s, 'what': wh} for s, wh in judge(seed, asn4, base[idx][0], kind, overrun, out, data, events)]
            out, data, events = drive(asn4, body)
            return [{'signature': s, 'what': wh} for s, wh in judge(seed, asn4, base[idx][0], kind, overrun, out, data, events)]
    return []
