"""C10 - Every protocol error is answered with the right NOTIFICATION, once.   E-dev, fault x state.

One fault from every class (header, OPEN, UPDATE, ROUTE-REFRESH, unexpected type, hold/open timers, API
teardown, received NOTIFICATION) is injected at every macro step of the default session script (so in every
session state in which it can occur), alone (quick) or after one benign earlier deviation (thorough).
Oracle: the bytes ExaBGP writes on that connection from the injection until it is closed.
"""

from __future__ import annotations

import errno
import multiprocessing as mp
import os

from vt import core
from vt.ref import wire
from vt.world import edev
from vt.checks import c05

PROPERTY = 'C10'

# fault name -> (bytes builder | None, class)
def _open_with(**kw):
    def build(r):
        caps = [wire.cap_mp(1, 1), wire.cap_mp(2, 1), wire.cap_asn4(kw.get('asn4', r.asn)), (wire.CAP_RR, b'')]
        body = bytearray(wire.encode_open(kw.get('asn', r.asn), kw.get('hold', r.hold), kw.get('rid', r.router_id), caps, version=kw.get('version', 4)))
        return wire.frame(wire.OPEN, bytes(body))
    return build


def _open_bad_optparam(ptype):
    # an optional parameter that is not a capability: RFC 4271 6.2 Unsupported Optional Parameter
    def build(r):
        body = bytes([4]) + (r.asn).to_bytes(2, 'big') + (r.hold).to_bytes(2, 'big') + bytes([9, 9, 9, 9]) + bytes([4, ptype, 2, 0, 0])
        return wire.frame(wire.OPEN, body)
    return build


def _open_truncated_caps(r):
    # optional parameters length says 6 but capability inside overruns
    body = bytes([4]) + (r.asn).to_bytes(2, 'big') + (r.hold).to_bytes(2, 'big') + bytes([9, 9, 9, 9]) + bytes([4, 2, 2, 1, 9])
    return wire.frame(wire.OPEN, body)


def _upd(body):
    return lambda r: wire.frame(wire.UPDATE, body)


def _attrs_update(attrs, nlri=(('192.0.2.0', 24),)):
    return wire.encode_update(attrs=attrs, nlri=[wire.nlri_ip(1, 1, a, m) for a, m in nlri])


GOOD = [
    wire.encode_attr(wire.ORIGIN, b'\x00'),
    wire.encode_attr(wire.AS_PATH, wire.encode_as_path([(2, [65002])], True)),
    wire.encode_attr(wire.NEXT_HOP, bytes([10, 9, 9, 9])),
]

FAULTS = {
    # header errors (RFC 4271 6.1)
    'hdr-marker': (lambda r: edev.bad_marker(), 'header'),
    'hdr-len-18': (lambda r: edev.bad_length_short(), 'header'),
    'hdr-len-max': (lambda r: edev.bad_length_long(), 'header'),
    'hdr-len-4097': (lambda r: wire.MARKER + (4097).to_bytes(2, 'big') + b'\x02' + bytes(4097 - 19), 'header'),
    'hdr-ka-len-20': (lambda r: wire.MARKER + (20).to_bytes(2, 'big') + b'\x04\x00', 'header'),
    'hdr-update-len-22': (lambda r: wire.MARKER + (22).to_bytes(2, 'big') + b'\x02' + bytes(3), 'header'),
    # a bare header (19 octets, the KEEPALIVE size) under a type that needs a body
    'hdr-len19-update': (lambda r: wire.MARKER + b'\x00\x13\x02', 'header'),
    'hdr-len19-notification': (lambda r: wire.MARKER + b'\x00\x13\x03', 'header'),
    'hdr-len19-refresh': (lambda r: wire.MARKER + b'\x00\x13\x05', 'header'),
    'hdr-len19-open': (lambda r: wire.MARKER + b'\x00\x13\x01', 'header'),
    'hdr-type-9': (lambda r: edev.bad_type(), 'header-type'),
    'hdr-type-0': (lambda r: wire.frame(0, b''), 'header-type'),
    # OPEN errors (RFC 4271 6.2)
    'open-version-3': (_open_with(version=3), 'open-version'),
    'open-bad-as': (_open_with(asn=65009, asn4=65009), 'open-as'),
    'open-rid-0': (_open_with(rid='0.0.0.0'), 'open-rid'),
    'open-hold-1': (_open_with(hold=1), 'open-hold'),
    'open-hold-2': (_open_with(hold=2), 'open-hold'),
    'open-optparam-1': (_open_bad_optparam(1), 'open-optparam-auth'),
    'open-optparam-9': (_open_bad_optparam(9), 'open-optparam'),
    'open-caps-truncated': (_open_truncated_caps, 'open-malformed'),
    # UPDATE errors (RFC 4271 6.3 / RFC 7606)
    'upd-attr-len-overrun': (_upd(b'\x00\x00\x00\x40' + b'\x40\x01\x01\x00'), 'update-structure'),
    'upd-withdrawn-len-overrun': (_upd(b'\x00\x40\x00\x00'), 'update-structure'),
    'upd-too-short': (_upd(b'\x00\x00\x00\x00\x18'), 'update-nlri'),
    'upd-nlri-len-33': (_upd(_attrs_update(GOOD, ()) + bytes([33, 1, 2, 3, 4, 5])), 'update-nlri'),
    'upd-missing-wellknown': (_upd(_attrs_update(GOOD[:2])), 'update-attr'),
    'upd-origin-3': (_upd(_attrs_update([wire.encode_attr(wire.ORIGIN, b'\x03')] + GOOD[1:])), 'update-attr'),
    'upd-origin-flags': (_upd(edev.upd_bad_origin_flags()), 'update-attr'),
    'upd-nexthop-len-3': (_upd(_attrs_update(GOOD[:2] + [wire.encode_attr(wire.NEXT_HOP, bytes(3))])), 'update-attr'),
    'upd-aspath-bad-segment': (_upd(_attrs_update([GOOD[0], wire.encode_attr(wire.AS_PATH, bytes([9, 1, 0, 0, 0, 1])), GOOD[2]])), 'update-attr'),
    'upd-attr-twice': (_upd(_attrs_update(GOOD + [GOOD[0]])), 'update-attr'),
    'upd-attr-truncated': (_upd(_attrs_update(GOOD)[:-6] + b''), 'update-structure'),
    # ROUTE-REFRESH (RFC 2918 / 7313)
    'refresh-len-3': (lambda r: wire.MARKER + (22).to_bytes(2, 'big') + b'\x05' + bytes(3), 'header'),
    'refresh-len-5': (lambda r: wire.frame(wire.ROUTE_REFRESH, bytes([0, 1, 0, 1, 0])), 'refresh-length'),
    # unexpected message for the state
    'unexp-open': (lambda r: wire.frame(wire.OPEN, r.open_body()), 'unexpected:open'),
    # the same, with a host name / software version capability holding non-ASCII text (legal in a first OPEN)
    'unexp-open-utf8-hostname': (lambda r: wire.frame(wire.OPEN, wire.encode_open(r.asn, r.hold, r.router_id, [wire.cap_mp(1, 1), wire.cap_mp(2, 1), wire.cap_asn4(r.asn), (73, bytes([5]) + 'café'.encode() + bytes([3]) + b'dom')])), 'unexpected:open'),
    'unexp-open-utf8-software': (lambda r: wire.frame(wire.OPEN, wire.encode_open(r.asn, r.hold, r.router_id, [wire.cap_mp(1, 1), wire.cap_mp(2, 1), wire.cap_asn4(r.asn), (75, bytes([7]) + 'naïve1'.encode())])), 'unexpected:open'),
    # message types the code knows about but no session negotiated: internal NOP (252) and OPERATIONAL (6)
    'type-252': (lambda r: wire.frame(252, b''), 'header-type'),
    'type-6-operational': (lambda r: wire.frame(6, bytes([0, 1, 0, 4, 0, 1, 1, 0])), 'header-type-or-ignored'),
    'unexp-update': (_upd(edev.upd_announce(('203.0.113.0', 24))), 'unexpected:update'),
    'unexp-keepalive': (lambda r: wire.frame(wire.KEEPALIVE, b''), 'unexpected:keepalive'),
    'unexp-refresh': (lambda r: wire.frame(wire.ROUTE_REFRESH, wire.encode_route_refresh(1, 1)), 'unexpected:refresh'),
    # received NOTIFICATION: must not be answered
    'notif-cease': (lambda r: wire.frame(wire.NOTIFICATION, wire.encode_notification(6, 2)), 'notification'),
    'notif-empty-data': (lambda r: wire.frame(wire.NOTIFICATION, wire.encode_notification(3, 1)), 'notification'),
    'notif-garbage': (lambda r: wire.frame(wire.NOTIFICATION, bytes([99, 99]) + b'\xff\x00garbage'), 'notification'),
    'notif-shutdown-comm': (lambda r: wire.frame(wire.NOTIFICATION, wire.encode_notification(6, 2, bytes([200]) + b'x' * 200)), 'notification'),
    # timers and operator
    'silence-hold': (None, 'hold-timer'),
    'api-teardown-2': (None, 'teardown'),
    'api-teardown-4': (None, 'teardown'),
    'api-teardown-6': (None, 'teardown'),
    # a code that does not fit the one-octet subcode: refused (the session goes on) or a Cease all the same, never a silent close
    'api-teardown-300': (None, 'teardown-or-refused'),
    'api-teardown-0': (None, 'teardown-or-refused'),
    # the peer's NOTIFICATION and a local teardown at the same moment (both ends reset the session): crossing
    # NOTIFICATIONs are legal, but once ExaBGP has read the peer's it must not write its own
    'teardown-then-notif': (None, 'notification+teardown'),      # API command processed, then the NOTIFICATION arrives in the same instant
    'teardown+notif': (None, 'notification+teardown'),           # both queued before the daemon runs, command first
    'notif+teardown': (None, 'notification+teardown'),           # both queued before the daemon runs, NOTIFICATION first
    'teardown-50ms-notif': (None, 'notification+teardown'),      # the NOTIFICATION arrives 50 ms after the command
}
CROSS_NOTIF = wire.frame(wire.NOTIFICATION, wire.encode_notification(6, 4))

BENIGN = ['split-next', 'api-announce', 'wait-1s']

UPDATE_SUBCODES = {
    'update-structure': {(3, 1)},
    'update-nlri': {(3, 1), (3, 10)},
    # RFC 7606 lets most attribute errors be treat-as-withdraw (no reset); a reset must carry a 3/x code
    'update-attr': {(3, s) for s in (1, 2, 3, 4, 5, 6, 8, 9, 10, 11)},
}


def own_class(fault_class: str, fault: str):
    """(allowed codes when the message is processed on its merits, may the session legally continue)"""
    if fault_class == 'header':
        return ({(1, 1)} if fault == 'hdr-marker' else {(1, 2)}), False
    if fault_class == 'header-type':
        # 1/3 is what RFC 4271 6.1 asks for (C06 insists on it); 1/0 still names the header-error class
        return {(1, 3), (1, 0)}, False
    if fault_class.startswith('open-'):
        return {
            'open-version': {(2, 1)}, 'open-as': {(2, 2)}, 'open-rid': {(2, 3)}, 'open-hold': {(2, 6)},
            # parameter type 1 is the Authentication parameter RFC 4271 removed: 2/4, or the deprecated 2/5
            'open-optparam-auth': {(2, 4), (2, 5)}, 'open-optparam': {(2, 4), (2, 0)}, 'open-malformed': {(2, 0), (2, 4), (1, 2)},
        }[fault_class], False
    if fault_class in UPDATE_SUBCODES:
        return UPDATE_SUBCODES[fault_class], fault_class == 'update-attr'
    if fault_class == 'refresh-length':
        return {(7, 1), (1, 2)}, True  # RFC 7313 5: 7/1, or ignored when enhanced refresh is not negotiated
    raise core.HarnessError(f'no oracle for {fault_class}')


def allowed(fault_class: str, state: str, fault: str, hold: int):
    """-> (set of allowed (code, subcode), may the session legally continue)

    A malformed message of a type that is also unexpected in the state may be answered either on its own
    merits (its error class) or as unexpected for the state (RFC 6608): both name the error class."""
    unexpected = {'OPENSENT': {(5, 1), (5, 0)}, 'OPENCONFIRM': {(5, 2), (5, 0)}, 'ESTABLISHED': {(5, 3), (5, 0)}, 'CONNECT': {(5, 1), (5, 0)}}
    if fault_class in ('header', 'header-type'):
        return own_class(fault_class, fault)
    if fault_class == 'header-type-or-ignored':
        # OPERATIONAL was not negotiated: refusing it as an unknown/unexpected type or ignoring it are all defensible
        return {(1, 3), (1, 0)} | unexpected.get(state, set()), True
    if fault_class.startswith('open-'):
        own, _ = own_class(fault_class, fault)
        if state in ('OPENSENT', 'CONNECT'):
            return own, False
        return own | unexpected[state], True   # an OPEN in a later state: ignoring it is not forbidden by the statement
    if fault_class in UPDATE_SUBCODES or fault_class == 'refresh-length':
        own, cont = own_class(fault_class, fault)
        if state == 'ESTABLISHED':
            return own, cont
        return own | unexpected[state], False
    if fault_class.startswith('unexpected:'):
        what = fault_class.split(':')[1]
        if state == 'ESTABLISHED' and what in ('update', 'keepalive', 'refresh'):
            # (a KEEPALIVE although the hold time is zero is no error RFC 4271 defines: the session goes on)
            return set(), True
        if state == 'OPENCONFIRM' and what == 'keepalive':
            return set(), True
        if state in ('OPENSENT', 'CONNECT') and what == 'open':
            return set(), True
        return unexpected[state], True
    if fault_class == 'notification':
        return set(), False
    if fault_class == 'hold-timer':
        if hold == 0 and state not in ('OPENSENT', 'CONNECT'):
            return set(), True   # (before the OPEN of the peer is read no hold time is negotiated: the open-wait timer runs whatever the configuration)
        if state == 'ESTABLISHED':
            return {(4, 0)}, True
        if state in ('OPENSENT', 'CONNECT'):
            # the wait for the OPEN of the peer is ExaBGP's own open-wait timer: property C12 states its expiry is answered 5/1; 4/0 names a timer too
            return {(4, 0), (5, 1)}, True
        return {(4, 0)}, True
    if fault_class in ('teardown', 'notification+teardown'):
        return {(6, s) for s in range(0, 10)}, True
    if fault_class == 'teardown-or-refused':
        return {(6, s) for s in range(0, 10)}, True   # (the oracle tells a session that goes on from one closed without a word)
    raise core.HarnessError(f'no oracle for {fault_class}')


class Env(c05.Env):
    def __init__(self, w, hold=9, **kw):
        super().__init__(w, hold=hold, **kw)
        self.split_next = False

    def menu(self):
        s = self.current()
        out = []
        if s is not None and s.connected and not s.closed:
            state = self.fsm()
            default = self.default_action().split(':')[0]
            for f, (_, cls) in FAULTS.items():
                if cls in ('teardown', 'teardown-or-refused', 'notification+teardown') and state != 'ESTABLISHED':
                    continue
                # the message the remote would send now anyway is not a fault
                if f.startswith('unexp-open') and default == 'open':
                    continue
                if f == 'unexp-keepalive' and default == 'keepalive':
                    continue
                if cls.startswith('open-') and default != 'open':
                    # a bad OPEN in a later state is just an unexpected OPEN: one representative is enough
                    if f != 'open-version-3':
                        continue
                out.append('fault:' + f)
            out += ['benign:' + b for b in BENIGN]
        return out

    def deviate(self, name, arg):
        w = self.w
        s = self.current()
        if name == 'fault':
            builder, cls = FAULTS[arg]
            if builder is not None:
                data = builder(self.remote(s))
                if self.split_next and len(data) > 20:
                    s.feed(data[:20])
                    w.settle()
                    s.feed(data[20:])
                    self.split_next = False
                else:
                    s.feed(data)
                if cls.startswith('open-') or arg.startswith('unexp-open'):
                    self.sent_open.add(s.index)
            elif cls == 'hold-timer':
                # the remote stays silent: the well-behaved KEEPALIVE sender is switched off from now on
                self.hold_silenced = True
                self.sent_ka.discard(s.index)
                # (while ExaBGP waits for the OPEN of the peer the timer is exabgp.bgp.openwait, 60 s by default, not the hold time)
                w.advance(self.hold + 3.5 if self.fsm() not in ('OPENSENT', 'CONNECT') else 64.0)
            elif cls in ('teardown', 'teardown-or-refused'):
                w.api_write(b'peer * teardown %s\n' % arg.rsplit('-', 1)[1].encode())
            elif cls == 'notification+teardown':
                def feed():
                    # where the peer's NOTIFICATION ends in the byte stream ExaBGP reads from this connection
                    end = s.consumed + sum(len(x) for x in s.rx if isinstance(x, (bytes, bytearray))) + len(CROSS_NOTIF)
                    w.event('mark-notif-end', s.index, end)
                    s.feed(CROSS_NOTIF)
                if arg == 'notif+teardown':
                    feed()
                    w.api_write(b'peer * teardown 2\n')
                else:
                    w.api_write(b'peer * teardown 2\n')
                    if arg == 'teardown-then-notif':
                        w.settle()
                    elif arg == 'teardown-50ms-notif':
                        w.settle()
                        w.advance(0.05)
                    feed()
        elif name == 'benign':
            if arg == 'split-next':
                self.split_next = True
            elif arg == 'api-announce':
                w.api_write(b'peer * announce route 10.7.0.0/24 next-hop 2.2.2.2\n')
            elif arg == 'wait-1s':
                self.pass_time(1.0)
        else:
            super().deviate(name, arg)


STEPS = 12


def run_one(args):
    (steps, hold), choices = args
    variant = hold
    extra = ''
    if isinstance(hold, str):
        # '<hold>-noribin': adj-rib-in off (and no API subscription to received messages): UPDATEs are not decoded at all
        h, _, opt = hold.partition('-')
        hold = int(h)
        extra = {'noribin': 'adj-rib-in false;', 'mirror': ''}[opt]
    cfg = edev.base_config(hold=hold, extra=extra)
    config_name = 'active'
    if isinstance(variant, str) and variant.endswith('-mirror'):
        # local-as auto: the peer's OPEN is read before ours is sent
        cfg = cfg.replace('local-as 65001;', 'local-as auto;')
        config_name = 'mirror'
    summary, tr = edev.run(Env, cfg, choices, steps, env_kwargs=dict(config_name=config_name, hold=hold, script=c05.SCRIPT), world_env={}, tail=1.5)
    summary['hold'] = hold
    summary['variant'] = variant
    viols, outcome = oracle(summary)
    return (viols, outcome, tr.steps), tr.menus


def oracle(sm: dict):
    viols = []
    outcome = []
    socks = {s['index']: s for s in sm['sockets']}
    # generic: nothing is ever written after a NOTIFICATION; at most one NOTIFICATION per connection
    for s in sm['sockets']:
        types = [m[2] for m in s['tx']]
        if wire.NOTIFICATION in types:
            i = types.index(wire.NOTIFICATION)
            if i != len(types) - 1:
                kinds = sorted(set(types[i + 1:]))
                viols.append((f'written-after-notification:{kinds}', f'connection {s["index"]}: message types {types[i + 1:]} written after a NOTIFICATION'))
            if not s['closed'] and s['tx'][i][0] < sm['end'] - 0.5:
                viols.append(('not-closed-after-notification', f'connection {s["index"]} still open after ExaBGP sent a NOTIFICATION'))
    faults = [(st, a, t, idx, fsm) for st, a, t, idx, fsm in sm['injected'] if a.startswith('fault:')]
    for st, a, t, idx, state in faults:
        fault = a.split(':', 1)[1]
        cls = FAULTS[fault][1]
        if idx is None:
            continue
        s = socks[idx]
        after = [m for m in s['tx'] if m[0] >= t]
        # messages written at the same instant but before the injection cannot be told apart by time alone;
        # count NOTIFICATIONs, which are what the oracle is about
        notifs = [(int(m[3][:2], 16), int(m[3][2:4], 16)) for m in after if m[2] == wire.NOTIFICATION and len(m[3]) >= 4]
        allowed_set, may_continue = allowed(cls, state, fault, sm.get('hold', 9))
        ended = s['closed']
        outcome.append((fault, state, tuple(notifs), ended))
        if cls == 'notification+teardown':
            # order of events on that connection: the read that completes the peer's NOTIFICATION vs our own NOTIFICATION
            end_mark = [e[3] for e in sm['events'] if e[1] == 'mark-notif-end' and e[2] == idx]
            cum = 0
            read_at = wrote_at = None
            for pos, e in enumerate(sm['events']):
                if e[1] == 'rx' and e[2] == idx:
                    cum += e[3]
                    if read_at is None and end_mark and cum >= end_mark[0]:
                        read_at = pos
                elif e[1] == 'tx' and e[2] == idx and len(e) > 4 and e[4] == wire.NOTIFICATION and e[0] >= t:
                    wrote_at = pos
            if read_at is not None and wrote_at is not None and wrote_at > read_at:
                viols.append((f'answered-notification:crossing:{notifs[0][0] if notifs else "?"}/{notifs[0][1] if notifs else "?"}',
                              f'{fault}: ExaBGP had read the whole NOTIFICATION of the peer (event {read_at}) and then wrote NOTIFICATION {notifs} (event {wrote_at})'))
            if any(n[0] != 6 for n in notifs):
                viols.append((f'wrong-code:{cls}:{state}:{notifs[0][0]}/{notifs[0][1]}', f'{fault}: NOTIFICATION {notifs} is not a Cease'))
            if len(notifs) > 1:
                viols.append((f'two-notifications:{cls}', f'{fault} in {state}: {len(notifs)} NOTIFICATIONs written: {notifs}'))
            if not ended:
                viols.append((f'not-closed-after-received-notification:{state}', f'{fault} in {state}: connection still open after the peer sent a NOTIFICATION and a teardown was asked'))
            continue
        if cls == 'notification':
            if notifs:
                viols.append((f'answered-notification:{notifs[0][0]}/{notifs[0][1]}', f'{fault} in {state}: a received NOTIFICATION was answered with NOTIFICATION {notifs}'))
            if not ended:
                viols.append((f'not-closed-after-received-notification:{state}', f'{fault} in {state}: connection still open after the peer sent a NOTIFICATION'))
            continue
        if len(notifs) > 1:
            viols.append((f'two-notifications:{cls}', f'{fault} in {state}: {len(notifs)} NOTIFICATIONs written: {notifs}'))
        if notifs:
            if not allowed_set and may_continue:
                viols.append((f'reset-on-valid:{cls}:{state}:{notifs[0][0]}/{notifs[0][1]}', f'{fault} in {state} is legal there but the session was reset with {notifs[0]}'))
            elif notifs[0] not in allowed_set:
                viols.append((f'wrong-code:{cls}:{state}:{notifs[0][0]}/{notifs[0][1]}', f'{fault} in {state}: NOTIFICATION {notifs[0]} but the RFC class allows {sorted(allowed_set)}'))
        else:
            if ended and allowed_set:
                # whether or not the message could have been ignored, a session ExaBGP ends because of it ends with a NOTIFICATION
                viols.append((f'closed-without-notification:{cls}:{state}', f'{fault} in {state}: connection closed without the NOTIFICATION {sorted(allowed_set)}'))
            elif ended and may_continue and not allowed_set:
                viols.append((f'closed-on-valid:{cls}:{state}', f'{fault} in {state} is legal there but the connection was closed'))
    if sm['loop_exceptions']:
        viols.append(('loop-exception', f'unhandled exception in the event loop: {sm["loop_exceptions"][0][:200]}'))
    seen = set()
    out = []
    for sig, what in viols:
        if sig not in seen:
            seen.add(sig)
            out.append((sig, what))
    return out, tuple(outcome)


def run(ctx: core.Ctx) -> None:
    thorough = ctx.tier != 'quick'
    ctx.rule = (f'{len(FAULTS)} fault kinds x every macro step (= session state) of a {STEPS}-step session script, one fault per run'
                + ', plus every run with one earlier benign deviation (split delivery, API command in flight, 1 s wait)' + (' for every configuration, and with two earlier benign deviations for hold time 9' if thorough else ' for hold time 9')
                + '; hold time 9 and 0, hold time 9 with adj-rib-in off, and hold time 9 with local-as auto (the OPEN of the peer is read before ours is sent); non-trivial = distinct (fault, state, notifications, closed) outcome')
    ctx.assumptions += ['state of injection = FSM state of the peer when the fault bytes are queued', 'RFC 7606 attribute errors may legally not reset the session']
    pool = mp.Pool(min(16, os.cpu_count() or 1))
    try:
        for hold in (9, 0, '9-noribin', '9-mirror'):
            def record(choices, res, hold=hold):
                viols, outcome, steps = res
                ctx.count('executions')
                ctx.count('transitions', len(steps))
                nfaults = sum(1 for v in choices.values() if v.startswith('fault:'))
                for o in outcome:
                    ctx.add_to_set('outcomes', (hold,) + o)
                if nfaults > 1:
                    return  # only single-fault runs are judged (the oracle is per fault)
                for sig, what in viols:
                    ctx.violation(sig, f'[hold {hold}] deviations {sorted(choices.items())}: {what}', {'hold': hold, 'choices': {str(k): v for k, v in choices.items()}, 'steps': STEPS})
                if choices and len(ctx.samples) < 5:
                    ctx.sample({'hold': hold, 'deviations': sorted(choices.items()), 'outcome': [list(map(str, o)) for o in outcome]})

            if not thorough and hold != 9:
                n, completed, caps = edev.explore_layers(pool, run_one, (STEPS, hold), 1, record)
            else:
                n, completed, caps = explore_benign_then_fault(pool, (STEPS, hold), record, two=thorough and hold == 9)
            for c in caps:
                ctx.cap(c)
        ctx.counters['states'] = ctx.set_size('outcomes')
        ctx.counters['nontrivial'] = ctx.set_size('outcomes')
        ctx.coverage_extra['replayed_twice'] = edev.REPLAY_STATS['replayed_twice']
        ctx.coverage_extra['divergences'] = edev.REPLAY_STATS['divergences']
    finally:
        pool.close()
        pool.join()


def explore_benign_then_fault(pool, params, record, two=False):
    """All runs with one fault, and all runs with one benign deviation followed by one fault
    (two: also every pair of benign deviations followed by one fault)."""
    total = 0
    res0, menus0 = run_one((params, {}))
    record({}, res0)
    layer1 = []
    for i, (default, menu) in enumerate(menus0):
        for alt in menu:
            layer1.append({i: alt})
    results1 = results = pool.map(run_one, [(params, c) for c in layer1], chunksize=8)
    edev.replay_some(pool, run_one, params, layer1, results)
    layer2 = []
    for c, (res, menus) in zip(layer1, results):
        record(c, res)
        total += 1
        (i, alt), = c.items()
        if alt.startswith('benign:'):
            for j in range(i + 1, len(menus)):
                for alt2 in menus[j][1]:
                    if alt2.startswith('fault:'):
                        c2 = dict(c)
                        c2[j] = alt2
                        layer2.append(c2)
    results = pool.map(run_one, [(params, c) for c in layer2], chunksize=8)
    edev.replay_some(pool, run_one, params, layer2, results)
    for c, (res, menus) in zip(layer2, results):
        record(c, res)
        total += 1
    if not two:
        return total, 2, []
    # benign, benign, fault
    pairs = []
    for c, (res, menus) in zip(layer1, results1):
        (i, alt), = c.items()
        if alt.startswith('benign:'):
            for j in range(i + 1, len(menus)):
                for alt2 in menus[j][1]:
                    if alt2.startswith('benign:'):
                        c2 = dict(c)
                        c2[j] = alt2
                        pairs.append((c2, j))
    res_pairs = pool.map(run_one, [(params, c) for c, _ in pairs], chunksize=8)
    layer3 = []
    for (c, j), (res, menus) in zip(pairs, res_pairs):
        for k in range(j + 1, len(menus)):
            for alt3 in menus[k][1]:
                if alt3.startswith('fault:'):
                    c3 = dict(c)
                    c3[k] = alt3
                    layer3.append(c3)
    results = pool.map(run_one, [(params, c) for c in layer3], chunksize=16)
    for c, (res, menus) in zip(layer3, results):
        record(c, res)
        total += 1
    return total, 3, []


def replay(case):
    choices = {int(k): v for k, v in case['choices'].items()}
    (viols, outcome, steps), menus = run_one(((case.get('steps', STEPS), case['hold']), choices))
    return [{'signature': s, 'what': w} for s, w in viols]
