"""C02 - Reported routes are exactly what the peer sent.   E-in.

Abstract UPDATE (withdrawn, NLRI, MP_REACH, MP_UNREACH, attributes) -> reference encoder (several encodings:
attribute order, extended length, partial bit) -> real Message.unpack(UPDATE) -> real JSON encoder and real
UpdateHandler/Adj-RIB-In -> canonicalised and compared with the abstract UPDATE.
"""

from __future__ import annotations

import ipaddress
import itertools
import json
import multiprocessing as mp
import os

from vt import core, exa
from vt.ref import wire as w
from vt.checks import c01

PROPERTY = 'C02'

FAMNAME = {(1, 1): 'ipv4 unicast', (2, 1): 'ipv6 unicast', (1, 4): 'ipv4 nlri-mpls', (2, 4): 'ipv6 nlri-mpls', (1, 128): 'ipv4 mpls-vpn', (2, 128): 'ipv6 mpls-vpn'}
NAMEFAM = {v: k for k, v in FAMNAME.items()}

SESSIONS = [
    dict(asn4=True, addpath=False),
    dict(asn4=False, addpath=False),
    dict(asn4=True, addpath=True),
    dict(asn4=False, addpath=True),
]
AP_FAMS = [(1, 1), (2, 1), (1, 4), (1, 128)]


def session_objects(s):
    cs = dict(local_as=65001, peer_as=65002, our_asn4=True, peer_asn4=s['asn4'], addpath=s['addpath'], extnh=True, extmsg=False, aigp=True)
    txt = c01.session_text(cs).replace('add-path send;', 'add-path receive;')
    cfg, n = exa.neighbor_from_text(txt)
    addpath = [(a, sa, 2) for a, sa in AP_FAMS] if s['addpath'] else None
    body = exa.peer_open_body(65002, c01.FAMILIES, asn4=s['asn4'], addpath=addpath, ext_nh=[(1, 1, 2), (1, 4, 2), (1, 128, 2)])
    neg = exa.negotiated_for(n, body, direction_out=False)
    return n, neg


# -- abstract pieces ---------------------------------------------------------------------------
def N4(a, m, pid=None):
    return w.nlri_ip(1, 1, a, m, pid)


def N6(a, m, pid=None):
    return w.nlri_ip(2, 1, a, m, pid)


RD0 = w.rd_type0(65000, 1)
RD1 = w.rd_type1('1.2.3.4', 5)


def structures(ap):
    """(withdrawn, nlri, mp_reach, mp_unreach) with mp_reach = (afi, safi, nh, [nlri]) or None."""
    p = (lambda i: i) if ap else (lambda i: None)
    WD = [[], [N4('10.1.0.0', 16, p(1))], [N4('10.1.0.0', 16, p(1)), N4('10.1.2.3', 32, p(2))]]
    NL = [[], [N4('10.2.0.0', 16, p(1))], [N4('10.2.0.0', 16, p(1)), N4('10.3.3.0', 24, p(0))]]
    if ap:
        NL.append([N4('10.2.0.0', 16, 1), N4('10.2.0.0', 16, 2)])  # same prefix, two path ids
    MR = [
        None,
        (2, 1, '2001:db8::1', [N6('2001:db8:1::', 48, p(1))]),
        (2, 1, '2001:db8::1', [N6('2001:db8:1::', 48, p(1)), N6('::', 0, p(7))]),
        (2, 1, '2001:db8::1+fe80::1', [N6('2001:db8:2::', 49, p(1))]),
        (1, 4, '10.0.0.9', [w.nlri_ip(1, 4, '10.4.0.0', 16, p(1), (3,))]),
        (1, 4, '10.0.0.9', [w.nlri_ip(1, 4, '10.4.0.0', 16, p(1), (16, 17))]),
        (1, 128, '10.0.0.9', [w.nlri_ip(1, 128, '10.5.0.0', 16, p(1), (100,), RD0), w.nlri_ip(1, 128, '10.5.0.0', 16, p(1), (100,), RD1)]),
        (1, 1, '2001:db8::9', [N4('10.6.0.0', 16, p(1))]),  # RFC 8950
        # another family behind the very next hop the NLRI field uses (10.0.0.1): two families, one next-hop address
        (1, 4, '10.0.0.1', [w.nlri_ip(1, 4, '10.4.8.0', 24, p(1), (3,))]),
        (1, 128, '10.0.0.1', [w.nlri_ip(1, 128, '10.5.8.0', 24, p(1), (100,), RD0)]),
        (2, 128, '2001:db8::1', [w.nlri_ip(2, 128, '2001:db8:5::', 48, None, (100,), RD0)]),
    ]
    MU = [
        None,
        (2, 1, [N6('2001:db8:9::', 48, p(1))]),
        (2, 1, [N6('2001:db8:9::', 48, p(1)), N6('2001:db8:a::', 48, p(2))]),
        (1, 128, [w.nlri_ip(1, 128, '10.9.0.0', 16, p(1), (3,), RD0)]),
    ]
    for wd, nl, mr, mu in itertools.product(WD, NL, MR, MU):
        if not (wd or nl or mr or mu):
            continue
        yield wd, nl, mr, mu


OPT_ATTRS = {
    w.MED: [0, 2**32 - 1],
    w.LOCAL_PREF: [0, 200],
    w.ATOMIC_AGGREGATE: [True],
    w.AGGREGATOR: [(65010, '10.9.8.7'), (70000, '10.9.8.7')],
    w.COMMUNITIES: [(0x10002,), (0xFFFFFF01, 0, 0xFFFFFFFF, 0x10002)],
    w.ORIGINATOR_ID: ['10.0.0.9'],
    w.CLUSTER_LIST: [('10.0.0.1',), ('10.0.0.1', '10.0.0.2')],
    w.EXT_COMMUNITIES: [('0002fde800000001',), ('0102010203040005', '0002fde800000001'), ('4300000000000000',)],
    w.LARGE_COMMUNITIES: [((1, 2, 3),), ((4294967295, 0, 1), (1, 2, 3))],
    w.AIGP: [0, 2**64 - 1],
    0x99: ['0102'],          # unknown optional transitive
    0x9A: ['aabbcc'],        # unknown optional non-transitive (flags 0x80): not relayed
}
PATHS = [
    ((2, (65002,)),),
    (),
    ((2, (65002, 65003, 65004)),),
    ((2, (65002,)), (1, (65010, 65011))),
    ((1, (65010, 65011)), (2, (65002,))),
    ((3, (65100,)), (2, (65002,))),
    ((2, tuple(range(64512, 64512 + 300))),),
]
PATHS4 = PATHS + [((2, (65002, 70000)),), ((2, (4200000000,)), (1, (70000, 65010)))]

# AS_PATH / AS4_PATH pairs for 2-byte sessions (RFC 6793 4.2.3)
AS4_CASES = [
    (((2, (65002, 23456)),), ((2, (70000,)),)),
    (((2, (65002, 23456, 65003)),), ((2, (70000, 65003)),)),
    (((2, (23456, 23456)),), ((2, (70000, 70001)),)),
    (((2, (65002,)),), ((2, (70000, 70001)),)),                      # AS4_PATH longer: ignored
    (((2, (65002, 23456)), (1, (65010, 65011))), ((2, (70000,)), (1, (65010, 65011)))),
    (((3, (65100,)), (2, (65002, 23456))), ((2, (70000,)),)),
    (((2, (65002, 23456)),), ((2, (65002, 70000)),)),                 # equal length
    (((2, (65002, 65003, 23456)),), ((2, (70000,)),)),
    (((2, (65002,)), (1, (65010, 65011)), (2, (23456,))), ((2, (65002,)), (1, (65010, 65011)), (2, (70000,)))),   # SEQ SET SEQ
    (((2, (65002, 65003)), (1, (23456, 65010))), ((1, (70000, 65010)),)),                                       # AS4_PATH holds only a SET
    (((2, (65002, 23456)),), ((3, (65100,)), (2, (70000,)))),                                                    # confed segment inside AS4_PATH: discarded
    (((2, (23456,)),), ((2, (70000,)),)),
]


def generated_as4_cases():
    """Systematic AS_PATH / AS4_PATH pairs: a true path T of <= 3 segments (SEQUENCE or SET, 1-2 AS numbers each) with one
    AS number above 65535, as a NEW speaker sends it to an OLD one (AS_TRANS in AS_PATH; AS4_PATH = T, or T from the
    segment holding the large AS), optionally prepended by OLD speakers on the way (to AS_PATH only)."""
    small = [64601, 64602, 64603, 64604, 64605, 64606]
    prepends = [(), ((2, (64510,)),), ((2, (64510, 64511)),), ((2, (64510,)), (1, (64512, 64513)), (2, (64514,))), ((1, (64512, 64513)),)]
    out = []
    for n in (1, 2, 3):
        for types in itertools.product((2, 1), repeat=n):
            for sizes in itertools.product((1, 2), repeat=n):
                total = sum(sizes)
                for big in range(total):
                    segs, k = [], 0
                    for t, sz in zip(types, sizes):
                        asns = []
                        for _ in range(sz):
                            asns.append(70000 + k if k == big else small[k])
                            k += 1
                        segs.append((t, tuple(asns)))
                    T = tuple(segs)
                    as2 = tuple((t, tuple(w.AS_TRANS if a > 65535 else a for a in asns)) for t, asns in T)
                    first_big = [i for i, (t, asns) in enumerate(T) if any(a > 65535 for a in asns)][0]
                    for pre in prepends:
                        for as4 in (T, T[first_big:]):
                            path2 = w.merge_segments(pre + as2) if pre and pre[-1][0] == 2 and as2[0][0] == 2 else pre + as2
                            out.append((tuple(path2), as4))
    # de-duplicate, keep order
    seen, res = set(), []
    for c in out:
        if c not in seen:
            seen.add(c)
            res.append(c)
    return res


def attr_maps(k):
    yield {}
    keys = list(OPT_ATTRS)
    for n in range(1, k + 1):
        for ks in itertools.combinations(keys, n):
            for vals in itertools.product(*[OPT_ATTRS[x] for x in ks]):
                yield dict(zip(ks, vals))


# -- encoding ------------------------------------------------------------------------------------
def encode(case, asn4, ap):
    wd, nl, mr, mu = case['struct']
    attrs = []
    amap = case['attrs']
    need_base = bool(nl or mr)
    tlvs = {}
    if need_base:
        tlvs[w.ORIGIN] = w.encode_attr_value(w.ORIGIN, case['origin'], asn4)
        tlvs[w.AS_PATH] = w.encode_as_path(case['path'], asn4)
        if case.get('path4') is not None:
            tlvs[w.AS4_PATH] = w.encode_as_path(case['path4'], True)
    if nl:
        tlvs[w.NEXT_HOP] = w.encode_attr_value(w.NEXT_HOP, '10.0.0.1', asn4)
    for code, v in amap.items():
        if code == w.AGGREGATOR and not asn4 and v[0] > 65535:
            # RFC 6793: a NEW speaker sends AS_TRANS in AGGREGATOR plus AS4_AGGREGATOR to an OLD speaker
            tlvs[w.AGGREGATOR] = w.encode_attr_value(w.AGGREGATOR, (w.AS_TRANS, v[1]), False)
            tlvs[w.AS4_AGGREGATOR] = w.encode_attr_value(w.AS4_AGGREGATOR, v, True)
            continue
        tlvs[code] = w.encode_attr_value(code, v, asn4)
    if mr:
        afi, safi, nh, nlris = mr
        tlvs[w.MP_REACH] = w.encode_mp_reach(afi, safi, nh, nlris, (afi, safi) in ap)
    if mu:
        afi, safi, nlris = mu
        tlvs[w.MP_UNREACH] = w.encode_mp_unreach(afi, safi, nlris, (afi, safi) in ap)
    order = sorted(tlvs)
    rot = case.get('rot', 0)
    perm = case.get('perm')
    if perm is not None:
        order = [order[i] for i in perm] + order[len(perm):]
    elif rot:
        order = order[rot % len(order):] + order[:rot % len(order)]
    for code in order:
        flags = w.CANON_FLAGS.get(code, 0xC0)
        if code == 0x9A:
            flags = w.F_OPTIONAL
        if case.get('partial') and flags & w.F_OPTIONAL and flags & w.F_TRANSITIVE:
            flags |= w.F_PARTIAL
        attrs.append(w.encode_attr(code, tlvs[code], flags=flags, extended=True if case.get('extlen') else None))
    return w.encode_update(withdrawn=wd, attrs=attrs, nlri=nl, addpath_v4=(1, 1) in ap)


# -- expectation ---------------------------------------------------------------------------------
def expected(case, asn4):
    wd, nl, mr, mu = case['struct']
    ann = {}
    for n in nl:
        ann[w.nlri_key(n)] = ('10.0.0.1', n[3])
    if mr:
        afi, safi, nh, nlris = mr
        for n in nlris:
            ann[w.nlri_key(n)] = (nh.split('+')[0], n[3])
    wds = set(w.nlri_key(n) for n in wd)
    if mu:
        for n in mu[2]:
            wds.add(w.nlri_key(n))
    attrs = {}
    if nl or mr:
        attrs['origin'] = case['origin']
        paths = {w.merge_as4(case['path'], case.get('path4'), 'length'), w.merge_as4(case['path'], case.get('path4'), 'asn')} if not asn4 else {w.merge_segments(case['path'])}
        attrs['path'] = paths
    for code, v in case['attrs'].items():
        if code == 0x9A:
            continue  # unrecognised optional non-transitive: not relayed
        attrs[code] = v
    return ann, wds, attrs


# -- canonicalising what ExaBGP reports ----------------------------------------------------------
def canon_nlri(fam, j):
    afi, safi = NAMEFAM[fam]
    net = ipaddress.ip_network(j['nlri'], strict=False)
    pid = None
    if 'path-information' in j:
        pid = int(ipaddress.ip_address(j['path-information']))
    labels = None
    if 'label' in j:
        labels = tuple(x[0] for x in j['label'])
    rd = None
    if 'rd' in j:
        a, b = j['rd'].rsplit(':', 1)
        if '.' in a:
            rd = w.rd_type1(a, int(b))
        elif int(a) > 65535:
            rd = w.rd_type2(int(a), int(b))
        else:
            rd = w.rd_type0(int(a), int(b))
    n = w.nlri_ip(afi, safi, str(net.network_address), net.prefixlen, pid, labels, rd)
    return w.nlri_key(n), labels


def canon_json(msg):
    upd = msg.get('update', {})
    ann, wds, attrs = {}, set(), {}
    dup = []
    for fam, per_nh in upd.get('announce', {}).items():
        for nh, lst in per_nh.items():
            for j in lst:
                k, labels = canon_nlri(fam, j)
                if k in ann:
                    dup.append(k)
                ann[k] = (nh, labels)
    for fam, lst in upd.get('withdraw', {}).items():
        for j in lst:
            k, _ = canon_nlri(fam, j)
            wds.add(k)
    a = upd.get('attribute', {})
    for key, v in a.items():
        if key == 'origin':
            attrs['origin'] = {'igp': 0, 'egp': 1, 'incomplete': 2}[v]
        elif key == 'as-path':
            segs = []
            for i in sorted(v, key=int):
                t = {'as-set': 1, 'as-sequence': 2, 'as-confed-sequence': 3, 'confed-sequence': 3, 'as-confed-set': 4, 'confed-set': 4}[v[i]['element']]
                segs.append((t, tuple(v[i]['value'])))
            attrs['path'] = w.merge_segments(tuple(segs))
        elif key == 'next-hop':
            attrs['next-hop'] = v
        elif key == 'med':
            attrs[w.MED] = v
        elif key == 'local-preference':
            attrs[w.LOCAL_PREF] = v
        elif key == 'atomic-aggregate':
            attrs[w.ATOMIC_AGGREGATE] = bool(v)
        elif key == 'aggregator':
            asn, ip = v.split(':')
            attrs[w.AGGREGATOR] = (int(asn), ip)
        elif key == 'community':
            attrs[w.COMMUNITIES] = tuple((hi << 16) | lo for hi, lo in v)
        elif key == 'originator-id':
            attrs[w.ORIGINATOR_ID] = v
        elif key == 'cluster-list':
            attrs[w.CLUSTER_LIST] = tuple(v)
        elif key == 'extended-community':
            attrs[w.EXT_COMMUNITIES] = tuple('%016x' % x['value'] for x in v)
        elif key == 'large-community':
            attrs[w.LARGE_COMMUNITIES] = tuple(tuple(x) for x in v)
        elif key == 'aigp':
            attrs[w.AIGP] = int(v, 16) if isinstance(v, str) else int(v)
        elif key.startswith('attribute-'):
            code = int(key.split('-')[1], 16)
            attrs[code] = v[2:] if isinstance(v, str) and v.startswith('0x') else v
        else:
            attrs['other:' + key] = v
    return ann, wds, attrs, dup


class _Ctx:
    pass


def observe(neighbor, neg, enc, body, preload=None, repeat=False):
    """real decode -> (json message dict, Adj-RIB-In content)
    repeat: the peer sends the same UPDATE twice in a row (a route-refresh answer, a re-advertisement); the caches
    are left as the daemon would have them and what is observed is the report and the table after the second copy"""
    from exabgp.bgp.message import Message
    from exabgp.bgp.message.update.attribute.collection import AttributeCollection
    from exabgp.reactor.peer.handlers.update import UpdateHandler
    from exabgp.rib.incoming import IncomingRIB

    # decode in a clean cache state: history independence is C19's subject
    if hasattr(AttributeCollection, 'cached'):
        AttributeCollection.cached = None
    rib = IncomingRIB(True, neighbor.rib.incoming.families)
    neighbor.rib.incoming = rib
    ctx = _Ctx()
    ctx.neighbor = neighbor
    ctx.negotiated = neg
    ctx.stats = {'receive-prefixes': 0, 'receive-withdraws': 0}
    ctx.peer_id = 'verif'
    handler = UpdateHandler()
    for b in (preload or []):
        m = Message.unpack(w.UPDATE, b, neg)
        if not m.IS_EOR:
            for _ in handler.handle(ctx, m):
                pass
    if hasattr(AttributeCollection, 'cached') and not repeat:
        AttributeCollection.cached = None
    if repeat:
        first = Message.unpack(w.UPDATE, body, neg)
        if not first.IS_EOR:
            enc.update(neighbor, 'receive', first.data, b'', b'', neg)
            for _ in handler.handle(ctx, first):
                pass
    m = Message.unpack(w.UPDATE, body, neg)
    coll = m if m.IS_EOR else m.data
    js = enc.update(neighbor, 'receive', coll, b'', b'', neg)
    msg = json.loads(js)['neighbor']['message']
    # the peer loop hands every message of type UPDATE to the handler, End-of-RIB markers included (both entry points)
    for _ in handler.handle(ctx, m):
        pass
    if m.IS_EOR:
        import asyncio

        asyncio.new_event_loop().run_until_complete(handler.handle_async(ctx, m))
    table = {}
    for r in rib.cached_routes():
        j = json.loads(r.nlri.json()) if r.nlri.json().lstrip().startswith('{') else json.loads('{' + r.nlri.json() + '}')
        fam = FAMNAME[(int(r.nlri.afi), int(r.nlri.safi))]
        k, labels = canon_nlri(fam, j)
        table[k] = str(r.nexthop)
    return msg, table, bool(m.IS_EOR)


def compare(case, s, msg, table, is_eor, preloaded):
    viols = []
    ann, wds, attrs = expected(case, s['asn4'])
    if is_eor or 'eor' in msg:
        viols.append(('update-reported-as-eor', f'a well-formed UPDATE carrying routes/attributes was reported as End-of-RIB: {msg}'))
        return viols
    try:
        gann, gwds, gattrs, dup = canon_json(msg)
    except Exception as e:  # noqa: BLE001
        return [(f'json-uncanonical:{type(e).__name__}', f'cannot interpret the JSON event: {e}: {str(msg)[:300]}')]
    if dup:
        viols.append(('announce-duplicated', f'{dup} listed twice'))
    for k, (nh, labels) in ann.items():
        if k not in gann:
            viols.append((f'announce-dropped:{k[0]}/{k[1]}', f'announced {k} missing from the JSON event (has {sorted(gann)})'))
        else:
            gnh, glabels = gann[k]
            if ipaddress.ip_address(gnh) != ipaddress.ip_address(nh):
                viols.append((f'nexthop-wrong:{k[0]}/{k[1]}', f'{k}: next hop {gnh} reported, {nh} sent'))
            if labels is not None and glabels != labels:
                viols.append((f'labels-wrong:{k[0]}/{k[1]}', f'{k}: labels {glabels} reported, {labels} sent'))
    for k in gann:
        if k not in ann:
            viols.append((f'announce-invented:{k[0]}/{k[1]}', f'{k} reported as announced but not in the UPDATE'))
    for k in wds - gwds:
        viols.append((f'withdraw-dropped:{k[0]}/{k[1]}', f'withdrawn {k} missing from the JSON event'))
    for k in gwds - wds:
        viols.append((f'withdraw-invented:{k[0]}/{k[1]}', f'{k} reported as withdrawn but not in the UPDATE'))
    # attributes
    gattrs.pop('next-hop', None)
    if 'path' in attrs:
        gattrs.setdefault('path', ())  # an empty AS_PATH may simply be left out of the JSON
        if gattrs.get('path') not in attrs['path']:
            kind = 'as4-merge' if case.get('path4') is not None else 'as-path'
            viols.append((f'attr:{kind}', f'AS path reported {gattrs.get("path")} expected one of {sorted(attrs["path"])} (AS_PATH {case["path"]} AS4_PATH {case.get("path4")})'))
        if gattrs.get('origin') != attrs['origin']:
            viols.append(('attr:origin', f'origin {gattrs.get("origin")} != {attrs["origin"]}'))
    gattrs.pop('path', None)
    gattrs.pop('origin', None)
    for code, v in attrs.items():
        if code in ('path', 'origin'):
            continue
        g = gattrs.pop(code, None)
        if code in (w.COMMUNITIES, w.EXT_COMMUNITIES, w.LARGE_COMMUNITIES):
            ok = g is not None and sorted(g) == sorted(v)
        elif code == w.AGGREGATOR:
            ok = g is not None and tuple(g) == tuple(v)
        else:
            ok = g == v
        if not ok:
            viols.append((f'attr:{code}', f'attribute {code}: reported {g} sent {v}'))
    for code in gattrs:
        if code == 0x9A:
            continue
        viols.append((f'attr-invented:{code}', f'attribute {code} reported but not sent: {gattrs[code]}'))
    # Adj-RIB-In
    want = dict(preloaded)
    for k in wds:
        want.pop(k, None)
    for k, (nh, _) in ann.items():
        want[k] = nh
    for k in set(want) | set(table):
        if k not in table:
            viols.append((f'rib-in-missing:{k[0]}/{k[1]}', f'{k} not in Adj-RIB-In after the UPDATE'))
        elif k not in want:
            viols.append((f'rib-in-stale:{k[0]}/{k[1]}', f'{k} still/newly in Adj-RIB-In but not expected'))
        elif ipaddress.ip_address(table[k]) != ipaddress.ip_address(want[k]):
            viols.append((f'rib-in-nexthop:{k[0]}/{k[1]}', f'{k}: Adj-RIB-In next hop {table[k]} expected {want[k]}'))
    return viols


# -- enumeration -----------------------------------------------------------------------------------
def cases(tier, s):
    ap = set(AP_FAMS) if s['addpath'] else set()
    structs = list(structures(bool(ap)))
    kcore = 2 if tier == 'quick' else 3
    core_structs = [st for st in structs if (len(st[0]), len(st[1]), st[2] is not None and st[2][1], st[3] is not None) in
                    ((1, 1, False, False), (0, 0, 1, True), (0, 1, 128, False))][:4]
    base = dict(origin=0, path=PATHS[0], path4=None, attrs={}, rot=0, extlen=False, partial=False)
    for st in structs:
        yield dict(base, struct=st)
        for am in attr_maps(1):
            if am:
                yield dict(base, struct=st, attrs=am)
    paths = PATHS4 if s['asn4'] else PATHS
    if tier != 'quick':
        # thorough: every pair of optional attributes on every structure (quick: on the core structures only)
        for st in structs:
            if st in core_structs:
                continue
            for am in attr_maps(2):
                if len(am) == 2:
                    yield dict(base, struct=st, attrs=am)
    for st in core_structs:
        for am in attr_maps(kcore):
            if len(am) >= 2:
                yield dict(base, struct=st, attrs=am)
        for p in paths:
            for origin in (0, 1, 2):
                yield dict(base, struct=st, path=p, origin=origin)
        if not s['asn4']:
            for p2, p4 in AS4_CASES:
                yield dict(base, struct=st, path=p2, path4=p4)
                yield dict(base, struct=st, path=p2, path4=p4, attrs={w.MED: 0}, rot=2)
            if st is core_structs[0] or tier != 'quick':
                for p2, p4 in generated_as4_cases():
                    yield dict(base, struct=st, path=p2, path4=p4)
        # encodings: every order of the first 3 attributes, rotations, extended length, partial bit
        full = {w.MED: 0, w.COMMUNITIES: (0x10002,), 0x99: '0102', w.AGGREGATOR: (65010, '10.9.8.7')}
        for perm in itertools.permutations(range(3)):
            for extlen in (False, True):
                yield dict(base, struct=st, attrs=full, perm=perm, extlen=extlen)
        for rot in range(1, 8):
            for partial in (False, True):
                yield dict(base, struct=st, attrs=full, rot=rot, partial=partial, extlen=bool(rot % 2))


def eor_cases():
    out = [('eor-ipv4', bytes(4), (1, 1))]
    for afi, safi in [(2, 1), (1, 4), (1, 128), (2, 128)]:
        out.append((f'eor-{afi}-{safi}', w.encode_update(attrs=[w.encode_attr(w.MP_UNREACH, w.encode_mp_unreach(afi, safi, [], False))]), (afi, safi)))
        out.append((f'eor-{afi}-{safi}-extlen', w.encode_update(attrs=[w.encode_attr(w.MP_UNREACH, w.encode_mp_unreach(afi, safi, [], False), extended=True)]), (afi, safi)))
    return out


def near_eor_cases():
    """Well-formed UPDATEs that carry no route but are not End-of-RIB markers (RFC 4724 2: only the two exact forms are)."""
    base = [w.encode_attr(w.ORIGIN, b'\x00'), w.encode_attr(w.AS_PATH, w.encode_as_path([(2, [65002])], True))]
    return [
        ('attributes-only', w.encode_update(attrs=base)),
        ('unknown-nontransitive-only', w.encode_update(attrs=[w.encode_attr(0x9A, b'\xaa', flags=w.F_OPTIONAL)])),
        ('mp-unreach-empty-plus-attribute', w.encode_update(attrs=[w.encode_attr(w.MED, bytes(4)), w.encode_attr(w.MP_UNREACH, w.encode_mp_unreach(2, 1, [], False))])),
    ]


_W = {}


def worker(args):
    tier, sidx, shard, nshards = args
    from exabgp.reactor.api.response import Response
    from exabgp.version import json as json_version

    s = SESSIONS[sidx]
    if sidx not in _W:
        exa.reset_process_state()
        _W[sidx] = session_objects(s) + (Response.JSON(json_version),)
    n, neg, enc = _W[sidx]
    ap = set(AP_FAMS) if s['addpath'] else set()
    res = {'exec': 0, 'nontrivial': 0, 'viol': {}, 'outcomes': set(), 'samples': []}
    pid = (lambda i: i) if ap else (lambda i: None)
    pre_nl = [N4('10.1.0.0', 16, pid(1)), N4('10.1.2.3', 32, pid(2)), N4('10.77.0.0', 16, pid(1))]
    pre_body = encode(dict(struct=([], pre_nl, (2, 1, '2001:db8::7', [N6('2001:db8:9::', 48, pid(1)), N6('2001:db8:a::', 48, pid(2))]), None), origin=0, path=PATHS[0], attrs={}), s['asn4'], ap)
    preloaded = {w.nlri_key(x): '10.0.0.1' for x in pre_nl}
    preloaded[w.nlri_key(N6('2001:db8:9::', 48, pid(1)))] = '2001:db8::7'
    preloaded[w.nlri_key(N6('2001:db8:a::', 48, pid(2)))] = '2001:db8::7'
    for i, case in enumerate(cases(tier, s)):
        if i % nshards != shard:
            continue
        body = encode(case, s['asn4'], ap)
        # reference self-check: the strict reference decoder must agree with the abstract value
        try:
            ref = w.decode_update(body, s['asn4'], ap)
        except w.RefError as e:
            raise core.HarnessError(f'reference encoder produced bytes its own decoder refuses: {e} case {case}')
        res['exec'] += 1
        if case['attrs'] or case.get('path4'):
            res['nontrivial'] += 1
        try:
            msg, table, is_eor = observe(n, neg, enc, body, preload=[pre_body])
            viols = compare(case, s, msg, table, is_eor, preloaded)
        except Exception as e:  # noqa: BLE001
            viols = [(f'exception:{type(e).__name__}', f'{type(e).__name__}: {str(e)[:200]}')]
        # the same UPDATE sent twice in a row on the session: the second copy must be reported and stored like the first
        res['exec'] += 1
        try:
            msg2, table2, is_eor2 = observe(n, neg, enc, body, preload=[pre_body], repeat=True)
            viols += [('repeated:' + sig, what + ' [second of two identical UPDATEs in a row]') for sig, what in compare(case, s, msg2, table2, is_eor2, preloaded)]
        except Exception as e:  # noqa: BLE001
            viols += [(f'repeated:exception:{type(e).__name__}', f'{type(e).__name__}: {str(e)[:200]}')]
        res['outcomes'].add((sidx, len(case['struct'][0]), len(case['struct'][1]), case['struct'][2] is not None and case['struct'][2][:2], case['struct'][3] is not None, tuple(sorted(case['attrs'])), bool(viols)))
        for sig, what in viols:
            v = res['viol'].get(sig)
            cj = {'session': sidx, 'case': _jsonable(case)}
            if v is None or len(json.dumps(cj)) < len(json.dumps(v[1])):
                res['viol'][sig] = (what, cj, (v[2] if v else 0) + 1)
            else:
                res['viol'][sig] = (v[0], v[1], v[2] + 1)
        if shard == 0 and len(res['samples']) < 1 and case['attrs']:
            res['samples'].append({'session': s, 'body_hex': body.hex()[:400], 'json': str(msg)[:300]})
    if shard == 0:
        for name, body, fam in eor_cases():
            res['exec'] += 1
            try:
                msg, table, is_eor = observe(n, neg, enc, body)
                got = msg.get('eor')
                ok = is_eor and got is not None and NAMEFAM.get(f'{got.get("afi")} {got.get("safi")}') == fam
                if not ok:
                    res['viol'][f'eor:{name}'] = (f'EOR for {fam} reported as {msg}', {'session': sidx, 'eor': name}, 1)
            except Exception as e:  # noqa: BLE001
                res['viol'][f'eor-exception:{type(e).__name__}'] = (f'{name}: {e}', {'session': sidx, 'eor': name}, 1)
        if s['asn4']:
            for name, body in near_eor_cases():
                res['exec'] += 1
                try:
                    msg, table, is_eor = observe(n, neg, enc, body)
                    if is_eor or 'eor' in msg:
                        res['viol'][f'near-eor-reported-as-eor:{name}'] = (f'UPDATE {body.hex()} ({name}) is not an End-of-RIB marker but was reported as {msg}', {'session': sidx, 'near_eor': name}, 1)
                except Exception as e:  # noqa: BLE001
                    res['viol'][f'near-eor-exception:{name}:{type(e).__name__}'] = (f'{name}: {type(e).__name__}: {e}', {'session': sidx, 'near_eor': name}, 1)
    res['outcomes'] = list(res['outcomes'])
    return res


def _jsonable(case):
    wd, nl, mr, mu = case['struct']
    d = dict(case)
    d['struct'] = [list(map(list, wd)), list(map(list, nl)), None if mr is None else [mr[0], mr[1], mr[2], list(map(list, mr[3]))], None if mu is None else [mu[0], mu[1], list(map(list, mu[2]))]]
    d['attrs'] = [[k, v] for k, v in case['attrs'].items()]
    return d


def _tuplify(x):
    if isinstance(x, list):
        return tuple(_tuplify(i) for i in x)
    return x


def _from_json(d):
    case = dict(d)
    wd, nl, mr, mu = d['struct']
    tn = lambda n: tuple(tuple(x) if isinstance(x, list) else x for x in n)  # noqa: E731
    case['struct'] = ([tn(n) for n in wd], [tn(n) for n in nl], None if mr is None else (mr[0], mr[1], mr[2], [tn(n) for n in mr[3]]), None if mu is None else (mu[0], mu[1], [tn(n) for n in mu[2]]))
    case['attrs'] = {k: _tuplify(v) if not isinstance(v, (str, int, bool)) else v for k, v in d['attrs']}
    case['path'] = _tuplify(d['path'])
    case['path4'] = _tuplify(d['path4']) if d.get('path4') is not None else None
    if d.get('perm') is not None:
        case['perm'] = tuple(d['perm'])
    return case


def run(ctx: core.Ctx) -> None:
    ctx.rule = ('4 sessions (ASN4 on/off x ADD-PATH receive on/off) x every UPDATE structure (withdrawn 0-2 x NLRI 0-2 (+ same prefix, two path ids) x MP_REACH {none, v6 nh16 x1/x2, v6 nh32, labeled 1 and 2 labels, vpnv4 two RDs, v4-over-v6, vpnv6} x MP_UNREACH {none, v6 x1/x2, vpnv4}) '
                'x {no optional attribute, each single optional attribute value}; for 3-4 core structures additionally every pair (thorough: triple) of optional attributes, every AS path shape x ORIGIN, every AS_PATH/AS4_PATH pair, every order of 3 attributes, rotations, extended length, partial bit; all EOR forms; '
                'non-trivial = at least one optional attribute or an AS4_PATH')
    ctx.assumptions += ['abstract UPDATE == vt/ref/wire.decode_update(bytes) (asserted)', 'JSON spelling canonicalised: number vs string, key order, next-hop grouping', 'link-local part of a 32-byte next hop may be omitted']
    pool = mp.Pool(min(16, os.cpu_count() or 1))
    outcomes = set()
    nshards = 16
    try:
        jobs = [(ctx.tier, si, sh, nshards) for si in range(len(SESSIONS)) for sh in range(nshards)]
        for res in pool.imap_unordered(worker, jobs):
            ctx.count('executions', res['exec'])
            ctx.count('nontrivial', res['nontrivial'])
            outcomes.update(res['outcomes'])
            for smp in res['samples']:
                ctx.sample(smp)
            for sig, (what, case, n) in res['viol'].items():
                ctx.violation(sig, what, case)
                ctx.viol[sig]['count'] += n - 1
    finally:
        pool.close()
        pool.join()
    ctx.counters['states'] = len(outcomes)
    ctx.counters['transitions'] = ctx.counters.get('executions', 0)


def replay(case):
    from exabgp.reactor.api.response import Response
    from exabgp.version import json as json_version

    sidx = case['session']
    s = SESSIONS[sidx]
    exa.reset_process_state()
    n, neg = session_objects(s)
    enc = Response.JSON(json_version)
    ap = set(AP_FAMS) if s['addpath'] else set()
    if 'eor' in case:
        for name, body, fam in eor_cases():
            if name == case['eor']:
                try:
                    msg, table, is_eor = observe(n, neg, enc, body)
                except Exception as e:  # noqa: BLE001
                    return [{'signature': f'eor-exception:{type(e).__name__}', 'what': f'{name}: {e}'}]
                got = msg.get('eor')
                ok = is_eor and got is not None and NAMEFAM.get(f'{got.get("afi")} {got.get("safi")}') == fam
                return [] if ok else [{'signature': f'eor:{name}', 'what': str(msg)}]
        return []
    if 'near_eor' in case:
        for name, body in near_eor_cases():
            if name == case['near_eor']:
                try:
                    msg, table, is_eor = observe(n, neg, enc, body)
                    if is_eor or 'eor' in msg:
                        return [{'signature': f'near-eor-reported-as-eor:{name}', 'what': str(msg)}]
                except Exception as e:  # noqa: BLE001
                    return [{'signature': f'near-eor-exception:{name}:{type(e).__name__}', 'what': str(e)}]
        return []
    c = _from_json(case['case'])
    pid = (lambda i: i) if ap else (lambda i: None)
    pre_nl = [N4('10.1.0.0', 16, pid(1)), N4('10.1.2.3', 32, pid(2)), N4('10.77.0.0', 16, pid(1))]
    pre_body = encode(dict(struct=([], pre_nl, (2, 1, '2001:db8::7', [N6('2001:db8:9::', 48, pid(1)), N6('2001:db8:a::', 48, pid(2))]), None), origin=0, path=PATHS[0], attrs={}), s['asn4'], ap)
    preloaded = {w.nlri_key(x): '10.0.0.1' for x in pre_nl}
    preloaded[w.nlri_key(N6('2001:db8:9::', 48, pid(1)))] = '2001:db8::7'
    preloaded[w.nlri_key(N6('2001:db8:a::', 48, pid(2)))] = '2001:db8::7'
    body = encode(c, s['asn4'], ap)
    try:
        msg, table, is_eor = observe(n, neg, enc, body, preload=[pre_body])
        viols = compare(c, s, msg, table, is_eor, preloaded)
    except Exception as e:  # noqa: BLE001
        viols = [(f'exception:{type(e).__name__}', f'{type(e).__name__}: {str(e)[:200]}')]
    try:
        msg2, table2, is_eor2 = observe(n, neg, enc, body, preload=[pre_body], repeat=True)
        viols += [('repeated:' + sig, what) for sig, what in compare(c, s, msg2, table2, is_eor2, preloaded)]
    except Exception as e:  # noqa: BLE001
        viols += [(f'repeated:exception:{type(e).__name__}', f'{type(e).__name__}: {str(e)[:200]}')]
    return [{'signature': a, 'what': b} for a, b in viols]
