"""C18 - Route text is accepted if and only if it can be sent.   E-in.

Bounded exhaustive input enumeration: a valid base definition per grammar (static route, `attributes`, flow, vpls,
`announce ipv4/ipv6 <safi>`), every single deviation from it (a keyword given a value at / beyond each numeric and
length boundary, a missing value, a keyword twice, an unknown keyword, unbalanced brackets, stray terminators) and every
pair of deviations on different keywords, offered through

  api     API.api_route / api_attributes / api_flow / api_vpls / api_announce_v4 / api_announce_v6 called as the
          announce_* callbacks call them (ValueError / IndexError are what those callbacks answer `error` for)
  cb      the real API.process -> dispatch -> announce_* callback with a stub reactor (reply observed)
  config  a full neighbor configuration file holding the definition, through Configuration.reload()

Every accepted definition is encoded by the real OutgoingRIB / UpdateCollection.messages under 16 negotiated sessions
and decoded by the reference decoder; the decoded values are compared with the values computed here from the text.

The tables are in c18_tables.py, the machinery in c18_engine.py (same directory); this module is the entry point.
"""

from __future__ import annotations

from vt.checks.c18_engine import run, replay  # noqa: F401

PROPERTY = 'C18'
