"""C17 - Configuration reload applies the difference, or nothing at all.   E-seq over config pairs x E-dev.

Full virtual world; reload goes through the real path (Signal.RELOAD -> Reactor.reload -> Configuration.reload ->
Peer.reconfigure/reestablish/remove -> Peer._main -> OutgoingRIB.replace_reload).
"""

from __future__ import annotations

import itertools
import multiprocessing as mp
import os

from vt import core
from vt.ref import wire as w
from vt.world import World, edev
from vt.checks import c05

PROPERTY = 'C17'

A = {None: None, 'x': 'route 10.0.0.0/24 next-hop 1.1.1.1 med 10;', 'y': 'route 10.0.0.0/24 next-hop 1.1.1.1 med 20;', 'z': 'route 10.0.0.0/24 next-hop 2.2.2.2 med 10;'}
B = {None: None, 'x': 'route 10.0.1.0/24 next-hop 1.1.1.1 med 10;', 'y': 'route 10.0.1.0/24 next-hop 1.1.1.1 med 20;'}
C6 = {None: None, 'x': 'route 2001:db8:1::/48 next-hop 2001:db8::1 med 10;'}
VAL = {('A', 'x'): ('1.1.1.1', 10), ('A', 'y'): ('1.1.1.1', 20), ('A', 'z'): ('2.2.2.2', 10), ('B', 'x'): ('1.1.1.1', 10), ('B', 'y'): ('1.1.1.1', 20), ('C', 'x'): ('2001:db8::1', 10)}
KEY = {'A': w.nlri_key(w.nlri_ip(1, 1, '10.0.0.0', 24)), 'B': w.nlri_key(w.nlri_ip(1, 1, '10.0.1.0', 24)), 'C': w.nlri_key(w.nlri_ip(2, 1, '2001:db8:1::', 48)),
       'D': w.nlri_key(w.nlri_ip(1, 1, '10.9.0.0', 24))}

CFG = """
process api { run /bin/cat; encoder json; }
neighbor 127.0.0.2 {
  router-id 1.2.3.4;
  local-address 127.0.0.1;
  local-as 65001;
  peer-as 65002;
  hold-time %(hold)d;
  %(ribopts)s
  api { processes [ api ]; neighbor-changes; }
  family { ipv4 unicast; ipv6 unicast; }
  static {
%(routes)s
  }
}
%(extra)s
"""
SECOND = """
neighbor 127.0.0.3 {
  router-id 1.2.3.4;
  local-address 127.0.0.1;
  local-as 65001;
  peer-as 65003;
  family { ipv4 unicast; }
  static { route 10.7.0.0/24 next-hop 1.1.1.1; }
}
"""


def config(sel, hold=30, extra='', norib=False, rev=False):
    a, b, c = sel
    lines = [x for x in (A[a], B[b], C6[c]) if x]
    if rev:
        # the same routes written in the opposite order (the order in which they are queued)
        lines.reverse()
    ribopts = 'adj-rib-out false;' if norib else 'capability { route-refresh enable; }'
    return CFG % dict(hold=hold, routes='\n'.join('    ' + l for l in lines), extra=extra, ribopts=ribopts)


def table_of(sel):
    a, b, c = sel
    t = {}
    if a:
        t[KEY['A']] = VAL[('A', a)]
    if b:
        t[KEY['B']] = VAL[('B', b)]
    if c:
        t[KEY['C']] = VAL[('C', c)]
    return t


SELS = list(itertools.product([None, 'x', 'y', 'z'], [None, 'x'], [None, 'x']))
# the same with a second attribute set for B, so that A and B can take over each other's attributes
SELS_B = list(itertools.product([None, 'x', 'y', 'z'], [None, 'x', 'y'], [None, 'x']))


def peer_table(sm, sock_index):
    sock = [x for x in sm['sockets'] if x['index'] == sock_index][0]
    t = w.PeerTable(asn4=True)
    bad = None
    for _, st, mtype, body in sock['tx']:
        if mtype == w.UPDATE:
            b = bytes.fromhex(body)
            if w.is_eor(b) is None:
                try:
                    t.apply_update(b)
                except w.RefError as e:
                    bad = str(e)
    return {k: (v[0], dict(v[1]).get(w.MED)) for k, v in t.table.items()}, bad


def establish(wd, env, refuse=False, steps=14):
    for i in range(steps):
        env.step += 1
        a = env.default_action()
        if a.startswith('connect-ok') and refuse:
            env.do('connect-refused:' + a.split(':')[1])
            return False
        if a == 'time' and env.fsm() == 'ESTABLISHED':
            return True
        env.do(a)
    return env.fsm() == 'ESTABLISHED'


class Env(c05.Env):
    def menu(self):
        return ['connect-refused:x']  # allow connect-refused through do()

    def do(self, action):
        if action.startswith('connect-refused'):
            name, _, arg = action.partition(':')
            s = self.w.sockets[int(arg)]
            import errno
            e = OSError(errno.ECONNREFUSED, 'refused')
            s.connect_result = e
            s._connect_waiter.set_result(e)
            self.w.settle()
            return
        super().do(action)


def run_success(args):
    old, new, session, api_state, change = args
    viols = []
    hold_new = 30 if change != 'hold' else 60
    norib = change == 'norib'
    rev = session.endswith('-rev')
    twice = session.endswith('-twice')   # the reload signal a second time, right after the first (the same new file)
    session = session.split('-')[0]
    with World(config(old, norib=norib or change == 'rib-on', rev=rev)) as wd:
        env = Env(wd, hold=30, script=[], config_name='active')
        env.step = 0
        up = False
        if session in ('up', 'flap'):
            up = establish(wd, env)
            if not up:
                raise core.HarnessError('could not establish')
            wd.advance(0.4)
            if session == 'flap':
                # the session is lost and the next attempt refused: the reload finds the session down after it had been up
                env.current().feed('EOF')
                wd.settle()
                wd.advance(0.3)
                establish(wd, env, refuse=True)
                wd.advance(0.3)
        else:
            # the remote refuses: the session stays down during the reload
            establish(wd, env, refuse=True)
            wd.advance(0.3)
        api = {}
        if api_state in ('D', 'D-'):
            wd.api_write(b'peer * announce route 10.9.0.0/24 next-hop 2.2.2.2 med 5\n')
            wd.settle()
            wd.advance(0.3)
            api[KEY['D']] = ('2.2.2.2', 5)
        if api_state == 'D-':
            wd.api_write(b'peer * withdraw route 10.9.0.0/24\n')
            wd.settle()
            wd.advance(0.3)
            api.pop(KEY['D'])
        # reload
        extra = SECOND if change == 'add' else ''
        if change == 'remove':
            wd.set_config(CFG.split('neighbor 127.0.0.2')[0] + SECOND)
        else:
            wd.set_config(config(new, hold=hold_new, extra=extra, norib=norib, rev=rev))
        wd.signal('RELOAD')
        wd.settle()
        if twice:
            wd.signal('RELOAD')
            wd.settle()
        wd.advance(0.6)
        if str(wd.cfg.error):
            return [('reload-refused-valid-config', f'a valid configuration was refused: {str(wd.cfg.error)[:200]}')], ('refused',), 0
        # let things happen: re-establishment where needed
        for i in range(30):
            env.step += 1
            a = env.default_action()
            if a == 'time' and env.fsm() in ('ESTABLISHED', 'NONE'):
                break
            env.do(a)
        wd.advance(1.2)
        sm = edev.summarize(wd, env)
        owned = None
        for p in wd.peers_map().values():
            if p.neighbor.session.peer_address.top() == '127.0.0.2' and p.proto and p.proto.connection and p.proto.connection.io is not None:
                owned = p.proto.connection.io.index
        if change == 'remove':
            gone = not any(p.neighbor.session.peer_address.top() == '127.0.0.2' for p in wd.peers_map().values())
            open_socks = [s for s in wd.sockets if s.connected and not s.closed and s.remote[0] == '127.0.0.2']
            if not gone or open_socks:
                viols.append(('removed-neighbor-still-there', f'neighbor removed from the configuration but peer gone={gone}, open connections={len(open_socks)}'))
            return viols, ('removed', gone), len(sm['events'])
        if owned is None:
            return [('no-session-after-reload', f'no established session with the neighbor after the reload (fsm {env.fsm()})')], ('none',), len(sm['events'])
        table, bad = peer_table(sm, owned)
        if bad:
            viols.append(('undecodable', bad))
    want = dict(table_of(new))
    want.update(api)
    session = session + ('-twice' if twice else '') + (':rib-on' if change == 'rib-on' else '')
    for k in sorted(set(want) | set(table)):
        g, e = table.get(k), want.get(k)
        name = [n for n, kk in KEY.items() if kk == k]
        name = name[0] if name else str(k)
        if e is None:
            viols.append((f'stale-after-reload:{name}:{_cls(old, new, name)}:{session}', f'{name} {g} still at the peer after the reload but neither in the new configuration nor an API route'))
        elif g is None:
            viols.append((f'missing-after-reload:{name}:{_cls(old, new, name)}:{session}', f'{name} expected {e} after the reload but the peer does not have it'))
        elif g != e:
            viols.append((f'wrong-value-after-reload:{name}:{_cls(old, new, name)}:{session}', f'{name}: peer has {g}, the new configuration says {e}'))
    return viols, (session, change, len(table)), len(sm['events'])


def _cls(old, new, name):
    idx = {'A': 0, 'B': 1, 'C': 2}.get(name)
    if idx is None:
        return 'api'
    o, n = old[idx], new[idx]
    if o is None and n is not None:
        return 'added'
    if o is not None and n is None:
        return 'removed'
    if o == n:
        return 'unchanged'
    return 'changed'


# ------------------------------------------------------------------------------------------------
# failing reloads
# ------------------------------------------------------------------------------------------------
FAULTS = {
    'garbage': lambda line: 'xyzzy plugh;',
    'unbalanced': lambda line: line.replace(';', ' {') if ';' in line else line + ' {',
    'non-valueerror': lambda line: '    route 10.0.5.0/24 next-hop 1.1.1.1 community [ 99999999:1 ];',
    # faults of one kind of line only (None: the line is not of that kind)
    'undefined-process': lambda line: line.replace('processes [ api ]', 'processes [ nosuch ]') if 'processes [ api ]' in line else None,
    'stray-brace': lambda line: (line + '\n}') if line.strip() in ('}',) or line.strip().endswith(';') else None,
}


def snapshot(wd):
    out = {}
    out['neighbors'] = sorted(wd.cfg.neighbors)
    peers = {}
    for k, p in wd.peers_map().items():
        rib = p.neighbor.rib.outgoing
        peers[k] = dict(
            neighbor_id=id(p.neighbor),
            in_cfg=wd.cfg.neighbors.get(k) is p.neighbor,
            hold=int(p.neighbor.hold_time),
            routes=sorted((r.index().hex(), r.attributes.index().decode('latin1'), str(r.nexthop)) for r in p.neighbor.routes),
            cached=sorted((r.index().hex(), r.attributes.index().decode('latin1'), str(r.nexthop)) for r in rib.cached_routes()),
            pending=rib.pending(),
            queued=sorted(k2.hex() for k2 in rib._new_nlri) if hasattr(rib, '_new_nlri') else rib.pending(),
            fsm=p.fsm.name(),
            teardown=getattr(p, '_teardown', None),
        )
    out['peers'] = peers
    out['sockets'] = [(s.index, s.connected, s.closed, len(s.tx)) for s in wd.sockets]
    out['processes'] = sorted(wd.cfg.processes)
    out['children'] = sorted(wd.children)
    return out


def without_processes(text: str) -> str:
    """the same configuration with no helper program at all (no process section, no api section)"""
    return '\n'.join(l for l in text.split('\n') if not l.startswith('process ') and not l.strip().startswith('api {'))


def run_failure(args):
    old, new, line_idx, fault, session = args
    viols = []
    # '<session>-noproc': the running configuration has no helper program, the refused file defines one
    # '<session>-norib': the refused file turns adj-rib-out off for the running neighbor and adds a second neighbor
    # (so that faults further down the file come after the first neighbor was parsed completely)
    noproc = session.endswith('-noproc')
    norib = session.endswith('-norib')
    # '<session>-second': the refused file has a second neighbor after the running one, the fault is in that second section
    # (the first section, with its new routes, was parsed completely), and the good file given afterwards is the OLD one
    second = session.endswith('-second')
    session = session.split('-')[0]
    with World(without_processes(config(old)) if noproc else config(old)) as wd:
        env = Env(wd, hold=30, script=[], config_name='active')
        env.step = 0
        if session == 'up':
            if not establish(wd, env):
                raise core.HarnessError('could not establish')
            wd.advance(0.4)
        else:
            establish(wd, env, refuse=True)
            wd.advance(0.3)
        before = snapshot(wd)
        if fault == 'missing-file':
            wd.config_is_text(False)
            wd._config_sources()[:] = ['/nonexistent/verif/exabgp.conf']
        else:
            lines = (config(new, norib=True, extra=SECOND) if norib else config(new, extra=SECOND) if second else config(new)).split('\n')
            body_idx = [i for i, l in enumerate(lines) if l.strip()]
            if line_idx >= len(body_idx):
                return [], ('skip',), 0
            i = body_idx[line_idx]
            mutated = FAULTS[fault](lines[i])
            if mutated is None:
                return [], ('skip',), 0
            lines[i] = mutated
            wd.set_config('\n'.join(lines))
            written = sum(1 for l in lines if l.startswith('neighbor '))
        wd.signal('RELOAD')
        wd.settle()
        wd.advance(0.6)
        accepted = not str(wd.cfg.error) and sorted(wd.cfg.neighbors) == before['neighbors'] and fault != 'missing-file'
        after = snapshot(wd)
        if not str(wd.cfg.error) and fault != 'missing-file':
            # the mutated text happened to be a valid configuration: not a failing reload - unless part of the file was dropped on the way
            if fault == 'stray-brace' and len(wd.cfg.neighbors) != written:
                return [('accepted-truncated:stray-brace', f'a file with a closing brace too many after line {line_idx} was accepted as the configuration of {len(wd.cfg.neighbors)} neighbor(s); it writes {written} (the running peers of the others are removed)')], ('truncated',), 0
            return [], ('accepted', fault), 0
        for key in ('neighbors', 'processes', 'children'):
            if before[key] != after[key]:
                viols.append((f'failed-reload-changed:{key}:{fault}', f'after a failed reload ({fault}, line {line_idx}) {"the helper programs started" if key == "children" else "configuration." + key} went from {before[key]} to {after[key]}'))
        if noproc:
            # no API to talk to in this configuration: the comparison above is the whole verdict
            return _dedup(viols), ('failed', fault, session, 'noproc'), 0
        for k, b in before['peers'].items():
            a = after['peers'].get(k)
            if a is None:
                viols.append((f'failed-reload-changed:peer-gone:{fault}', f'after a failed reload ({fault}) peer {k[:30]} disappeared'))
                continue
            for field in ('neighbor_id', 'hold', 'routes', 'cached', 'pending', 'queued', 'fsm', 'teardown', 'in_cfg'):
                if a[field] != b[field]:
                    viols.append((f'failed-reload-changed:{field}:{fault}', f'after a failed reload ({fault}, line {line_idx} of the new file) {field} changed from {str(b[field])[:150]} to {str(a[field])[:150]}'))
        if session == 'up':
            if [x[:3] for x in before['sockets']] != [x[:3] for x in after['sockets'][:len(before['sockets'])]] or len(after['sockets']) != len(before['sockets']):
                viols.append((f'failed-reload-changed:sockets:{fault}', f'connections changed across a failed reload: {before["sockets"]} -> {after["sockets"]}'))
            sent_before = before['sockets'][-1][3]
            # the API keeps working: an announce is acknowledged and reaches the wire
            n0 = len(wd.api_output())
            wd.api_write(b'peer * announce route 10.8.0.0/24 next-hop 2.2.2.2\n')
            wd.settle()
            wd.advance(0.5)
            out = wd.api_output()[n0:].decode('ascii', 'replace')
            if 'done' not in out.split('\n'):
                viols.append((f'api-broken-after-failed-reload:{fault}', f'after a failed reload ({fault}) an API announce was answered {out.strip()[:80]!r} instead of done'))
            sm = edev.summarize(wd, env)
            cur = env.current()
            if cur is not None:
                t, bad = peer_table(sm, cur.index)
                k8 = w.nlri_key(w.nlri_ip(1, 1, '10.8.0.0', 24))
                if k8 not in t:
                    viols.append((f'api-route-not-sent-after-failed-reload:{fault}', f'after a failed reload ({fault}) an acknowledged API announce never reached the peer'))
                want = table_of(old)
                extra = [k for k in t if k not in want and k != k8]
                if extra:
                    viols.append((f'failed-reload-leaked-routes:{fault}', f'after a failed reload ({fault}, line {line_idx}) the peer received routes of the refused file: {extra}'))
        # a good file after the refused one must be applied like any other reload
        if session == 'up':
            wd.config_is_text(True)
            after_good = old if second else new
            wd.set_config(config(after_good))
            wd.signal('RELOAD')
            wd.settle()
            wd.advance(1.0)
            if str(wd.cfg.error):
                viols.append((f'good-reload-refused-after-failed-one:{fault}', f'after a failed reload ({fault}) the valid new file was refused: {str(wd.cfg.error).strip()[:160]}'))
            else:
                sm = edev.summarize(wd, env)
                cur = env.current()
                if cur is not None:
                    t, bad = peer_table(sm, cur.index)
                    want = dict(table_of(after_good))
                    want[w.nlri_key(w.nlri_ip(1, 1, '10.8.0.0', 24))] = ('2.2.2.2', None)
                    if t != want:
                        extra_r = sorted(k for k in t if k not in want)
                        viols.append((f'reload-after-failed-one-wrong-table:{fault}' + (':routes-of-the-refused-file' if extra_r and all(k in table_of(new) for k in extra_r) else ''),
                                      f'after a failed reload ({fault}) then a valid file, the peer holds {sorted(t)} expected {sorted(want)}'))
    return _dedup(viols), ('failed', fault, session), 0


def run_readd(args):
    """A refused reload (complete section of the running neighbor with other routes, fault in a second neighbor), then a
    file without the neighbor (it is removed), then a file with it again and fewer routes: the session that comes up then
    must carry exactly the routes of that last file."""
    old, new, fault, third = args
    viols = []
    with World(config(old)) as wd:
        env = Env(wd, hold=30, script=[], config_name='active')
        env.step = 0
        if not establish(wd, env):
            raise core.HarnessError('could not establish')
        wd.advance(0.4)
        wd.api_write(b'peer * announce route 10.9.0.0/24 next-hop 2.2.2.2 med 5\n')
        wd.settle()
        wd.advance(0.3)
        lines = config(new, extra=SECOND).split('\n')
        body_idx = [i for i, l in enumerate(lines) if l.strip()]
        i = body_idx[-2]   # the last line of the second neighbor's body
        lines[i] = FAULTS[fault](lines[i])
        wd.set_config('\n'.join(lines))
        wd.signal('RELOAD')
        wd.settle()
        wd.advance(0.6)
        if not str(wd.cfg.error):
            return [], ('readd-accepted', fault), 0
        # the neighbor leaves the configuration ...
        wd.set_config(CFG.split('neighbor 127.0.0.2')[0] + SECOND)
        wd.signal('RELOAD')
        wd.settle()
        wd.advance(1.0)
        if str(wd.cfg.error):
            return [('readd:valid-file-refused', f'the file without the neighbor was refused after a failed reload: {str(wd.cfg.error)[:160]}')], ('readd-refused',), 0
        # ... and comes back with fewer routes
        wd.set_config(config(third))
        wd.signal('RELOAD')
        wd.settle()
        wd.advance(0.6)
        if str(wd.cfg.error):
            return [('readd:valid-file-refused', f'the file with the neighbor again was refused: {str(wd.cfg.error)[:160]}')], ('readd-refused',), 0
        before = {s.index for s in wd.sockets}
        for k in range(40):
            env.step += 1
            a = env.default_action()
            if a == 'time' and env.fsm() == 'ESTABLISHED':
                break
            env.do(a)
        wd.advance(1.5)
        sm = edev.summarize(wd, env)
        cur = env.current()
        if cur is None or env.fsm() != 'ESTABLISHED':
            return [('readd:no-session', f'no session with the neighbor that was put back (fsm {env.fsm()})')], ('readd-none',), 0
        t, bad = peer_table(sm, cur.index)
    want = dict(table_of(third))
    if t != want:
        extra_r = sorted(k for k in t if k not in want)
        viols.append(('readd:wrong-table' + (':stale-routes' if extra_r else ''), f'neighbor removed then put back with {sorted(want)}: the new session carries {sorted(t)} (old file {old}, refused file {new}, fault {fault})'))
    return _dedup(viols), ('readd', fault, len(t)), 0


def _dedup(viols):
    seen = set()
    outv = []
    for sig, what in viols:
        if sig not in seen:
            seen.add(sig)
            outv.append((sig, what))
    return outv


def plan(tier):
    succ, fail = [], []
    if tier == 'quick':
        for old in SELS:
            for new in SELS:
                succ.append((old, new, 'up', 'none', 'none'))
        for old, new in itertools.product(SELS[::3], SELS[::2]):
            succ.append((old, new, 'down', 'none', 'none'))
        # two attribute sets for both A and B, the routes written (queued) in either order, session up and down
        for old, new in itertools.product(SELS_B, SELS_B):
            if old[1] == 'y' or new[1] == 'y':
                for sess in ('up', 'down', 'up-rev', 'down-rev'):
                    succ.append((old, new, sess, 'none', 'none'))
            else:
                for sess in ('up-rev', 'down-rev', 'down'):
                    succ.append((old, new, sess, 'none', 'none'))
        for old, new in itertools.product(SELS_B[1::5], SELS_B[::3]):
            for sess in ('flap', 'flap-rev'):
                succ.append((old, new, sess, 'none', 'none'))
                succ.append((old, new, sess, 'D', 'none'))
        for old, new in itertools.product(SELS[1::5], SELS[::5]):
            for api_state in ('D', 'D-'):
                for sess in ('up', 'down'):
                    succ.append((old, new, sess, api_state, 'none'))
            for ch in ('hold', 'add', 'remove'):
                succ.append((old, new, 'up', 'none', ch))
        # without adj-rib-out (no route-refresh, cache off): the difference must still be applied
        for old, new in itertools.product(SELS[::3], SELS[::3]):
            succ.append((old, new, 'up', 'none', 'norib'))
            succ.append((old, new, 'up', 'D', 'norib'))
        bases = [(SELS[1], SELS[10]), (SELS[0], SELS[15])]
    else:
        for old in SELS:
            for new in SELS:
                for sess in ('up', 'down'):
                    for api_state in ('none', 'D', 'D-'):
                        succ.append((old, new, sess, api_state, 'none'))
                for ch in ('hold', 'add', 'remove', 'norib'):
                    succ.append((old, new, 'up', 'none', ch))
                succ.append((old, new, 'up', 'D', 'norib'))
        for old, new in itertools.product(SELS_B, SELS_B):
            for sess in ('up-rev', 'down-rev', 'flap', 'flap-rev') + (('up', 'down') if (old[1] == 'y' or new[1] == 'y') else ()):
                for api_state in ('none', 'D', 'D-'):
                    succ.append((old, new, sess, api_state, 'none'))
        bases = [(SELS[1], SELS[10]), (SELS[0], SELS[15]), (SELS[15], SELS[1])]
    for old, new in bases:
        nlines = len([l for l in config(new).split('\n') if l.strip()])
        for li in range(nlines):
            for fault in FAULTS:
                for sess in ('up', 'down'):
                    fail.append((old, new, li, fault, sess))
        for sess in ('up', 'down'):
            fail.append((old, new, 0, 'missing-file', sess))
        # the refused file turns adj-rib-out off and has a second neighbor: faults in the lines of that second neighbor
        nl2 = len([l for l in config(new, norib=True, extra=SECOND).split('\n') if l.strip()])
        for li in range(nlines - 1, nl2):
            for fault in FAULTS:
                for sess in ('up-norib', 'down-norib'):
                    fail.append((old, new, li, fault, sess))
        # the refused file has a complete first section (with other routes than the running ones) and fails in a second
        # neighbor; the good file given afterwards is the running one again
        nl3 = len([l for l in config(new, extra=SECOND).split('\n') if l.strip()])
        for li in range(nlines - 1, nl3):
            for fault in FAULTS:
                for sess in ('up-second', 'down-second'):
                    fail.append((old, new, li, fault, sess))
        # the running configuration without any helper program, the refused file with one: every third line
        for li in range(0, nlines, 3 if tier == 'quick' else 1):
            for fault in FAULTS:
                for sess in ('up-noproc', 'down-noproc'):
                    fail.append((old, new, li, fault, sess))
    # a second reload right after the first (session up / down, with and without a session-level change), and adj-rib-out switched on
    for old, new in itertools.product(SELS[1::3] if tier == 'quick' else SELS, SELS[::3] if tier == 'quick' else SELS):
        for sess in ('up-twice', 'down-twice'):
            for ch in ('none', 'hold'):
                succ.append((old, new, sess, 'none', ch))
        succ.append((old, new, 'up', 'none', 'rib-on'))
        succ.append((old, new, 'down', 'none', 'rib-on'))
    succ = list(dict.fromkeys(succ))
    return succ, fail


def readd_plan(tier):
    jobs = []
    thirds = [(None, 'x', None), ('x', None, None)]
    pairs = [(SELS[15], SELS[1]), (SELS[1], SELS[10]), (SELS[5], SELS[15])] if tier == 'quick' else [(o, n) for o in SELS[1::3] for n in SELS[1::4]]
    for old, new in pairs:
        for fault in ('garbage', 'unbalanced', 'non-valueerror'):
            for third in thirds:
                jobs.append((old, new, fault, third))
    return jobs


def run(ctx: core.Ctx) -> None:
    succ, fail = plan(ctx.tier)
    ctx.rule = ('successful reloads: all 256 (old, new) pairs over {A absent/x/y/x-with-other-next-hop} x {B absent/present} x {IPv6 C absent/present} with the session up; subsets with the session down, with an API route announced / announced then withdrawn, '
                'and with neighbor-level changes (hold time -> re-establish, neighbor added, neighbor removed); failing reloads: every non-empty line of the new file in turn replaced by a garbage token, an unbalanced brace, or a value that makes a value parser raise struct.error, plus a missing file, session up and down, and the same faults when the running configuration has no helper program but the refused file defines one; '
                'sequences refused file -> file without the neighbor -> file with it again and fewer routes; non-trivial = distinct (session, change, table size / fault) outcome')
    ctx.assumptions += ['reference peer table from every UPDATE on the wire since session start', 'snapshot = neighbors, processes, helper programs started, per-peer neighbor identity/hold/routes, Adj-RIB-Out cache and queues, FSM, connections']
    pool = mp.Pool(min(16, os.cpu_count() or 1))
    try:
        sres = pool.map(run_success, succ, chunksize=4)
        core.replay_check(ctx, pool, run_success, succ, sres)
        for job, (viols, outcome, n) in zip(succ, sres):
            ctx.count('executions')
            ctx.count('transitions', 2)
            ctx.add_to_set('outcomes', outcome)
            for sig, what in viols:
                ctx.violation(sig, f'[old {job[0]} new {job[1]} session {job[2]} api {job[3]} change {job[4]}] {what}', {'kind': 'success', 'job': [list(job[0]), list(job[1]), job[2], job[3], job[4]]})
        fres = pool.map(run_failure, fail, chunksize=4)
        core.replay_check(ctx, pool, run_failure, fail, fres)
        for job, (viols, outcome, n) in zip(fail, fres):
            ctx.count('executions')
            ctx.count('transitions', 2)
            ctx.add_to_set('outcomes', outcome)
            for sig, what in viols:
                ctx.violation(sig, f'[old {job[0]} new {job[1]} session {job[4]}] {what}', {'kind': 'failure', 'job': [list(job[0]), list(job[1]), job[2], job[3], job[4]]})
        rjobs = readd_plan(ctx.tier)
        rres = pool.map(run_readd, rjobs, chunksize=2)
        for job, (viols, outcome, n) in zip(rjobs, rres):
            ctx.count('executions')
            ctx.count('transitions', 3)
            ctx.add_to_set('outcomes', outcome)
            for sig, what in viols:
                ctx.violation(sig, what, {'kind': 'readd', 'job': [list(job[0]), list(job[1]), job[2], list(job[3])]})
        ctx.coverage_extra['remove_then_add_back_sequences'] = len(rjobs)
        ctx.sample({'old': list(succ[37][0]), 'new': list(succ[37][1]), 'session': succ[37][2]})
        ctx.sample({'failing': list(fail[5][1]), 'line': fail[5][2], 'fault': fail[5][3]})
        ctx.counters['states'] = ctx.set_size('outcomes')
        ctx.counters['nontrivial'] = ctx.set_size('outcomes')
        ctx.coverage_extra['successful_reloads'] = len(succ)
        ctx.coverage_extra['failing_reloads'] = len(fail)
    finally:
        pool.close()
        pool.join()


def replay(case):
    j = case['job']
    if case['kind'] == 'readd':
        viols, o, n = run_readd((tuple(j[0]), tuple(j[1]), j[2], tuple(j[3])))
        return [{'signature': s, 'what': wh} for s, wh in viols]
    if case['kind'] == 'success':
        viols, o, n = run_success((tuple(j[0]), tuple(j[1]), j[2], j[3], j[4]))
    else:
        viols, o, n = run_failure((tuple(j[0]), tuple(j[1]), j[2], j[3], j[4]))
    return [{'signature': s, 'what': wh} for s, wh in viols]
