"""C16 - FlowSpec rules mean on the wire what they say in text.   E-in: bounded exhaustive input enumeration.

An abstract rule (vt/ref/flowspec.py) is rendered (a) as ExaBGP flow text for the three real entry points
  api  : API.api_flow('announce flow route { match {..} then {..} }')      as the v4 dispatcher calls it
  line : API.api_announce_v4/v6('announce ipv4 flow ...')                  the one-line family syntax
  conf : Configuration([text], text=True).reload() with `flow { route {..} }` in the neighbor
and (b) as RFC 8955/8956 reference bytes.  The real Flow object's pack_nlri(negotiated) and the packed
extended-community attributes are compared byte for byte with the reference (the only tolerated freedom:
flow-label values in 4 octets, prefix bits beyond the length).  Decode direction: reference bytes go through
the real UPDATE decoder (Message.unpack + Update.parse, MP_REACH_NLRI -> Flow.unpack_nlri) and the delivered
rule (the Flow's rules structure and its json()) is compared with what the reference decoder extracts; every
truncation, undefined component type, reserved operator bit and wider value encoding of a base set is fed in
too: what the reference calls malformed must not be delivered at all.
"""

from __future__ import annotations

import itertools
import json
import multiprocessing as mp
import os
import re
import struct

from vt import core, exa
from vt.ref import flowspec as fs
from vt.ref import wire

PROPERTY = 'C16'

CONFIG = """
neighbor 127.0.0.2 {
  router-id 1.2.3.4;
  local-address 127.0.0.1;
  local-as 65001;
  peer-as 65002;
  family { ipv4 flow; ipv6 flow; ipv4 flow-vpn; ipv6 flow-vpn; }
  %s
}
"""

PATHS = ('api', 'line', 'conf')

# ------------------------------------------------------------------------------------------------
# the real implementation, one world per process
# ------------------------------------------------------------------------------------------------

_W: dict = {}


def world():
    if _W:
        return _W
    exa.reset_process_state()
    cfg, neighbor = exa.neighbor_from_text(CONFIG % '')
    fams = [(1, 133), (2, 133), (1, 134), (2, 134)]
    _W['neg_out'] = exa.negotiated_for(neighbor, exa.peer_open_body(65002, fams))
    _W['neg_in'] = exa.negotiated_for(neighbor, exa.peer_open_body(65002, fams), direction_out=False)
    _W['neighbor'] = neighbor
    _new_api()
    return _W


def _new_api():
    from exabgp.configuration.configuration import Configuration
    from exabgp.reactor.api import API

    api = API.__new__(API)
    api.configuration = Configuration([])
    api.reactor = None
    _W['api'] = api


def _routes(path: str, text: str):
    """Push the text through the real entry point.  -> (routes | None, refusal detail)."""
    w = world()
    try:
        if path == 'api':
            routes = w['api'].api_flow('announce ' + text)
        elif path == 'line':
            fn = w['api'].api_announce_v4 if text.startswith('announce ipv4') else w['api'].api_announce_v6
            routes = fn(text)
        else:
            exa.reset_process_state()
            cfg, ok = exa.parse_config(CONFIG % text)
            if not ok:
                return None, 'reload-false'
            (neighbor,) = list(cfg.neighbors.values())
            routes = list(neighbor.routes)
    except Exception as e:  # the command handlers catch and answer "error"
        if path != 'conf':
            _new_api()
        return None, f'raised-{type(e).__name__}'
    if not routes:
        if path != 'conf':
            _new_api()
        return None, 'no-route'
    return routes, ''


def observe_encode(path: str, text: str) -> dict:
    w = world()
    routes, why = _routes(path, text)
    if routes is None:
        return {'status': 'refused', 'why': why}
    seen = {}
    for r in routes:
        o = {'afi': int(r.nlri.afi), 'safi': int(r.nlri.safi)}
        try:
            o['nlri'] = bytes(r.nlri.pack_nlri(w['neg_out'])).hex()
        except Exception as e:
            o['pack_exc'] = type(e).__name__
        ext, ext6, flags = [], [], []
        try:
            for code in (16, 25):
                if code in r.attributes:
                    raw = bytes(r.attributes[code].pack_attribute(w['neg_out']))
                    ((fl, c, value),) = wire.walk_attrs(raw)
                    flags.append((c, fl & 0xE0))
                    size = 8 if code == 16 else 20
                    chunks = [value[i : i + size].hex() for i in range(0, len(value), size)]
                    (ext if code == 16 else ext6).extend(chunks)
        except Exception as e:
            o['attr_exc'] = type(e).__name__
        o['ext'], o['ext6'], o['attr_flags'] = sorted(ext), sorted(ext6), flags
        nh = str(r.nexthop)
        o['nh'] = None if nh in ('no-nexthop', '', 'None') else nh
        seen[json.dumps(o, sort_keys=True)] = o
    if len(seen) != 1:
        return {'status': 'several', 'routes': list(seen.values())}
    (o,) = seen.values()
    o['status'] = 'packed' if 'nlri' in o else 'pack-raised'
    return o


def _low(b: int) -> int:
    return b & 0x0F


def observed_rule(nlri):
    """(rd hex, comps) read off the delivered Flow object's rules structure."""
    comps = []
    for cid in sorted(nlri.rules):
        objs = nlri.rules[cid]
        if cid in fs.PREFIX:
            for o in objs:
                ip, ln = str(o.cidr).rsplit('/', 1)
                if hasattr(o, 'offset'):
                    comps.append([cid, [ip, int(ln), int(o.offset)]])
                else:
                    comps.append([cid, [ip, int(ln)]])
            continue
        ops = []
        for o in objs:
            b = int(o.operations)
            low = _low(b)
            if cid in fs.NUMERIC:
                name = fs.NUM_NAME.get(low, f'raw{low:02x}')
            else:
                name = fs.BIT_NAME.get(low, f'raw{low:02x}')
            ops.append([1 if b & 0x40 else 0, name, int(o.value)])
        comps.append([cid, ops])
    rd = bytes(nlri.rd.pack_rd()).hex() or None
    return rd, comps


JSON_KEYS = {
    'destination-ipv4': 1, 'source-ipv4': 2, 'destination-ipv6': 1, 'source-ipv6': 2, 'protocol': 3, 'next-header': 3,
    'port': 4, 'destination-port': 5, 'source-port': 6, 'icmp-type': 7, 'icmp-code': 8, 'tcp-flags': 9,
    'packet-length': 10, 'dscp': 11, 'traffic-class': 11, 'fragment': 12, 'flow-label': 13,
}
_NUM_RE = re.compile(r'^(true|false|>=|<=|!=|=|>|<)(.*)$')
_BIT_RE = re.compile(r'^(!=|=|!|)(.*)$')


def _json_value(cid: int, text: str):
    # names on output are ExaBGP's IPv4 vocabulary in both families (the vocabulary itself is checked
    # in the encode direction)
    if text == '':
        return 0 if cid in fs.BITMASK else None
    table = fs.name_table(cid, 1)
    total = 0
    for part in text.split('+'):
        if part in table:
            total += table[part]
        elif part.isdigit():
            total += int(part)
        elif part.startswith('0x'):
            total += int(part, 16)
        elif re.match(r'^unknown [a-z -]+ \d+$', part):
            # ExaBGP's rendering of a value with bits it has no name for: the named bits, then "unknown tcp flag type
            # <the whole value>" - the number is what counts
            return int(part.rsplit(' ', 1)[1])
        else:
            raise ValueError(f'unknown value text {part!r}')
    return total


def json_rule(text: str):
    """Parse the JSON ExaBGP hands to API consumers back into (rd text|None, comps)."""
    d = json.loads(text)
    comps = []
    for key, elements in d.items():
        if key in ('string', 'rd'):
            continue
        cid = JSON_KEYS[key]
        if cid in fs.PREFIX:
            for e in elements:
                parts = e.split('/')
                if len(parts) == 3:
                    comps.append([cid, [parts[0], int(parts[1]), int(parts[2])]])
                else:
                    comps.append([cid, [parts[0], int(parts[1])]])
            continue
        ops = []
        for e in elements:
            for i, piece in enumerate(e.split('&')) if e else [(0, '')]:
                m = (_NUM_RE if cid in fs.NUMERIC else _BIT_RE).match(piece)
                if not m:
                    raise ValueError(f'unparsable operator {piece!r}')
                ops.append([1 if i else 0, m.group(1), _json_value(cid, m.group(2))])
        comps.append([cid, ops])
    return d.get('rd'), comps


def observe_decode(afi: int, vpn: bool, attr_nlri: bytes) -> dict:
    """Reference-built UPDATE (ORIGIN, AS_PATH, LOCAL_PREF, MP_REACH_NLRI with no next hop) through the
    real decoder path: Message.unpack(UPDATE) then Update.parse(negotiated), as Protocol.read_message does."""
    from exabgp.bgp.message import Message

    w = world()
    safi = 134 if vpn else 133
    mp_reach = struct.pack('!HBB', afi, safi, 0) + b'\x00' + attr_nlri
    attrs = (wire.encode_attr(wire.ORIGIN, b'\x00') + wire.encode_attr(wire.AS_PATH, b'')
             + wire.encode_attr(wire.LOCAL_PREF, struct.pack('!L', 100)) + wire.encode_attr(wire.MP_REACH, mp_reach))
    body = wire.encode_update(attrs=[attrs])
    try:
        msg = Message.unpack(wire.UPDATE, body, w['neg_in'])
        upd = msg.parse(w['neg_in'])
        out = []
        for routed in upd.announces:
            nlri = routed.nlri
            rd, comps = observed_rule(nlri)
            item = {'rd': rd, 'comps': comps, 'afi': int(nlri.afi), 'safi': int(nlri.safi)}
            try:
                item['json'] = json_rule(nlri.json())
            except Exception as e:
                item['json_error'] = f'{type(e).__name__}: {e}'
            out.append(item)
    except Exception as e:
        return {'status': 'refused', 'exc': type(e).__name__}
    if not out:
        return {'status': 'dropped'}
    return {'status': 'delivered', 'rules': out}


# ------------------------------------------------------------------------------------------------
# oracles
# ------------------------------------------------------------------------------------------------


def _canon(comps, afi, keep=False):
    try:
        return fs.canonical(comps, afi, keep_first_and=keep)
    except Exception as e:
        return ('uncanonical', type(e).__name__, json.dumps(comps))


def _mismatch_kind(rule, got: bytes, vpn: bool) -> str:
    """Name the way the emitted bytes differ from the reference, by decoding them with the reference."""
    afi = rule['afi']
    if afi == 2 and any(c in fs.PREFIX and len(p) == 3 and p[2] for c, p in rule['comps']):
        # pre-RFC 8956 drafts carried the whole prefix after the offset octet; RFC 8956 3.1 carries only the
        # bits from `offset` on, left-aligned
        try:
            parts = []
            for c, p in sorted(rule['comps'], key=lambda x: x[0]):
                if c in fs.PREFIX:
                    parts.append(bytes([c, p[1], p[2]]) + fs.prefix6_bytes(p[0], p[1], 0)[2:])
                else:
                    parts.append(fs.encode_component(afi, c, p))
            body = (fs.rd_bytes(rule['rd']) if rule.get('rd') else b'') + b''.join(parts)
            if got == fs.encode_length(len(body)) + body:
                return 'pattern-keeps-the-bits-before-offset'
        except fs.Unencodable:
            pass
    try:
        length, hdr = fs.decode_length(got)
        if got[:hdr] != fs.encode_length(len(got) - hdr):
            return 'length-prefix'
        rd, comps, flags, rest = fs.decode_nlri(got, afi, vpn)
    except fs.Malformed as m:
        return f'emits-malformed-nlri:{m.reason}'
    except fs.Unencodable:
        return 'length-prefix'
    if rest:
        return 'trailing-bytes'
    want_rd = fs.rd_bytes(rule['rd']).hex() if rule.get('rd') else None
    if rd != want_rd:
        return 'route-distinguisher'
    want = _canon(rule['comps'], afi)
    have = _canon(comps, afi, keep=True)
    if have != want:
        wt, ht = [c[0] for c in want], [c[0] for c in have]
        if wt != ht:
            return 'components-dropped' if set(ht) < set(wt) else 'component-set-differs'
        for (t, a), (_, b) in zip(want, have):
            if a == b:
                continue
            if t in fs.PREFIX:
                return 'prefix-differs'
            if len(a) != len(b):
                return 'operators-dropped' if len(b) < len(a) else 'operators-added'
            for x, y in zip(a, b):
                if x[0] != y[0]:
                    return 'and-bit'
                if x[1] != y[1]:
                    return 'operator'
                if x[2] != y[2]:
                    return 'value'
        return 'rule-differs'
    if 'order' in flags:
        return 'component-order'
    if 'width' in flags:
        return 'value-width-not-allowed'
    if 'reserved' in flags:
        return 'reserved-bits-set'
    if 'host-bits' in flags:
        return 'host-bits'  # tolerated by the caller
    return 'value-width-not-shortest'


def expectation(rule):
    """-> ('ok', [valid NLRI encodings], ext, ext6, nh) | ('refuse', reason)"""
    try:
        encs = fs.valid_encodings(rule)
        ext, ext6, nh = fs.action_communities(rule.get('actions') or [])
    except fs.Unencodable as u:
        return ('refuse', u.reason)
    return ('ok', encs, ext, ext6, nh)


def _same_ip(a, b) -> bool:
    import ipaddress

    if a is None or b is None:
        return a is b
    try:
        return ipaddress.ip_address(a) == ipaddress.ip_address(b)
    except ValueError:
        return False


_ACTION_KINDS = ('communities-differ', 'community-attribute-flags', 'attribute-pack-raises', 'nexthop-differs', 'unencodable', 'valid-rule-refused')
_LENGTH_KINDS = ('length-prefix', 'pack-raises', 'valid-rule-refused', 'unencodable')


def _sig_cls(cls: str, kind: str) -> str:
    """Keep the class of a signature about the thing that is wrong: an NLRI mismatch seen in an action case,
    a long-list case or a named-value case is not about the action, the length or the name."""
    if cls.startswith('action') and not kind.startswith(_ACTION_KINDS):
        return 'multi'
    if cls.startswith('nlri-length-') and not kind.startswith(_LENGTH_KINDS):
        return 'long-list'
    if cls.endswith('-name') and kind != 'value':
        return 'named-value'
    return cls


def eval_encode(rule, path: str, style, cls: str, either: bool = False):
    """Run one (rule, entry point, text style).  -> (outcome key, nontrivial, [(signature, what)])"""
    text = fs.render(rule, path, style)
    exp = expectation(rule)
    obs = observe_encode(path, text)
    viols = []
    shown = text if len(text) < 300 else text[:140] + ' ... ' + text[-120:]

    def v(kind, what):
        viols.append((f'encode:{_sig_cls(cls, kind)}:{kind}', f'[{path}] {shown!r}: {what}'))

    st = obs['status']
    if st == 'refused':
        if exp[0] == 'ok' and not either:
            v('valid-rule-refused', f'text refused ({obs["why"]}), reference encodes it as {exp[1][0].hex()}')
        return f'enc:refused:{exp[0]}', False, viols
    if st == 'several':
        v('several-routes', f'one rule text produced differing routes {obs["routes"]}')
        return 'enc:several', True, viols
    if exp[0] == 'refuse':
        if st == 'pack-raised' and obs['pack_exc'] == 'Notify':
            # Flow._encode_length / CIDR refuse on purpose with a Notify when asked to pack: a loud refusal
            return 'enc:unencodable-refused-at-pack', True, viols
        if st == 'pack-raised':
            v(f'unencodable-accepted:pack-raises-{obs["pack_exc"]}',
              f'rule has no RFC encoding ({exp[1]}) but the text is accepted as a route, and packing it raises {obs["pack_exc"]}')
        else:
            v('unencodable-accepted:encoded', f'rule has no RFC encoding ({exp[1]}) but is accepted and sent as {obs["nlri"]}')
        return f'enc:accepted-unencodable:{st}', True, viols
    _, encs, ext, ext6, nh = exp
    vpn = bool(rule.get('rd'))
    if st == 'pack-raised':
        v(f'pack-raises-{obs["pack_exc"]}', f'accepted, but pack_nlri raises {obs["pack_exc"]}; reference {encs[0].hex() if len(encs[0]) < 64 else str(len(encs[0])) + " octets"}')
        return 'enc:pack-raised', True, viols
    if (obs['afi'], obs['safi']) != (rule['afi'], 134 if vpn else 133):
        v('family-differs', f'sent as afi/safi {obs["afi"]}/{obs["safi"]} nlri {obs["nlri"][:64]}, the rule is afi {rule["afi"]} safi {134 if vpn else 133}')
        return 'enc:family-differs', True, viols
    got = bytes.fromhex(obs['nlri'])
    outcome = 'enc:equal'
    if got not in encs:
        kind = _mismatch_kind(rule, got, vpn)
        if kind == 'host-bits':
            outcome = 'enc:equal-modulo-host-bits'
        else:
            g, e = obs['nlri'], encs[0].hex()
            if len(g) > 80:
                g, e = f'{g[:24]}..({len(got)} octets)', f'{e[:24]}..({len(encs[0])} octets)'
            v(kind, f'packed {g}, reference {e}')
            outcome = f'enc:differs:{kind}'
    if obs['ext'] != ext or obs['ext6'] != ext6:
        v('communities-differ', f'extended communities {obs["ext"]} {obs["ext6"]}, RFC 8955 section 7 gives {ext} {ext6}')
        outcome = 'enc:communities-differ'
    elif any(fl != 0xC0 for _, fl in obs['attr_flags']):
        v('community-attribute-flags', f'attribute flags {obs["attr_flags"]}, expected optional transitive')
    if 'attr_exc' in obs:
        v(f'attribute-pack-raises-{obs["attr_exc"]}', 'packing the extended communities raised')
    if not _same_ip(obs['nh'], nh):
        v('nexthop-differs', f'route next hop {obs["nh"]}, the text says {nh}')
    return outcome, True, viols


def eval_decode(afi: int, vpn: bool, data: bytes, cls: str):
    """One reference-built NLRI field through the real decoder.  -> (outcome, nontrivial, viols)"""
    viols = []

    def v(kind, what):
        viols.append((f'decode:{cls}:{kind}', f'afi {afi} {"flow-vpn" if vpn else "flow"} nlri {data.hex() if len(data) < 64 else data[:24].hex() + f"..({len(data)} octets)"}: {what}'))

    trace: dict = {}
    try:
        rd, comps, flags, rest = fs.decode_nlri(data, afi, vpn, trace)
        if rest:
            raise fs.Malformed('trailing', 'bytes after the NLRI')  # never generated
        ref = ('ok', rd, comps, flags)
    except fs.Malformed as m:
        ref = ('malformed', m.reason)
    if trace.get('offset6'):
        # everything a decoder reads after an IPv6 prefix with an offset depends on how it frames that prefix
        cls = cls + ':after-ipv6-offset'
    obs = observe_decode(afi, vpn, data)
    st = obs['status']
    if ref[0] == 'malformed':
        if st == 'delivered':
            got = obs['rules']
            what = '; '.join(json.dumps(r['comps']) for r in got)
            v(f'malformed-{ref[1]}:delivered', f'reference: malformed ({ref[1]}); delivered as a valid rule {what}')
            return f'dec:malformed-delivered:{ref[1]}', True, viols
        return f'dec:malformed-{st}', True, viols
    _, rd, comps, flags = ref
    lenient = bool(flags - {'host-bits'})
    if st != 'delivered':
        if not lenient:
            v(f'well-formed-{st}', f'reference decodes {json.dumps(comps) if len(data) < 64 else "a well-formed rule"}; ExaBGP {st} ({obs.get("exc", "treated as invalid")})')
        return f'dec:{st}:{"lenient" if lenient else "strict"}', not lenient, viols
    rules = obs['rules']
    if len(rules) != 1:
        v('several-rules', f'{len(rules)} rules delivered for one NLRI')
        return 'dec:several', True, viols
    (r,) = rules
    if 'order' in flags:
        # repeated / unordered component types are malformed by RFC 8955 4.2 but outside the property statement:
        # only "nothing dropped, nothing altered" is required, with repeated types folded together
        comps = fs.merge_repeated(comps)
        r = dict(r, comps=fs.merge_repeated(r['comps']))
        if 'json' in r:
            r['json'] = (r['json'][0], fs.merge_repeated(r['json'][1]))
    want = _canon(comps, afi)
    have = _canon(r['comps'], afi, keep=True)
    outcome = 'dec:equal'
    if (r['afi'], r['safi']) != (afi, 134 if vpn else 133):
        v('family-differs', f'delivered as {r["afi"]}/{r["safi"]}')
    if r['rd'] != rd:
        v('route-distinguisher', f'delivered rd {r["rd"]}, reference {rd}')
        outcome = 'dec:rd-differs'
    if have != want:
        kind = 'rule-differs'
        wt, ht = [c[0] for c in want], [c[0] for c in have if isinstance(c, tuple)]
        if len(ht) < len(wt):
            kind = 'components-dropped'
        elif 'reserved' in flags or 'and-first' in flags:
            kind = 'bits-to-ignore-not-ignored'
        elif wt == ht:
            for (t, a), (_, b) in zip(want, have):
                if a != b:
                    kind = 'prefix-differs' if t in fs.PREFIX else ('operators-dropped' if len(b) < len(a) else 'operators-differ')
                    break
        v(kind, f'reference rule {json.dumps(comps)}; delivered {json.dumps(r["comps"])}')
        outcome = f'dec:differs:{kind}'
    elif 'json_error' in r:
        v('json-unparsable', f'json() of the delivered rule cannot be read back: {r["json_error"]}')
        outcome = 'dec:json-unparsable'
    else:
        jrd, jcomps = r['json']
        if _canon(jcomps, afi, keep=True) != want:
            v('json-differs', f'rules structure matches but json() says {json.dumps(jcomps)}, reference {json.dumps(comps)}')
            outcome = 'dec:json-differs'
    return outcome, True, viols


# ------------------------------------------------------------------------------------------------
# the enumerated space
# ------------------------------------------------------------------------------------------------

OPS_NUM = ['=', '>', '<', '>=', '<=', '!=', 'true', 'false']
OPS_BIT = ['', '!', '=', '!=']
RDS = [None, '65000:1']

ANCHOR6 = [fs.DEST, ['2001:db8::', 32, 0]]


def _cls(ctype: int, afi: int, named: bool = False) -> str:
    """Signature class of a single-component case: coarse (value width class), so that one root cause
    gives a handful of signatures; the keyword is in the witness text."""
    kw = fs.KEYWORD[afi][ctype]
    if named:
        if afi == 2 and ctype in (fs.ICMP_TYPE, fs.ICMP_CODE):
            return 'icmp-name-in-ipv6-flow'
        return f'{kw}-name'
    if ctype in fs.NUMERIC:
        return f'numeric{max(fs.WIDTHS[ctype])}'
    if ctype in fs.BITMASK:
        return 'bitmask'
    return 'prefix4' if afi == 1 else 'prefix6'


def value_alphabet(ctype: int, afi: int):
    """(valid boundary values, first value beyond the component's range)"""
    top = fs.max_value(ctype, afi)
    # (bitmask components: the first value with a bit outside the defined ones - RFC 8955 4.2.2.9 / 4.2.2.12 want those bits zero)
    if ctype == fs.TCP_FLAGS:
        return [0x01, 0x12, 0x80, 0x100, 0x101], top + 1
    if ctype == fs.FRAGMENT:
        return [0x01, 0x02, 0x04, 0x08, 0x0A], top + 1
    vals = sorted({v for v in (0, 255, 256, 65535, 65536, top) if v <= top})
    return vals, top + 1


def short_alphabet(ctype: int, afi: int):
    vals, _ = value_alphabet(ctype, afi)
    if ctype in fs.BITMASK:
        return [vals[1], vals[3]] if ctype == fs.TCP_FLAGS else [vals[1], vals[4]]
    top = fs.max_value(ctype, afi)
    return [255, 256] if top >= 256 else [0, top]


REP = {
    fs.PROTO: ([[0, '=', 6]], [[0, '=', 6], [0, '=', 17]]),
    fs.PORT: ([[0, '=', 25]], [[0, '>=', 137], [1, '<=', 139], [0, '=', 8080]]),
    fs.DPORT: ([[0, '=', 80]], [[0, '>', 1024], [1, '<', 2000]]),
    fs.SPORT: ([[0, '>', 1024]], [[0, '!=', 80], [0, '!=', 8080]]),
    fs.ICMP_TYPE: ([[0, '=', 8]], [[0, '=', 3], [0, '=', 11]]),
    fs.ICMP_CODE: ([[0, '=', 0]], [[0, '>=', 1], [1, '<=', 3]]),
    fs.TCP_FLAGS: ([[0, '', 2]], [[0, '=', 0x12], [1, '!', 4], [0, '', 0x100]]),
    fs.PKT_LEN: ([[0, '<', 64]], [[0, '>', 200], [1, '<', 300], [0, '>', 400], [1, '<', 1500]]),
    fs.DSCP: ([[0, '=', 10]], [[0, '=', 10], [0, '=', 46]]),
    fs.FRAGMENT: ([[0, '', 2]], [[0, '=', 4], [0, '!', 8]]),
    fs.FLOW_LABEL: ([[0, '=', 5]], [[0, '>', 255], [1, '<', 70000]]),
}
REP_PREFIX = {
    1: {fs.DEST: (['192.0.2.0', 24], ['10.128.0.0', 9]), fs.SRC: (['203.0.113.0', 24], ['198.51.100.1', 32])},
    2: {fs.DEST: (['2001:db8::', 32, 0], ['2001:db8:8000::', 33, 0]), fs.SRC: (['2001:db8:1::', 48, 0], ['::1', 128, 0])},
}


def rep(afi: int, ctype: int, which: int):
    if ctype in fs.PREFIX:
        return REP_PREFIX[afi][ctype][which]
    return REP[ctype][which]


def types_of(afi: int):
    return sorted(fs.DEFINED[afi])


def _anchored(afi: int, ctype: int, payload):
    comps = [[ctype, payload]]
    if afi == 2:
        comps.append(ANCHOR6)
    return comps


# every block is (name, args...) -> a finite list of cases; a case is a JSON-able dict
#   {'k': 'enc', 'rule': .., 'path': .., 'style': .., 'cls': .., 'either': bool}
#   {'k': 'enc', 'gen': ['long', total, shape], 'path': .., ...}
#   {'k': 'dec', 'afi': .., 'vpn': .., 'nlri': hex, 'cls': ..}


def blocks(tier: str):
    out = []
    thorough = tier == 'thorough'
    for afi in (1, 2):
        for ctype in types_of(afi):
            if ctype in fs.PREFIX:
                continue
            nops = len(OPS_NUM if ctype in fs.NUMERIC else OPS_BIT)
            out.append(('ops', afi, ctype, 1, 0))
            for first in range(nops):
                out.append(('ops', afi, ctype, 2, first))
            for first in range(nops):
                out.append(('ops', afi, ctype, 3, first))
            out.append(('unbracketed', afi, ctype))
        out.append(('prefix', afi))
        for k in (1, 2, 3) + ((4,) if thorough else ()):
            nchunks = {1: 1, 2: 4, 3: 32, 4: 64}[k]
            for chunk in range(nchunks):
                out.append(('multi', afi, k, chunk, nchunks))
        out.append(('rd', afi))
        out.append(('actions', afi, 'single'))
        out.append(('actions', afi, 'pairs'))
        for k in (1, 2) + ((3,) if thorough else ()):
            nchunks = {1: 1, 2: 8, 3: 64}[k]
            for chunk in range(nchunks):
                out.append(('dec-mut', afi, k, chunk, nchunks))
    out.append(('mixed',))
    out.append(('v6-no-prefix',))
    for total in (239, 240, 241, 255, 256, 4094, 4095, 4096):
        out.append(('long', total))
    return out


def gen_rule(gen):
    """Rules too long to store in a case are regenerated from a descriptor."""
    if gen[0] == 'long':
        _, total, shape = gen
        fixed = 1
        comps = []
        rd = None
        if shape == 'vpn-dest-port':
            rd = '65000:1'
            comps.append([fs.DEST, ['192.0.2.0', 24]])
            fixed += 8 + 5
        rest = total - fixed
        b = rest % 2
        a = (rest - 3 * b) // 2
        ops = [[0, '=', 1 + (i % 255)] for i in range(a)] + [[0, '=', 256 + i] for i in range(b)]
        comps.append([fs.PORT, ops])
        return {'afi': 1, 'rd': rd, 'comps': comps, 'actions': [['discard']]}
    raise ValueError(gen)


def case_rule(case):
    return case['rule'] if 'rule' in case else gen_rule(case['gen'])


def _enc(rule, path, cls, style=None, either=False):
    return {'k': 'enc', 'rule': rule, 'path': path, 'style': style or {}, 'cls': cls, 'either': either}


def cases(block, tier: str):
    name = block[0]
    thorough = tier == 'thorough'
    if name == 'ops':
        _, afi, ctype, length, first = block
        numeric = ctype in fs.NUMERIC
        ops = OPS_NUM if numeric else OPS_BIT
        cls = _cls(ctype, afi)
        valid, beyond = value_alphabet(ctype, afi)
        if length == 1:
            vals = valid + ([beyond] if beyond is not None else [])
            for op in ops:
                for val in vals:
                    rule = {'afi': afi, 'rd': None, 'comps': _anchored(afi, ctype, [[0, op, val]]), 'actions': [['discard']]}
                    for path in PATHS:
                        for style in ({'bracket': 'min'}, {'bracket': 'always'}, {'bracket': 'min', 'names': True},
                                      {'bracket': 'min', 'bare_eq': True}):
                            if style.get('bare_eq') and not (numeric and op == '='):
                                continue
                            if style.get('names') and fs.value_text(ctype, afi, val, True) == fs.value_text(ctype, afi, val, False):
                                continue
                            yield _enc(rule, path, cls if not style.get('names') else _cls(ctype, afi, True), style)
            if fs.name_table(ctype, afi) and numeric:
                # every name of the vocabulary, once
                for nm, val in sorted(fs.name_table(ctype, afi).items()):
                    if val in vals:
                        continue
                    rule = {'afi': afi, 'rd': None, 'comps': _anchored(afi, ctype, [[0, '=', val]]), 'actions': [['discard']]}
                    for path in PATHS:
                        yield _enc(rule, path, _cls(ctype, afi, True), {'bracket': 'min', 'names': True})
            return
        if length == 2:
            vals = valid + ([beyond] if beyond is not None else [])
            paths = PATHS
            combos = itertools.product(ops, (0, 1), vals, vals)
            for op2, join, v1, v2 in combos:
                rule = {'afi': afi, 'rd': None, 'comps': _anchored(afi, ctype, [[0, ops[first], v1], [join, op2, v2]]),
                        'actions': [['discard']]}
                for path in paths:
                    yield _enc(rule, path, cls, {'bracket': 'min'})
            return
        # quick: the two values around the 1/2 octet boundary, API entry point; thorough: every valid boundary
        # value through both API entry points, and the quick alphabet through the (5x slower) configuration
        short = short_alphabet(ctype, afi)
        vals = valid if thorough else short
        for op2, op3, j2, j3 in itertools.product(ops, ops, (0, 1), (0, 1)):
            for v1, v2, v3 in itertools.product(vals, repeat=3):
                rule = {'afi': afi, 'rd': None,
                        'comps': _anchored(afi, ctype, [[0, ops[first], v1], [j2, op2, v2], [j3, op3, v3]]),
                        'actions': [['discard']]}
                if not thorough:
                    paths = ('api',)
                elif v1 in short and v2 in short and v3 in short:
                    paths = PATHS
                else:
                    paths = ('api', 'line')
                for path in paths:
                    yield _enc(rule, path, cls, {'bracket': 'min'})
        return
    if name == 'unbracketed':
        # several OR tokens written after the keyword without [ ]: the text is accepted or not, but if it is
        # accepted it says all of them
        _, afi, ctype = block
        ops = OPS_NUM if ctype in fs.NUMERIC else OPS_BIT
        a, b = short_alphabet(ctype, afi)
        for op1, op2 in itertools.product(ops, repeat=2):
            for tail in ([], [[1, ops[0], b]]):
                payload = [[0, op1, a], [0, op2, b]] + tail
                rule = {'afi': afi, 'rd': None, 'comps': _anchored(afi, ctype, payload), 'actions': [['discard']]}
                for path in PATHS:
                    yield _enc(rule, path, 'unbracketed-list', {'bracket': 'never'}, either=True)
        return
    if name == 'prefix':
        (_, afi) = block
        if afi == 1:
            good = [['0.0.0.0', 0], ['128.0.0.0', 1], ['10.0.0.0', 8], ['10.1.2.3', 8], ['10.128.0.0', 9], ['10.255.0.0', 9],
                    ['192.0.2.0', 24], ['192.0.2.128', 25], ['192.0.2.255', 25], ['192.0.2.1', 32], ['255.255.255.255', 32]]
            bad = [['10.0.0.0', 33]]
        else:
            good = [['::', 0, 0], ['2001:db8::', 32, 0], ['2001:db8:8000::', 33, 0], ['2001:db8:1:2::', 64, 0], ['::1', 128, 0],
                    ['2001:db8::ffff', 32, 0]]
            bad = [['2001:db8::', 129, 0]]
        for ctype in (fs.DEST, fs.SRC):
            for p in good + bad:
                rule = {'afi': afi, 'rd': None, 'comps': [[ctype, p]], 'actions': [['discard']]}
                for path in PATHS:
                    yield _enc(rule, path, 'prefix4' if afi == 1 else 'prefix6')
        for d, s in itertools.product(good, repeat=2):
            for order in (0, 1):
                comps = [[fs.DEST, d], [fs.SRC, s]]
                rule = {'afi': afi, 'rd': None, 'comps': comps[::-1] if order else comps, 'actions': [['discard']]}
                for path in PATHS:
                    yield _enc(rule, path, 'prefix4' if afi == 1 else 'prefix6')
        if afi == 2:
            # RFC 8956 3.1: offsets
            offs = [['::1234:5678:9a00:0', 104, 64], ['::1234:5678:9a00:0', 104, 65], ['2001:db8::', 32, 8], ['2001:db8::', 32, 16],
                    ['2001:db8::', 32, 31], ['2001:db8::', 32, 1], ['::1', 128, 120], ['::1', 128, 127], ['2001:db8:1:2::', 64, 48]]
            badoffs = [['2001:db8::', 32, 32], ['2001:db8::', 32, 40]]
            for ctype in (fs.DEST, fs.SRC):
                for p in offs + badoffs:
                    rule = {'afi': 2, 'rd': None, 'comps': [[ctype, p]], 'actions': [['discard']]}
                    for path in PATHS:
                        yield _enc(rule, path, 'prefix6:offset>0')
            for d in offs:
                rule = {'afi': 2, 'rd': '65000:1', 'comps': [[fs.DPORT, [[0, '=', 80]]], [fs.DEST, d], [fs.SRC, ['2001:db8::', 32, 0]]],
                        'actions': [['discard']]}
                for path in PATHS:
                    yield _enc(rule, path, 'prefix6:offset>0')
        return
    if name == 'multi':
        _, afi, k, chunk, nchunks = block
        idx = -1
        for subset in itertools.combinations(types_of(afi), k):
            idx += 1
            if idx % nchunks != chunk:
                continue
            choices = (0, 1) if k <= 3 else (0,)
            for order in itertools.permutations(subset):
                for which in itertools.product(choices, repeat=k):
                    comps = [[t, rep(afi, t, w)] for t, w in zip(order, which)]
                    for rd in RDS:
                        rule = {'afi': afi, 'rd': rd, 'comps': comps, 'actions': [['discard']]}
                        if afi == 2 and not (set(subset) & fs.PREFIX):
                            # the api and conf texts carry no family: without an IPv6 prefix only the
                            # one-line form can say ipv6
                            paths = ('line',)
                        else:
                            paths = PATHS
                        for path in paths:
                            yield _enc(rule, path, 'multi')
        return
    if name == 'rd':
        (_, afi) = block
        base = [[[fs.SRC, rep(afi, fs.SRC, 0)]], [[fs.DPORT, REP[fs.DPORT][1]], [fs.DEST, rep(afi, fs.DEST, 0)]]]
        for rd in ['65000:1', '1.2.3.4:5', '4200000000:5', '0:0', '65535:4294967295', '255.255.255.255:65535', '65536:65535']:
            for comps in base:
                rule = {'afi': afi, 'rd': rd, 'comps': comps, 'actions': [['discard']]}
                for path in PATHS:
                    yield _enc(rule, path, 'rd')
        return
    if name == 'actions':
        _, afi, mode = block
        comps = [[fs.DEST, rep(afi, fs.DEST, 0)], [fs.DPORT, [[0, '=', 80]]]]
        singles = [['discard'], ['rate-limit', 0], ['rate-limit', 9600], ['rate-limit', 1250000000], ['rate-limit', 16777217],
                   ['rate-limit-packets', 1000], ['redirect-as', 65000, 100], ['redirect-as', 65535, 4294967295],
                   ['redirect-as', 65536, 7], ['redirect-as', 4200000000, 65535], ['redirect-nh', '1.2.3.4'],
                   ['redirect-to-nexthop'], ['copy', '1.2.3.4'], ['mark', 0], ['mark', 10], ['mark', 63],
                   ['action', 'sample'], ['action', 'terminal'], ['action', 'sample-terminal'],
                   ['redirect-ietf', '1.2.3.4'], ['redirect-ietf', '2001:db8::1'], ['accept']]
        soft = [['redirect-ip', '1.2.3.4', 5678]]
        bad = [['mark', 64], ['redirect-as', 65536, 65536], ['redirect-as', 4294967296, 1]]
        if mode == 'single':
            for rd in RDS:
                for act in singles + soft + bad:
                    rule = {'afi': afi, 'rd': rd, 'comps': comps, 'actions': [act]}
                    for path in PATHS:
                        yield _enc(rule, path, f'action:{act[0]}', either=act in soft)
            return
        kinds = {'discard': 'rate', 'rate-limit': 'rate', 'rate-limit-packets': 'ratep', 'redirect-as': 'redirect',
                 'redirect-nh': 'nh', 'redirect-to-nexthop': 'nh', 'copy': 'nh', 'mark': 'mark', 'action': 'action',
                 'redirect-ietf': 'ietf', 'accept': 'accept'}
        pool = [['discard'], ['rate-limit', 9600], ['rate-limit-packets', 1000], ['redirect-as', 65000, 100], ['redirect-as', 65536, 7],
                ['redirect-to-nexthop'], ['copy', '1.2.3.4'], ['mark', 10], ['action', 'sample-terminal'], ['action', 'sample']]
        for a, b in itertools.permutations(pool, 2):
            if kinds[a[0]] == kinds[b[0]]:
                continue
            rule = {'afi': afi, 'rd': None, 'comps': comps, 'actions': [a, b]}
            for path in PATHS:
                yield _enc(rule, path, 'action-pair')
        return
    if name == 'mixed':
        v4 = {fs.DEST: ['192.0.2.0', 24], fs.SRC: ['203.0.113.0', 24]}
        v6 = {fs.DEST: ['2001:db8::', 32, 0], fs.SRC: ['2001:db8:1::', 48, 0]}
        for a4 in (fs.DEST, fs.SRC):
            a6 = fs.SRC if a4 == fs.DEST else fs.DEST
            for afi in (1, 2):
                for order in (0, 1):
                    comps = [[a4, v4[a4]], [a6, v6[a6]]]
                    rule = {'afi': afi, 'rd': None, 'comps': comps[::-1] if order else comps, 'actions': [['discard']]}
                    for path in PATHS:
                        yield _enc(rule, path, 'mixed-family-prefixes')
        return
    if name == 'v6-no-prefix':
        for ctype in (fs.PROTO, fs.DSCP, fs.FLOW_LABEL):
            for val in (5, 200):
                rule = {'afi': 2, 'rd': None, 'comps': [[ctype, [[0, '=', val]]]], 'actions': [['discard']]}
                for path in PATHS:
                    yield _enc(rule, path, 'ipv6-keyword-without-ipv6-prefix', either=True)
        return
    if name == 'long':
        (_, total) = block
        for shape in ('port', 'vpn-dest-port'):
            for path in PATHS:
                yield {'k': 'enc', 'gen': ['long', total, shape], 'path': path, 'style': {'bracket': 'always'},
                       'cls': f'nlri-length-{total}', 'either': False}
        return
    if name == 'dec-mut':
        _, afi, k, chunk, nchunks = block
        idx = -1
        for subset in itertools.combinations(types_of(afi), k):
            idx += 1
            if idx % nchunks != chunk:
                continue
            for which in itertools.product((0, 1), repeat=k) if k < 3 else [(0,) * k, (1,) * k]:
                comps = [[t, rep(afi, t, w)] for t, w in zip(subset, which)]
                for rd in RDS:
                    yield from mutations({'afi': afi, 'rd': rd, 'comps': comps})
        return
    raise ValueError(block)


UNDEFINED_TYPES = {1: (0, 13, 14, 255), 2: (0, 14, 255)}


def _split_components(afi: int, value: bytes, vpn: bool):
    """Offsets of each component inside an NLRI value the reference encoded itself."""
    bounds = []
    pos = 8 if vpn else 0
    while pos < len(value):
        start = pos
        ctype = value[pos]
        pos += 1
        if ctype in fs.PREFIX:
            if afi == 1:
                pos += 1 + (value[pos] + 7) // 8
            else:
                pos += 2 + (value[pos] - value[pos + 1] + 7) // 8
            bounds.append((start, pos, ctype, []))
            continue
        opos = []
        while True:
            b = value[pos]
            opos.append(pos)
            pos += 1 + (1 << ((b >> 4) & 3))
            if b & 0x80:
                break
        bounds.append((start, pos, ctype, opos))
    return bounds


def mutations(rule):
    """Decode-direction family around one reference-encoded rule."""
    afi, vpn = rule['afi'], bool(rule['rd'])
    value = fs.encode_value(rule)
    n = len(value)

    def dec(body: bytes, cls: str, length=None):
        hdr = fs.encode_length(len(body) if length is None else length)
        return {'k': 'dec', 'afi': afi, 'vpn': vpn, 'nlri': (hdr + body).hex(), 'cls': cls}

    yield dec(value, 'canonical')
    # the same NLRI with a two-octet length although it is below 240 ("can be encoded as a single octet")
    yield {'k': 'dec', 'afi': afi, 'vpn': vpn, 'nlri': (struct.pack('!H', 0xF000 | n) + value).hex(), 'cls': 'two-octet-length-below-240'}
    if vpn and n - 8 < 8:
        # the rule of another SAFI under flow-vpn: no room for the 8 octet route distinguisher (RFC 8955 8)
        yield dec(value[8:], 'flow-vpn-without-rd')
    for cut in range(n):
        yield dec(value[:cut], 'truncated')  # framed: the length says `cut`
        yield dec(value[:cut], 'truncated-attribute', length=n)  # the attribute ends before the NLRI does
    bounds = _split_components(afi, value, vpn)
    edges = [b[0] for b in bounds] + [n]
    for t in UNDEFINED_TYPES[afi]:
        for e in edges:
            yield dec(value[:e] + bytes([t, 0x81, 0x00]) + value[e:], 'undefined-type')
        for start, end, ctype, opos in bounds:
            yield dec(value[:start] + bytes([t]) + value[start + 1 :], 'undefined-type')
    for start, end, ctype, opos in bounds:
        for i, p in enumerate(opos):
            for bit in ((0x08,) if ctype in fs.NUMERIC else (0x04, 0x08)):
                yield dec(value[:p] + bytes([value[p] | bit]) + value[p + 1 :], 'reserved-operator-bits')
            if i == 0:
                yield dec(value[:p] + bytes([value[p] | 0x40]) + value[p + 1 :], 'and-bit-on-first-operator')
            if i == len(opos) - 1:
                # end-of-list missing on the last operator: the list runs into what follows
                yield dec(value[:p] + bytes([value[p] & 0x7F]) + value[p + 1 :], 'missing-end-of-list')
            w = 1 << ((value[p] >> 4) & 3)
            val = value[p + 1 : p + 1 + w]
            for wider in (2, 4, 8):
                if wider <= w:
                    continue
                nb = (value[p] & 0xCF) | ({2: 1, 4: 2, 8: 3}[wider] << 4)
                cls = 'wider-value-allowed-width' if wider in fs.WIDTHS[ctype] else 'wider-value-undefined-width'
                yield dec(value[:p] + bytes([nb]) + bytes(wider - w) + val + value[p + 1 + w :], cls)
    if len(bounds) > 1:
        # descending order and a repeated component: malformed by RFC 8955 4.2, outside the property statement;
        # only checked for "nothing dropped"
        parts = [value[s:e] for s, e, _, _ in bounds]
        head = value[:8] if vpn else b''
        yield dec(head + b''.join(parts[::-1]), 'components-out-of-order')


# ------------------------------------------------------------------------------------------------
# running
# ------------------------------------------------------------------------------------------------


def run_case(case):
    if case['k'] == 'enc':
        rule = case_rule(case)
        return eval_encode(rule, case['path'], case['style'], case['cls'], case.get('either', False))
    return eval_decode(case['afi'], case['vpn'], bytes.fromhex(case['nlri']), case['cls'])


def _block_worker(args):
    block, tier = args
    ctx = core.Ctx(PROPERTY, tier, 0)
    decoded = set()
    seen_nontrivial = set()
    for case in cases(block, tier):
        outcome, nontrivial, viols = run_case(case)
        ctx.count('executions')
        ctx.count(f'{case["k"]}:{block[0]}')
        ctx.add_to_set('outcomes', outcome)
        if nontrivial:
            key = core.digest(case)
            if key not in seen_nontrivial:
                seen_nontrivial.add(key)
                ctx.count('nontrivial')
        for sig, what in viols:
            ctx.violation(sig, what, case)
        if case['k'] == 'enc':
            # decode direction on every rule of the encode layers, once per rule: its reference encoding
            rule = case_rule(case)
            if expectation(rule)[0] != 'ok':
                continue
            key = core.digest([rule['afi'], rule.get('rd'), rule['comps']])
            if key in decoded:
                continue
            decoded.add(key)
            data = fs.encode_nlri(rule)
            dcls = 'canonical:' + case['cls']
            if block[0] == 'long':
                dcls = 'canonical:nlri-length-below-256' if block[1] < 256 else 'canonical:nlri-length-256-or-more'
            dcase = {'k': 'dec', 'afi': rule['afi'], 'vpn': bool(rule.get('rd')), 'nlri': data.hex(), 'cls': dcls}
            if len(data) > 300:
                dcase = {'k': 'dec-gen', 'gen': case['gen'], 'cls': dcls}
            outcome, nontrivial, viols = eval_decode(rule['afi'], bool(rule.get('rd')), data, dcls)
            ctx.count('executions')
            ctx.count(f'dec:{block[0]}')
            ctx.add_to_set('outcomes', outcome)
            if nontrivial:
                ctx.count('nontrivial')
            for sig, what in viols:
                ctx.violation(sig, what, dcase)
    res = ctx.shard_result()
    res['block'] = block
    return res


def run(ctx: core.Ctx) -> None:
    n = fs.selftest()
    ctx.coverage_extra['reference_selftest_vectors'] = n
    ctx.rule = (
        'full product of small alphabets over abstract FlowSpec rules: every component type singly with operator lists of '
        'length 1-3 over {= > < >= <= != true false} (bitmask: {any, not, match, not-match}) x AND/OR x values at every width '
        'boundary (0 255 256 65535 65536 2^20-1, and the first value beyond the range); all 1/2/3-subsets of component types '
        '(thorough: 4-subsets) in every textual order x 2 payloads x RD absent/present; IPv4/IPv6 prefixes incl. offsets; RD forms; '
        'traffic actions singly and in ordered pairs; port lists padding the NLRI to 239 240 241 255 256 4094 4095 4096 octets; each '
        'pushed through 3 text entry points (API flow route, API one-line family syntax, configuration). Decode: every reference encoding '
        'of the above plus, around every 1/2-subset (thorough: 3-subset) rule, truncation at every offset (framed and unframed), '
        'undefined component types at every position, reserved operator bits, AND on the first operator, missing end-of-list, '
        'wider value encodings, reversed component order. A case is non-trivial when ExaBGP produced output that was compared '
        'with the reference (text accepted and packed / NLRI delivered or required to be refused); refused texts are trivial'
    )
    ctx.assumptions += [
        'vt/ref/flowspec.py is the RFC 8955/8956 oracle (golden vectors: RFC 8955 4.3 examples 1-3, RFC 8956 3.8 examples 2-3)',
        'tolerated sender freedom: flow-label values in 1/2/4 octets or always 4 (RFC 8956 3.7 SHOULD); prefix bits beyond the length',
        'decode tolerance: input the RFC frowns upon but that has one reading (reserved bits, AND on first operator, undefined value width, '
        'component order) may be refused or delivered as exactly that reading',
        'type 11 in IPv6 flows (`traffic-class`) is allowed the whole octet',
        'entry points are called as the daemon calls them (dispatch_v4 -> announce_flow -> API.api_flow(command); Protocol.read_message -> Message.unpack + Update.parse)',
    ]
    todo = [(b, ctx.tier) for b in blocks(ctx.tier)]
    if ctx.seed:
        k = ctx.seed % len(todo)
        todo = todo[k:] + todo[:k]
    # biggest blocks first keeps the pool busy; the order of merging is the block order, independent of timing
    order = sorted(range(len(todo)), key=lambda i: (-_weight(todo[i][0], ctx.tier), i))
    pool = mp.Pool(min(16, os.cpu_count() or 1))
    try:
        results = pool.map(_block_worker, [todo[i] for i in order], chunksize=1)
    finally:
        pool.close()
        pool.join()
    by_index = dict(zip(order, results))
    per_layer: dict = {}
    for i in range(len(todo)):
        res = by_index[i]
        ctx.merge(res)
        per_layer[res['block'][0]] = per_layer.get(res['block'][0], 0) + res['counters'].get('executions', 0)
    ctx.coverage_extra['executions_per_layer'] = dict(sorted(per_layer.items()))
    ctx.coverage_extra['blocks'] = len(todo)
    ctx.coverage_extra['outcomes'] = sorted(ctx.coverage_extra.get('_sets', {}).get('outcomes', ()))
    for s in _samples():
        ctx.sample(s, limit=8)


def _weight(block, tier):
    name = block[0]
    if name == 'ops':
        return {1: 1, 2: 20, 3: 400 if tier == 'thorough' else 60}[block[3]]
    if name == 'multi':
        return {1: 1, 2: 10, 3: 30, 4: 40}[block[2]]
    if name == 'dec-mut':
        return {1: 2, 2: 30, 3: 60}[block[2]]
    if name == 'long':
        return 50 if block[1] > 4000 else 2
    return 5


def _samples():
    out = []
    for block in (('ops', 1, fs.DPORT, 3, 1), ('multi', 2, 3, 5, 32), ('actions', 1, 'pairs'), ('dec-mut', 1, 2, 3, 8)):
        for i, case in enumerate(cases(block, 'quick')):
            if i == 7:
                if case['k'] == 'enc':
                    rule = case_rule(case)
                    out.append({'text': fs.render(rule, case['path'], case['style']), 'reference_nlri': fs.encode_nlri(rule).hex(),
                                'entry': case['path']})
                else:
                    out.append(case)
                break
    return out


def replay(case):
    if case['k'] == 'dec-gen':
        rule = gen_rule(case['gen'])
        _, _, viols = eval_decode(rule['afi'], bool(rule.get('rd')), fs.encode_nlri(rule), case['cls'])
    else:
        _, _, viols = run_case(case)
    return [{'signature': s, 'what': w} for s, w in viols]
