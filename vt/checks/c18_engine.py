"""C18 machinery: rendering, the three entry points, encoding under every session, the oracle, sharding."""

from __future__ import annotations

import itertools
import multiprocessing as mp
import os
import signal
import tempfile

from vt import core, exa
from vt.checks import c01
from vt.checks import c18_tables as T
from vt.ref import flowvpls, wire

LOCAL_ADDR4 = '127.0.0.1'
EXTRA_FAMILIES = [(1, 133), (2, 133), (1, 134), (2, 134), (25, 65)]
HANDLED_BY_CALLBACK = (ValueError, IndexError)   # what every announce_* callback answers `error` for by name
HANG_LIMIT_S = float(os.environ.get('C18_HANG_LIMIT_S', '5'))   # the slowest legitimate parse (1100 list members) takes ~0.5 s


class Hang(BaseException):
    """raised by the alarm inside an entry point which does not return (BaseException: `except Exception` must not eat it)"""


def _guarded_once(limit, fn, args):
    def on_alarm(signum, frame):
        raise Hang()
    # CPU time of this process, not wall time: an endless loop burns CPU whatever the load of the machine is
    old = signal.signal(signal.SIGPROF, on_alarm)
    signal.setitimer(signal.ITIMER_PROF, limit)
    try:
        return fn(*args)
    finally:
        signal.setitimer(signal.ITIMER_PROF, 0)
        signal.signal(signal.SIGPROF, old)


def guarded(fn, *args):
    """run an entry point; Hang if it burns HANG_LIMIT_S of CPU, and again three times that on a second attempt"""
    try:
        return _guarded_once(HANG_LIMIT_S, fn, args)
    except Hang:
        reset_state()
        return _guarded_once(3 * HANG_LIMIT_S, fn, args)


# ---------------------------------------------------------------------------------------------
# sessions: iBGP/eBGP x ASN4 on/off x ADD-PATH on/off x 4096/65535
# ---------------------------------------------------------------------------------------------
SESSIONS = [dict(local_as=65001, peer_as=peer, our_asn4=True, peer_asn4=a4, addpath=ap, extnh=False, extmsg=em, aigp=True)
            for peer in (65001, 65002) for a4 in (True, False) for ap in (False, True) for em in (False, True)]
QUICK_SESSIONS = [0, 3, 5, 6, 9, 10, 12, 15]   # every value of every dimension, every pair of dimensions covered at least once
QUICK_PAIR_SESSIONS = [0, 6, 9, 15]            # every value of every dimension
CONFIG_SESSION = 8   # eBGP, ASN4, no ADD-PATH, 4096: the neighbor written in the configuration file


def session_text(s):
    t = c01.session_text(s)
    a = 'ipv6 mpls-vpn; }'
    if a not in t:
        raise core.HarnessError('c01.NEIGHBOR changed: family line not found')
    return t.replace(a, 'ipv6 mpls-vpn; ipv4 flow; ipv6 flow; ipv4 flow-vpn; ipv6 flow-vpn; l2vpn vpls; }')


def peer_open(s):
    addpath = [(a, sa, 1) for a, sa in c01.ADDPATH_FAMS] if s['addpath'] else None
    return exa.peer_open_body(s['peer_as'], c01.FAMILIES + EXTRA_FAMILIES, asn4=s['peer_asn4'], addpath=addpath, ext_msg=s['extmsg'])


_S = {}
_API = None


def reset_state():
    exa.reset_process_state()
    exa.reset_value_caches()


def get_session(idx):
    if idx not in _S:
        reset_state()
        cfg, neighbor = exa.neighbor_from_text(session_text(SESSIONS[idx]))
        neg = exa.negotiated_for(neighbor, peer_open(SESSIONS[idx]))
        _S[idx] = (neighbor, neg)
        reset_state()
    return _S[idx]


def get_api():
    global _API
    if _API is None:
        from exabgp.configuration.configuration import Configuration
        from exabgp.reactor.api import API

        _API = API.__new__(API)
        _API.configuration = Configuration([])
        _API.reactor = None
    return _API


# ---------------------------------------------------------------------------------------------
# rendering
# ---------------------------------------------------------------------------------------------
def _keywords(g):
    ks = set()
    for _, t in g.segments:
        ks.add(t.split()[0])
    for d in g.devs:
        if d.text:
            ks.add(d.text.split()[0])
    ks.discard('route')
    ks.discard('attributes')
    ks.discard('vpls')
    ks.discard('ipv4')
    ks.discard('ipv6')
    ks.update(('label', 'rd', 'route-distinguisher'))
    return ks


_KW = {}


def statements(g, text):
    """split `kw value kw value` into statements at keyword tokens outside brackets"""
    ks = _KW.setdefault(g.name, _keywords(g))
    out, cur, depth = [], [], 0
    for tok in text.split():
        if depth == 0 and tok in ks and cur and not (len(cur) == 1 and cur[0] in ('name', 'watchdog')):
            out.append(' '.join(cur))
            cur = []
        cur.append(tok)
        if tok in ('[', '('):
            depth += 1
        elif tok in (']', ')') and depth:
            depth -= 1
    if cur:
        out.append(' '.join(cur))
    return out


def layout(g, devs):
    """-> (segments [(name, text)] after replacement, appended [Dev], tail [Dev])"""
    segs = list(g.segments)
    appended, tail = [], []
    for d in devs:
        if d.post is not None and d.text is None:
            continue
        if d.seg is not None and any(n == d.seg for n, _ in segs):
            if d.text is None:
                segs = [(n, t) for n, t in segs if n != d.seg]
            elif d.tail:
                segs = [(n, t) for n, t in segs if n != d.seg]
                tail.append(d)
            else:
                segs = [(n, d.text if n == d.seg else t) for n, t in segs]
        elif d.text is None:
            continue
        elif d.tail:
            tail.append(d)
        else:
            appended.append(d)
    return segs, appended, tail


def render(g, form, devs):
    """-> the definition as the API takes it (no `announce`), and as a configuration section"""
    segs, appended, tail = layout(g, devs)
    kind = 'flow' if g.name == 'flow' else 'vpls' if g.name == 'vpls' else 'fam' if g.name.startswith('fam') else 'attributes' if g.name == 'attributes' else 'route'
    if kind == 'flow':
        blocks = {'top': [], 'match': [], 'then': []}
        for n, t in segs:
            blocks['match' if n == 'destination' else 'then'].append(t)
        for d in appended + ([] if form == 'flat' else tail):
            for st in statements(g, d.text):
                blocks[d.block or 'match'].append(st)
        if form == 'flat':
            api = ' '.join(['route'] + blocks['top'] + blocks['match'] + blocks['then'] + [d.text for d in tail])
            for d in devs:
                if d.post:
                    api = d.post(api)
            return 'flow ' + api, None
        inner = ''.join(f'{x} ; ' for x in blocks['top']) + 'match { ' + ''.join(f'{x} ; ' for x in blocks['match']) + '} then { ' + ''.join(f'{x} ; ' for x in blocks['then']) + '}'
        api, cfg = 'route { ' + inner + ' }', 'route r1 { ' + inner + ' }'
        for d in devs:
            if d.post:
                api, cfg = d.post(api), d.post(cfg)
        return 'flow ' + api, 'flow { ' + cfg + ' }'
    if form == 'nested':
        head = [t for n, t in segs if n in ('prefix', 'head')]
        body = [t for n, t in segs if n not in ('prefix', 'head')]
        for d in appended + tail:
            body += statements(g, d.text)
        if kind == 'vpls':
            txt = 'vpls site1 { ' + ''.join(f'{x} ; ' for x in body) + '}'
            return None, 'l2vpn { ' + txt + ' }'
        txt = (head[0] if head else 'route') + ' { ' + ''.join(f'{x} ; ' for x in body) + '}'
        return None, 'static { ' + txt + ' }'
    if kind == 'attributes':
        nl = [t for n, t in segs if n == 'nlri']
        flat = ' '.join([t for n, t in segs if n != 'nlri'] + [d.text for d in appended] + [d.text for d in tail if d.seg != 'nlri'] + nl + [d.text for d in tail if d.seg == 'nlri'])
    else:
        flat = ' '.join([t for _, t in segs] + [d.text for d in appended] + [d.text for d in tail])
    for d in devs:
        if d.post:
            flat = d.post(flat)
    if kind == 'route':
        return flat, 'static { ' + flat + ' ; }'
    if kind == 'vpls':
        return flat, 'l2vpn { ' + flat + ' ; }'
    if kind == 'fam':
        fam, rest = flat.split(' ', 1) if ' ' in flat else (flat, '')
        return flat, 'announce { ' + fam + ' { ' + rest + ' ; } }'
    return flat, None


# ---------------------------------------------------------------------------------------------
# entry points
# ---------------------------------------------------------------------------------------------
def _exc_text(e):
    return f'{type(e).__name__}: {str(e)[:160]}'


def api_call(g, text):
    api = get_api()
    n = g.name
    if n.startswith('route'):
        return api.api_route(text, 'announce')
    if n == 'attributes':
        return api.api_attributes(text, [], 'announce')
    if n == 'flow':
        return api.api_flow(text, 'announce')
    if n == 'vpls':
        return api.api_vpls(text, 'announce')
    if n.startswith('fam6'):
        return api.api_announce_v6(text, 'announce')
    return api.api_announce_v4(text, 'announce')


def run_api(g, text):
    """-> dict(status=accepted|refused|exception, etype, msg, routes)"""
    reset_state()
    try:
        routes = guarded(api_call, g, text)
    except Hang:
        return dict(status='hang', msg=f'no answer after {4 * HANG_LIMIT_S:g} s of CPU in two attempts', routes=None)
    except HANDLED_BY_CALLBACK as e:
        return dict(status='refused', how='raised-' + type(e).__name__, msg=_exc_text(e), routes=None)
    except Exception as e:  # noqa: BLE001
        return dict(status='exception', etype=type(e).__name__, msg=_exc_text(e), routes=None)
    if not routes:
        return dict(status='refused', how='empty', msg=str(get_api().configuration.error)[:200], routes=None)
    if g.name.startswith('route'):
        from exabgp.reactor.api.command.announce import validate_announce

        for r in routes:
            try:
                err = validate_announce(r)
            except Exception as e:  # noqa: BLE001
                return dict(status='exception', etype=type(e).__name__, msg='validate_announce: ' + _exc_text(e), routes=None)
            if err:
                return dict(status='refused', how='validate', msg=str(err)[:200], routes=None)
    return dict(status='accepted', routes=routes, msg='')


class _StubProcesses:
    def __init__(self):
        self.replies = []

    def get_sync(self, service):
        return False

    async def answer_error(self, service, message=''):
        self.replies.append(('error', str(message)))

    async def answer_done(self, service, force=False):
        self.replies.append(('done', ''))

    def answer_error_sync(self, service, message=''):
        self.replies.append(('error', str(message)))

    def answer_done_sync(self, service, force=False):
        self.replies.append(('done', ''))

    async def flush_write_queue(self):
        return None


class _StubAsync:
    def __init__(self):
        self.queue = []

    def schedule(self, uid, command, callback):
        self.queue.append(callback)


class _StubConfiguration:
    def __init__(self):
        self.announced = []

    def announce_route(self, peers, route):
        self.announced.append(route)
        return True


class StubReactor:
    def __init__(self):
        self.processes = _StubProcesses()
        self.asynchronous = _StubAsync()
        self.configuration = _StubConfiguration()
        self._peers = {}

    def peers(self, service=''):
        return ['neighbor-1']

    def established_peers(self):
        return []


def cb_command(text):
    from exabgp.environment import getenv

    return ('peer * announce ' if getenv().api.version == 6 else 'announce ') + text


def run_cb(g, text):
    """the real API.process -> dispatch -> announce_* callback; -> dict(status, msg, routes)"""
    api = get_api()
    box = {}

    def drive():
        reset_state()
        reactor = box['reactor'] = StubReactor()
        api.reactor = reactor
        api.process(reactor, 'svc', cb_command(text))
        for coro in reactor.asynchronous.queue:
            try:
                while True:
                    coro.send(None)
            except StopIteration:
                pass
    try:
        guarded(drive)
    except Hang:
        return dict(status='hang', msg=f'no answer after {4 * HANG_LIMIT_S:g} s of CPU in two attempts', routes=None)
    except Exception as e:  # noqa: BLE001
        return dict(status='exception', etype=type(e).__name__, msg='escaped the callback: ' + _exc_text(e), routes=None)
    finally:
        api.reactor = None
    reactor = box['reactor']
    rep = reactor.processes.replies
    kinds = [k for k, _ in rep]
    if kinds == ['done']:
        return dict(status='accepted', routes=list(reactor.configuration.announced), msg='')
    if kinds == ['error']:
        m = rep[0][1]
        if m.startswith('Unexpected error: '):
            et = m[len('Unexpected error: '):].split(':', 1)[0]
            return dict(status='exception', etype=et, msg=m[:200], routes=None)
        return dict(status='refused', how='error-reply', msg=m[:200], routes=None)
    return dict(status='protocol', msg=f'replies {rep!r}'[:200], routes=None)


_TMP = None


def _tmpfile():
    global _TMP
    if _TMP is None:
        d = '/dev/shm' if os.path.isdir('/dev/shm') and os.access('/dev/shm', os.W_OK) else tempfile.gettempdir()
        _TMP = os.path.join(d, f'c18-{os.getpid()}.conf')
    return _TMP


def config_text(section):
    t = session_text(SESSIONS[CONFIG_SESSION]).rstrip()
    if not t.endswith('}'):
        raise core.HarnessError('neighbor text does not end with }')
    return t[:-1] + '  ' + section + '\n}\n'


def _exception_reaching_reload(cfg):
    """The class of the last exception that propagated into Configuration.reload() (the public entry point, which turns
    both the deliberate configuration Error and anything else into the same error text), None if none did.  Observed
    with a trace function, so that no private method of Configuration has to be named."""
    import sys

    seen = []

    def tracer(frame, event, arg):
        if event == 'call':
            return tracer if '/exabgp/' in frame.f_code.co_filename else None
        if event == 'exception' and frame.f_code.co_name == 'reload' and frame.f_code.co_filename.endswith('configuration/configuration.py'):
            seen.append(arg[0])
        return tracer

    old = sys.gettrace()
    sys.settrace(tracer)
    try:
        cfg.reload()
    finally:
        sys.settrace(old)
    return seen[-1] if seen else None


def run_config(section):
    """-> dict(status=accepted|refused|exception|laundered|no-message, ...)"""
    from exabgp.configuration.configuration import Configuration
    from exabgp.configuration.core.error import Error

    path = _tmpfile()
    with open(path, 'w') as f:
        f.write(config_text(section))
    reset_state()
    try:
        cfg, ok = guarded(exa.parse_config_file, path)
    except Hang:
        return dict(status='hang', msg=f'Configuration.reload() did not return after {4 * HANG_LIMIT_S:g} s of CPU in two attempts', routes=None)
    except Exception as e:  # noqa: BLE001
        return dict(status='exception', etype=type(e).__name__, msg='escaped Configuration.reload(): ' + _exc_text(e), routes=None)
    if ok is True:
        routes = []
        for nb in cfg.neighbors.values():
            routes += list(nb.routes)
        return dict(status='accepted', routes=routes, msg='')
    msg = str(cfg.error)
    if not msg.strip() or 'line' not in msg:
        return dict(status='no-message', msg=f'reload() returned {ok!r} with error text {msg[:120]!r}', routes=None)
    if msg.startswith('problem parsing configuration file'):
        # reload() has one handler for the deliberate configuration Error and one catch-all for everything else, both writing
        # this text: find out which one it was by running what reload() runs
        reset_state()
        c2 = Configuration([path])
        under = None
        try:
            under = guarded(_exception_reaching_reload, c2)
        except Hang:
            under = None
        if under is not None:
            under = 'Error' if issubclass(under, Error) else 'ValueError' if issubclass(under, ValueError) else under.__name__
        if under not in ('Error', 'ValueError', None):
            return dict(status='laundered', etype=under, msg=msg.replace('\n', ' | ')[:200], routes=None)
    return dict(status='refused', how='located', msg=msg.replace('\n', ' | ')[:200], routes=None)


# ---------------------------------------------------------------------------------------------
# encoding an accepted definition under a session, and the expectation
# ---------------------------------------------------------------------------------------------
def encode(routes, sidx):
    from exabgp.rib.outgoing import OutgoingRIB

    neighbor, neg = get_session(sidx)
    rib = OutgoingRIB(True, neighbor.rib.outgoing.families)
    for route in routes:
        rib.add_to_rib(neighbor.resolve_self(route))
    out = []
    for upd in rib.updates(neighbor.group_updates):
        for raw in upd.messages(neg, True):
            msgs, err, rest = wire.split_stream(bytes(raw), neg.msg_size)
            if err or rest:
                raise core.HarnessError(f'unframed {err}')
            out += msgs
    return out


def build_exp(R, s):
    ibgp = s['local_as'] == s['peer_as']
    asn4 = s['our_asn4'] and s['peer_asn4']
    a = R['attrs']
    exp = {wire.ORIGIN: a.get('origin', 0)}
    if 'as-path' in a:
        path = tuple((t, tuple(x)) for t, x in a['as-path'])
        exp['path'] = [wire.merge_segments(path)]
        if not ibgp:
            exp['path'].append(wire.merge_segments(((2, (s['local_as'],)),) + path))
    else:
        exp['path'] = [()] if ibgp else [((2, (s['local_as'],)),)]
    if 'med' in a:
        exp[wire.MED] = a['med']
    if ibgp:
        exp[wire.LOCAL_PREF] = a.get('local-preference', 100)
    elif 'local-preference' in a:
        exp['lp_optional'] = a['local-preference']
    if a.get('atomic-aggregate'):
        exp[wire.ATOMIC_AGGREGATE] = True
    if 'aggregator' in a:
        exp['aggregator'] = tuple(a['aggregator'])
    if a.get('community'):
        exp[wire.COMMUNITIES] = tuple(sorted(a['community']))
    if a.get('large-community'):
        exp[wire.LARGE_COMMUNITIES] = tuple(sorted(tuple(x) for x in a['large-community']))
    ext = list(a.get('extended-community') or []) + sorted((R.get('ext') or {}).values())
    if ext:
        exp[wire.EXT_COMMUNITIES] = tuple(sorted(ext))
    if 'originator-id' in a:
        exp[wire.ORIGINATOR_ID] = a['originator-id']
    if a.get('cluster-list'):
        exp[wire.CLUSTER_LIST] = tuple(a['cluster-list'])
    if 'aigp' in a:
        exp['aigp'] = a['aigp']
    return exp, asn4, ibgp


def est_size(R, s):
    asn4 = s['our_asn4'] and s['peer_asn4']
    a = R['attrs']
    n = 23 + 64
    n += sum(len(x) for _, x in a.get('as-path', [])) * (4 if asn4 else 6)
    n += 4 * len(a.get('community') or []) + 12 * len(a.get('large-community') or []) + 8 * len(a.get('extended-community') or []) + 4 * len(a.get('cluster-list') or [])
    n += sum(len(d) // 2 + 4 for _, _, d in R['generics'])
    if R['kind'] == 'flow':
        n += sum(3 * len(v) if isinstance(v, list) else 20 for v in R['comps'].values())
    return n


def _attr_check(R, s, u):
    """attributes of one decoded UPDATE against R; -> [(sig, what)]"""
    viols = []
    exp, asn4, ibgp = build_exp(R, s)
    v = dict(u)
    v['attrs'] = dict(u['attrs'])
    raw = {code: (flags, val) for flags, code, val in u['raw_attrs']}
    sid = v['attrs'].pop(flowvpls.PREFIX_SID, None)
    if sid != R.get('sid'):
        viols.append(('attr:bgp-prefix-sid', f'Prefix-SID on the wire {sid} != written {R.get("sid")}'))
    for code, flags, data in R['generics']:
        got = v['attrs'].pop(code, None)
        rflags = raw.get(code, (None, None))[0]
        if got != data:
            viols.append(('attr:generic-data', f'attribute {code:#x}: data on the wire {str(got)[:40]} (len {len(got or "") // 2}) != written {data[:40]} (len {len(data) // 2})'))
        elif flags is not None and rflags is not None and (rflags & 0xE0) != (flags & 0xE0):
            viols.append(('attr:generic-flags', f'attribute {code:#x}: flags on the wire {rflags:#x} != written {flags:#x}'))
    v['raw_attrs'] = [x for x in u['raw_attrs'] if x[1] not in [c for c, _, _ in R['generics']]]
    viols += c01.compare_attrs(exp, v, asn4, ibgp, s)
    sk = R['skip']
    if 'as-path' in sk:
        viols = [x for x in viols if not x[0].startswith('attr:as-path') and not x[0].startswith('attr:as4') and not x[0].startswith('attr:as-trans')]
    if 'ext' in sk:
        viols = [x for x in viols if not x[0].startswith('attr:extended-community')]
    return viols


def compare(R, s, msgs):
    """-> (outcome, [(sig, what)]) ; outcome 'sent' | 'oversize-not-sent'"""
    asn4 = s['our_asn4'] and s['peer_asn4']
    ap = set(c01.ADDPATH_FAMS) if s['addpath'] else set()
    ups = []
    for mtype, body in msgs:
        if mtype != wire.UPDATE:
            return 'sent', [('non-update-emitted', f'message type {mtype} emitted')]
        try:
            ups.append(flowvpls.decode_update_x(body, asn4=asn4, addpath=ap))
        except wire.RefError as e:
            return 'sent', [(f'undecodable:{e.code}/{e.subcode}', f'reference decoder refused the emitted UPDATE: {e}')]
    if 'all' in R['skip']:
        return 'sent', []
    size = 65535 if s['extmsg'] else 4096
    carrying = [u for u in ups if u['nlri'] or u['mp_reach'] or u['flow'] or u['vpls']]
    if not carrying:
        est = est_size(R, s)
        if est > size - 150:
            return 'oversize-not-sent', []
        return 'sent', [('nothing-emitted', f'no UPDATE carries the definition (estimated size {est} of {size})')]
    viols = []
    for u in ups:
        if u['withdrawn'] or u['mp_unreach'] or u['flow_unreach'] or u['vpls_unreach']:
            viols.append(('withdraw-in-announce', 'the UPDATE for an announce carries withdrawn routes'))
    kind = R['kind']
    if kind == 'inet':
        afi = R['afi']
        labels = R['labels']
        safi = 128 if R['rd'] is not None else 4 if labels is not None else 1
        want_pid = (R['pid'] or 0) if (afi, safi) in ap else None
        rdhex = R['rd'].hex() if R['rd'] is not None else None
        want = sorted((wire.nlri_key(wire.nlri_ip(afi, safi, a, m, want_pid, labels, rdhex)), tuple(labels) if labels is not None else None) for a, m in R['prefixes'])
        got = []
        want_nh = R['nh']
        if want_nh == 'self':
            want_nh = LOCAL_ADDR4 if afi == 1 else None
        for u in carrying:
            nl = [(n, u['attrs'].get(wire.NEXT_HOP)) for n in u['nlri']]
            for mafi, msafi, mnh, nlris in u['mp_reach']:
                nl += [(n, mnh) for n in nlris]
            for n, nh in nl:
                got.append((wire.nlri_key(n), n[3]))
                ok = nh is not None and (want_nh is None or _same_ip(nh.split('+')[0], want_nh))
                if not ok and 'nexthop' not in R['skip']:
                    viols.append(('nexthop', f'next hop on the wire {nh} != written {R["nh"]}'))
            if u['flow'] or u['vpls']:
                viols.append(('nlri-family', 'a flow / vpls NLRI was emitted for an IP route'))
        got.sort(key=repr)
        if sorted(want, key=repr) != got:
            gk, wk = [x[0] for x in got], [x[0] for x in sorted(want, key=repr)]
            if len(gk) != len(wk):
                field = f'count:{"more" if len(gk) > len(wk) else "fewer"}'
            elif [k[:2] for k in gk] != [k[:2] for k in wk]:
                field = 'family'
            elif [k[2] for k in gk] != [k[2] for k in wk]:
                field = 'path-id'
            elif [k[3] for k in gk] != [k[3] for k in wk]:
                field = 'rd'
            elif gk != wk:
                field = 'prefix'
            else:
                field = 'labels'
            viols.append((f'nlri-{field}', f'NLRI on the wire {_short(got)} != written {_short(want)}'))
    elif kind == 'flow':
        fl = [(afi, safi, nh, n) for u in carrying for afi, safi, nh, ns in u['flow'] for n in ns]
        want_safi = 134 if R['rd'] is not None else 133
        want = {'rd': R['rd'].hex() if R['rd'] is not None else None, 'components': [(t, R['comps'][t]) for t in sorted(R['comps'])]}
        if len(fl) != 1:
            viols.append((f'flow-count:{len(fl)}', f'expected one flow NLRI, got {len(fl)}'))
        for afi, safi, nh, n in fl:
            if (afi, safi) != (R['afi'], want_safi):
                viols.append(('flow-family', f'flow NLRI sent as {afi}/{safi}, written {R["afi"]}/{want_safi}'))
            elif n['rd'] != want['rd']:
                viols.append(('flow-rd', f'flow rd on the wire {n["rd"]} != written {want["rd"]}'))
            elif [(t, _norm(v)) for t, v in n['components']] != [(t, _norm(v)) for t, v in want['components']]:
                viols.append(('flow-components', f'flow components on the wire {_short(n["components"])} != written {_short(want["components"])}'))
    elif kind == 'vpls':
        vl = [(nh, n) for u in carrying for nh, ns in u['vpls'] for n in ns]
        want = {'rd': R['rd'].hex(), 'endpoint': R['endpoint'], 'offset': R['offset'], 'size': R['size'], 'base': R['base']}
        if len(vl) != 1:
            viols.append((f'vpls-count:{len(vl)}', f'expected one VPLS NLRI, got {len(vl)}'))
        for nh, n in vl:
            for k in ('rd', 'endpoint', 'offset', 'size', 'base'):
                if n[k] != want[k]:
                    viols.append((f'vpls-{k}', f'VPLS {k} on the wire {n[k]} != written {want[k]}'))
            want_nh = LOCAL_ADDR4 if R['nh'] == 'self' else R['nh']
            if not _same_ip(nh, want_nh):
                viols.append(('nexthop', f'next hop on the wire {nh} != written {R["nh"]}'))
    for u in carrying:
        viols += _attr_check(R, s, u)
    return 'sent', viols


def _norm(v):
    return tuple(v) if isinstance(v, (list, tuple)) and v and not isinstance(v[0], (list, tuple)) else tuple(tuple(x) for x in v) if isinstance(v, (list, tuple)) else v


def _same_ip(a, b):
    import ipaddress
    try:
        return ipaddress.ip_address(a) == ipaddress.ip_address(b)
    except ValueError:
        return False


def _short(x):
    s = repr(x)
    return s if len(s) < 240 else s[:200] + f'... ({len(s)} chars)'


# ---------------------------------------------------------------------------------------------
# the oracle for one case
# ---------------------------------------------------------------------------------------------
def abstract(g, devs, without=None):
    """all abstract definitions the text may stand for (alternatives of `twice` deviations multiply)"""
    choices = []
    for d in devs:
        if d is without or d.eff is None:
            continue
        choices.append(d.eff if isinstance(d.eff, list) else [d.eff])
    out = []
    for combo in itertools.product(*choices):
        R = g.base()
        for eff in combo:
            eff(R)
        out.append(R)
    return out


def jointly_invalid(R):
    """two values each inside its own range that no definition can hold together (pairs of deviations reach these)"""
    if R.get('kind') == 'vpls':
        # RFC 4761 3.2.2: the block is the labels base .. base+size-1, all of them 20-bit labels
        return R['base'] + R['size'] > T.P20
    return False


def kindclass(kind):
    k = kind.split(':', 1)[0]
    return 'accepted' if k.startswith('accepted-') else k


def judge(g, path, form, devs, out, sess):
    """-> (outcome label, [(devkey|None, kind, what)])"""
    viols = []
    st = out['status']
    names = ' + '.join(d.key for d in devs) or 'base'
    if st == 'hang':
        return 'hang', [(None, 'hang', f'the entry point does not return: {out["msg"]}')]
    if st == 'exception':
        return f'exception:{out["etype"]}', [(None, f'exception:{out["etype"]}', f'unhandled {out["msg"]}')]
    if st == 'laundered':
        return f'laundered:{out["etype"]}', [(None, f'laundered:{out["etype"]}', f'Configuration.reload() catch-all reported a Python {out["etype"]} as the error: {out["msg"]}')]
    if st == 'no-message':
        return 'no-message', [(None, 'no-message', f'refused without a located message: {out["msg"]}')]
    if st == 'protocol':
        return 'protocol', [(None, 'reply-protocol', out['msg'])]
    if st == 'refused':
        if all(d.cls == 'ok' for d in devs) and not any(R.get('mixed') or jointly_invalid(R) for R in abstract(g, devs)):
            viols.append((None, 'refused-valid', f'valid definition refused ({out.get("how")}: {out["msg"]})'))
        return 'refused:' + str(out.get('how')), viols
    # accepted
    routes = out['routes']
    bad = [d for d in devs if d.cls == 'bad']
    if bad and all(d.bnd == 'without-label' for d in bad) and all('all' in R.get('skip', ()) for d in bad for R in abstract(g, devs, without=d)):
        # `rd` without a label is a value an unlabelled NLRI cannot carry: a definition that names no NLRI at all has nothing it could be dropped from
        bad = []
    results = []   # per session: (outcome, viols) for the best alternative
    Rs = abstract(g, devs)
    Rb = {d.key: abstract(g, devs, without=d) for d in bad}
    enc_err = None
    for sidx in sess:
        s = SESSIONS[sidx]
        try:
            msgs = encode(routes, sidx)
        except core.HarnessError:
            raise
        except Exception as e:  # noqa: BLE001
            enc_err = (sidx, type(e).__name__, _exc_text(e))
            results.append((sidx, 'encode-raises', None))
            continue
        if bad:
            # what did a value the wire cannot hold turn into?  compare with the definition without it
            for d in bad:
                best = None
                for R in Rb[d.key]:
                    oc, v = compare(R, s, msgs)
                    if best is None or len(v) < len(best[1]):
                        best = (oc, v)
                results.append((sidx, 'bad', (d, best)))
            continue
        best = None
        for R in Rs:
            oc, v = compare(R, s, msgs)
            if best is None or len(v) < len(best[1]):
                best = (oc, v)
        results.append((sidx, best[0], best[1]))
    if bad:
        for d in bad:
            kinds = set()
            detail = ''
            if enc_err:
                kinds.add('unsendable')
                detail = f'messages() raises {enc_err[2]} (session {enc_err[0]})'
            for sidx, tag, val in results:
                if tag == 'bad' and val[0] is d:
                    oc, v = val[1]
                    if oc == 'oversize-not-sent':
                        continue
                    if v:
                        kinds.add('wrapped')
                        if not detail:
                            detail = f'on the wire: {v[0][1][:200]}'
                    else:
                        kinds.add('dropped')
            kind = 'accepted-unsendable' if 'unsendable' in kinds else 'accepted-wrapped' if 'wrapped' in kinds else 'accepted-dropped'
            if kind == 'accepted-dropped' and not detail:
                detail = 'the UPDATE is the one of the definition without it'
            viols.append((d.key, kind, f'a value the wire format cannot hold was accepted; {detail}'))
        return 'accepted-bad', viols
    if any(R.get('mixed') for R in Rs):
        return 'accepted-mixed', [(None, 'accepted-mixed-afi', 'IPv4 and IPv6 components in one flow definition were accepted (one NLRI has one address family)')]
    if enc_err:
        viols.append((None, f'encode-raises:{enc_err[1]}', f'accepted, then UpdateCollection.messages() raises {enc_err[2]} (session {SESSIONS[enc_err[0]]})'))
    seen = set()
    label = 'accepted'
    for sidx, oc, v in results:
        if oc == 'oversize-not-sent':
            label = 'accepted:oversize-in-4096'
        for sig, what in v or []:
            if sig not in seen:
                seen.add(sig)
                viols.append((None, f'wire-differs:{sig}', f'{what} [session {sidx}]'))
    return label, viols


# ---------------------------------------------------------------------------------------------
# case enumeration
# ---------------------------------------------------------------------------------------------
def case_devs(g, keys):
    return [g.by_key[k] for k in keys]


def run_case(case, sess):
    """-> (label, viols [(devkey, kind, what)], text)"""
    g = T.grammars()[case['g']]
    devs = case_devs(g, case['devs'])
    api_text, cfg_text = render(g, case['form'], devs)
    path = case['path']
    if path == 'config':
        if cfg_text is None:
            return 'skipped', [], ''
        out = run_config(cfg_text)
        text = cfg_text
    elif path == 'cb':
        out = run_cb(g, api_text)
        text = cb_command(api_text)
    else:
        out = run_api(g, api_text)
        text = api_text
    lab, viols = judge(g, path, case['form'], devs, out, sess)
    return lab, viols, text


def pair_ok(a, b):
    if a.solo or b.solo:
        return False
    if a.kws & b.kws:
        return False
    if a.tail and b.tail:
        return False
    if a.post and b.post:
        return False
    if a.seg and a.seg == b.seg:
        return False
    if (a.post and b.tail) or (b.post and a.tail):
        return False   # a stray bracket after an unclosed one closes it
    return True


_CASES = {}


def enumerate_cases(tier):
    """-> (singles, pairs): lists of case dicts, deterministic order"""
    if tier not in _CASES:
        _CASES[tier] = _enumerate_cases(tier)
    return _CASES[tier]


def _enumerate_cases(tier):
    G = T.grammars()
    singles, pairs = [], []
    for gname, g in G.items():
        for path in g.paths:
            forms = g.forms if path == 'config' else [f for f in g.forms if f == 'flat' or gname == 'flow']
            for form in forms:
                if gname == 'flow' and path == 'config' and form == 'flat':
                    continue
                singles.append(dict(g=gname, path=path, form=form, devs=[]))
                for d in g.devs:
                    if form == 'nested' and d.flat_only:
                        continue
                    singles.append(dict(g=gname, path=path, form=form, devs=[d.key]))
    # pairs
    plan = pair_plan(tier)
    for (gname, path, form, both_orders, with_long) in plan:
        g = G[gname]
        ds = [d for d in g.devs if (with_long or not d.long) and not (form == 'nested' and d.flat_only)]
        for i, a in enumerate(ds):
            for b in ds[i + 1:]:
                if not pair_ok(a, b):
                    continue
                pairs.append(dict(g=gname, path=path, form=form, devs=[a.key, b.key]))
                if both_orders and not (a.seg and b.seg) and form == 'flat':
                    pairs.append(dict(g=gname, path=path, form=form, devs=[b.key, a.key]))
    return singles, pairs


def pair_plan(tier):
    """(grammar, path, form, both orders, pairs with the long-list deviations too)"""
    if tier == 'quick':
        return [('route4', 'api', 'flat', False, False), ('flow', 'api', 'nested', False, False)]
    return [('route4', 'api', 'flat', True, True), ('route4', 'config', 'flat', False, False), ('route4', 'config', 'nested', False, False),
            ('route6', 'api', 'flat', False, True), ('flow', 'api', 'nested', False, True), ('flow', 'config', 'nested', False, True), ('flow', 'api', 'flat', False, False),
            ('vpls', 'api', 'flat', False, True), ('vpls', 'config', 'nested', False, False), ('fam4u', 'api', 'flat', False, False), ('attributes', 'api', 'flat', False, False)]


# ---------------------------------------------------------------------------------------------
# two definitions in one Adj-RIB-Out (one configuration / two API commands): every ordered pair of a small alphabet
# ---------------------------------------------------------------------------------------------
MULTI = [
    ('plain', 'route 10.0.{i}.0/24 next-hop 10.255.0.1', dict(afi=1)),
    ('path-information', 'route 10.0.{i}.0/24 next-hop 10.255.0.1 path-information 1', dict(afi=1, pid=1)),
    ('path-information-dotted', 'route 10.0.{i}.0/24 next-hop 10.255.0.1 path-information 0.0.0.2', dict(afi=1, pid=2)),
    ('label', 'route 10.0.{i}.0/24 next-hop 10.255.0.1 label 3', dict(afi=1, labels=(3,))),
    ('rd', 'route 10.0.{i}.0/24 next-hop 10.255.0.1 rd 65000:1 label 3', dict(afi=1, labels=(3,), rd=T.rd0(65000, 1))),
    ('next-hop-self', 'route 10.0.{i}.0/24 next-hop self', dict(afi=1)),
    ('med', 'route 10.0.{i}.0/24 next-hop 10.255.0.1 med 5', dict(afi=1)),
    ('v6', 'route 2001:db8:{i}::/48 next-hop 2001:db8:ffff::1', dict(afi=2)),
    ('v6-path-information', 'route 2001:db8:{i}::/48 next-hop 2001:db8:ffff::1 path-information 1', dict(afi=2, pid=1)),
]


# a definition that is refused (inside the braces of the nested form, in the flat form, for an unknown keyword), given to
# the same API object right before a valid one: the valid one must come out with its own routes and nothing else
REFUSED_FIRST = [
    ('nested-bad-value', 'route 10.0.{i}.0/24 {{ next-hop 10.255.0.1 ; med x ; }}'),
    ('nested-unknown-keyword', 'route 10.0.{i}.0/24 {{ next-hop 10.255.0.1 ; local-preference 7 ; bogus 3 ; }}'),
    ('flat-bad-value', 'route 10.0.{i}.0/24 next-hop 10.255.0.1 community [ 1:2 bogus ]'),
]


def multi_cases():
    return ([dict(multi=[i, j], path=path) for path in ('api', 'config') for i in range(len(MULTI)) for j in range(len(MULTI))]
            + [dict(multi=[None, j], path='api', refused=k) for k in range(len(REFUSED_FIRST)) for j in range(len(MULTI))])


def run_multi(case, sess):
    i, j = case['multi']
    g = T.grammars()['route4']
    routes = []
    if case.get('refused') is not None:
        first = REFUSED_FIRST[case['refused']][1].format(i=1)
        texts = [MULTI[j][1].format(i=2)]
        text = first + ' ; ' + texts[0]
        out = run_api(g, first)
        if out['status'] == 'accepted':
            return 'multi-prior-accepted', [], text   # not a refused definition (any more): nothing to judge here
    else:
        texts = [MULTI[i][1].format(i=1), MULTI[j][1].format(i=2)]
        text = ' ; '.join(texts)
    if case['path'] == 'api':
        for t in texts:
            out = run_api(g, t)
            if out['status'] != 'accepted':
                return 'multi-' + out['status'], [('parse', f'{out["status"]}: {out.get("msg")}')], text
            routes += out['routes']
    else:
        out = run_config('static { ' + ' '.join(t + ' ;' for t in texts) + ' }')
        if out['status'] != 'accepted':
            return 'multi-' + out['status'], [(out['status'] + (':' + out['etype'] if out.get('etype') else ''), f'two valid routes in one static section: {out.get("msg")}')], text
        routes = out['routes']
    viols = []
    for sidx in sess:
        s = SESSIONS[sidx]
        ap = set(c01.ADDPATH_FAMS) if s['addpath'] else set()
        try:
            msgs = encode(routes, sidx)
        except core.HarnessError:
            raise
        except Exception as e:  # noqa: BLE001
            viols.append((f'encode-raises:{type(e).__name__}', f'both accepted, then generating the UPDATEs raises {_exc_text(e)} (session {s})'))
            continue
        want = []
        for k, (name, _, spec) in ([(2, MULTI[j])] if case.get('refused') is not None else zip((1, 2), (MULTI[i], MULTI[j]))):
            afi = spec['afi']
            labels, rd = spec.get('labels'), spec.get('rd')
            safi = 128 if rd is not None else 4 if labels is not None else 1
            pid = (spec.get('pid') or 0) if (afi, safi) in ap else None
            addr = f'10.0.{k}.0' if afi == 1 else f'2001:db8:{k}::'
            want.append((wire.nlri_key(wire.nlri_ip(afi, safi, addr, 24 if afi == 1 else 48, pid, labels, rd.hex() if rd else None)), labels))
        got = []
        try:
            for mtype, body in msgs:
                u = flowvpls.decode_update_x(body, asn4=s['our_asn4'] and s['peer_asn4'], addpath=ap)
                got += [(wire.nlri_key(n), n[3]) for n in u['nlri']] + [(wire.nlri_key(n), n[3]) for _, _, _, ns in u['mp_reach'] for n in ns]
        except wire.RefError as e:
            viols.append((f'undecodable:{e.code}/{e.subcode}', str(e)))
            continue
        if sorted(got, key=repr) != sorted(want, key=repr):
            viols.append(('nlri-set', f'NLRIs on the wire {_short(sorted(got, key=repr))} != written {_short(sorted(want, key=repr))} (session {sidx})'))
    seen, out_v = set(), []
    for k, w in viols:
        if k not in seen:
            seen.add(k)
            out_v.append((k, w))
    return 'multi-accepted', out_v, text


def multi_signature(case, kind):
    i, j = case['multi']
    if case.get('refused') is not None:
        return f'{case["path"]}:after-refused:{REFUSED_FIRST[case["refused"]][0]}+{MULTI[j][0]}:{kind}'
    a, b = sorted((MULTI[i][0], MULTI[j][0]))
    return f'{case["path"]}:two-routes:{a}+{b}:{kind}'


def signature(case, g, devkey, kind):
    devs = case['devs']
    if len(devs) == 1 or devkey is not None:
        return f'{case["path"]}:{devkey or devs[0]}:{kind}'
    if not devs:
        return f'{case["path"]}:{case["g"]}-base:{kind}'
    kws = '+'.join(sorted({g.by_key[k].kw for k in devs}))
    return f'{case["path"]}:pair:{kws}:{kind}'


def sess_for(tier):
    return QUICK_SESSIONS if tier == 'quick' else list(range(len(SESSIONS)))


def _record(res, sig, what, case):
    v = res['viol'].get(sig)
    if v is None:
        res['viol'][sig] = [what, case, 1]
    else:
        v[2] += 1
        if (len(str(case)), str(case)) < (len(str(v[1])), str(v[1])):
            v[0], v[1] = what, case


def worker(args):
    tier, phase, shard, nshards, single_index = args
    singles, pairs = enumerate_cases(tier)
    cases = singles if phase == 'single' else pairs if phase == 'pair' else multi_cases()
    sess = QUICK_PAIR_SESSIONS if (tier == 'quick' and phase == 'pair') else sess_for(tier)
    G = T.grammars()
    res = {'exec': 0, 'viol': {}, 'outcomes': {}, 'nontrivial': 0, 'samples': [], 'single_index': [], 'explained': 0, 'by_path': {}, 'hang_pairs_skipped': 0, 'must': [0, 0]}
    for idx, case in enumerate(cases):
        if idx % nshards != shard:
            continue
        if phase == 'multi':
            lab, mv, text = run_multi(case, sess)
            res['exec'] += 1
            res['nontrivial'] += 1
            res['by_path']['two-routes'] = res['by_path'].get('two-routes', 0) + 1
            res['outcomes'][f'{case["path"]}:{lab}'] = res['outcomes'].get(f'{case["path"]}:{lab}', 0) + 1
            for kind, what in mv:
                _record(res, multi_signature(case, kind), f'{what}  [{text}]', case)
            continue
        g = G[case['g']]
        if phase == 'pair' and any((case['path'], case['g'], case['form'], k, 'hang') in single_index for k in case['devs']):
            # a deviation which alone makes the entry point loop for ever does so in every pair: not re-run (HANG_LIMIT_S each)
            res['hang_pairs_skipped'] += 1
            continue
        lab, viols, text = run_case(case, sess)
        if lab == 'skipped':
            continue
        res['exec'] += 1
        res['by_path'][case['path']] = res['by_path'].get(case['path'], 0) + 1
        if case['devs']:
            res['nontrivial'] += 1
        if phase == 'single' and case['devs'] and g.by_key[case['devs'][0]].must:
            res['must'][0] += 1
            res['must'][1] += 1 if (lab.startswith('accepted') and not viols) else 0
        okey = f'{case["path"]}:{lab}'
        res['outcomes'][okey] = res['outcomes'].get(okey, 0) + 1
        for devkey, kind, what in viols:
            if phase == 'single':
                res['single_index'].append((case['path'], case['g'], case['form'], case['devs'][0] if case['devs'] else '', kindclass(kind)))
                sig = signature(case, g, devkey, kind)
            else:
                # explained by what one of the two deviations does on its own in the same grammar / path / form?
                cands = [devkey] if devkey else case['devs']
                if any((case['path'], case['g'], case['form'], k, kindclass(kind)) in single_index for k in cands):
                    res['explained'] += 1
                    continue
                sig = signature(case, g, None, kind) if devkey is None else f'{case["path"]}:pair:{devkey}:{kind}'
            _record(res, sig, f'{what}  [{case["g"]}/{case["form"]}: {text[:160]}]', case)
        if shard == 0 and len(res['samples']) < 2 and case['devs'] and lab.startswith('accepted'):
            res['samples'].append({'case': case, 'text': text[:200], 'outcome': lab})
    return res


def _merge(ctx, res, agg):
    ctx.count('executions', res['exec'])
    ctx.count('nontrivial', res['nontrivial'])
    for k, n in res['outcomes'].items():
        agg['outcomes'][k] = agg['outcomes'].get(k, 0) + n
    for k, n in res['by_path'].items():
        agg['by_path'][k] = agg['by_path'].get(k, 0) + n
    agg['explained'] += res['explained']
    agg['hang_pairs_skipped'] += res['hang_pairs_skipped']
    agg['must'][0] += res['must'][0]
    agg['must'][1] += res['must'][1]
    agg['single_index'].update(res['single_index'])
    for smp in res['samples']:
        ctx.sample(smp)
    for sig, (what, case, n) in res['viol'].items():
        cur = agg['viol'].get(sig)
        if cur is None:
            agg['viol'][sig] = [what, case, n]
        else:
            cur[2] += n
            if (len(str(case)), str(case)) < (len(str(cur[1])), str(cur[1])):
                cur[0], cur[1] = what, case


def run(ctx: core.Ctx) -> None:
    flowvpls.selftest()
    tier = ctx.tier
    singles, pairs = enumerate_cases(tier)
    G = T.grammars()
    ndev = {n: len(g.devs) for n, g in G.items()}
    ctx.rule = ('base definition per grammar (static route v4/v6, attributes, flow, vpls, announce ipv4/ipv6 unicast / nlri-mpls / mpls-vpn) x every single deviation '
                f'{ndev} (values -1, 0, 1, max-1, max, max+1, 2^16-1, 2^16, 2^32-1, 2^32, 2^64, non-numeric, missing, hex; list lengths 0, 1, 2, 255, 256, 1000 and '
                'too big for 4096 / for any message; masks; labels; RD forms; keyword twice; unknown keyword; unbalanced brackets; stray terminators) through api, the real '
                'callback (cb) and a configuration file (flat and nested forms), plus every pair of deviations on different keywords for: '
                f'{pair_plan(tier)}; every accepted definition encoded under {len(sess_for(tier))} sessions; non-trivial = at least one deviation')
    ctx.assumptions += ['reference decoders vt/ref/wire.py and vt/ref/flowvpls.py', 'expected wire values computed in vt/checks/c18_tables.py from the text',
                        'ValueError and IndexError leaving API.api_* count as a refusal: every announce_* callback answers `error` for them by name',
                        'in a configuration, a ValueError or configuration Error reported through reload() counts as a refusal; any other exception type in that text is an unhandled exception',
                        'an attribute set too large for the negotiated message size may be accepted and not sent (the size is not known when parsing)',
                        'a keyword given twice may send either value', 'tolerances of C01 (attribute order, LOCAL_PREF on eBGP, as-path as given or with the local AS prepended)']
    nshards = 192
    agg = {'outcomes': {}, 'by_path': {}, 'explained': 0, 'hang_pairs_skipped': 0, 'must': [0, 0], 'single_index': set(), 'viol': {}}
    pool = mp.Pool(min(16, os.cpu_count() or 1))
    try:
        order = list(range(nshards))
        for res in pool.imap_unordered(worker, [(tier, 'single', i, nshards, None) for i in order]):
            _merge(ctx, res, agg)
        index = frozenset(agg['single_index'])
        for res in pool.imap_unordered(worker, [(tier, 'pair', i, nshards, index) for i in order]):
            _merge(ctx, res, agg)
        for res in pool.imap_unordered(worker, [(tier, 'multi', i, 16, None) for i in range(16)]):
            _merge(ctx, res, agg)
    finally:
        pool.close()
        pool.join()
    for sig in sorted(agg['viol']):
        what, case, n = agg['viol'][sig]
        ctx.violation(sig, what, case)
        ctx.viol[sig]['count'] = n
    ctx.counters['singles'] = len(singles)
    ctx.counters['pairs'] = len(pairs)
    ctx.counters['pair_violations_explained_by_a_single'] = agg['explained']
    ctx.counters['pairs_not_run_because_one_member_hangs_alone'] = agg['hang_pairs_skipped']
    ctx.counters['must_accept_table_cases'] = agg['must'][0]
    ctx.counters['must_accept_table_accepted_and_sent_as_written'] = agg['must'][1]
    for k, n in sorted(agg['by_path'].items()):
        ctx.counters[f'path_{k}'] = n
    ctx.coverage_extra['outcomes'] = dict(sorted(agg['outcomes'].items()))
    ctx.counters['states'] = len(agg['outcomes'])
    ctx.counters['transitions'] = ctx.counters.get('executions', 0)
    for k in agg['outcomes']:
        ctx.add_to_set('outcomes', k)
    if tier == 'quick':
        ctx.cap('quick: pairs only for the route4 and flow grammars on the api path, without the long-list deviations, one order; 8 of the 16 sessions for single deviations, 4 for pairs')
    else:
        ctx.cap('thorough: pairs not enumerated for the cb path, the family grammars other than ipv4 unicast, and long-list deviations on the configuration path')


def replay(case):
    sess = list(range(len(SESSIONS)))
    if 'multi' in case:
        lab, mv, text = run_multi(case, sess)
        return [{'signature': multi_signature(case, kind), 'what': what} for kind, what in mv]
    g = T.grammars()[case['g']]
    lab, viols, text = run_case(case, sess)
    out = []
    for devkey, kind, what in viols:
        sigs = {signature(case, g, devkey, kind)}
        if len(case['devs']) == 2:
            sigs.add(signature(case, g, None, kind))
            if devkey:
                sigs.add(f'{case["path"]}:pair:{devkey}:{kind}')
        for sig in sorted(sigs):
            out.append({'signature': sig, 'what': what})
    return out
