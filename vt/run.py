"""CLI: ./check <id> <quick|thorough> | ./check --replay <file>"""

from __future__ import annotations

import importlib
import json
import os
import sys
import traceback

REPO_SRC = os.environ.get('VERIF_REPO_SRC', '/repo/src')
sys.path.insert(0, REPO_SRC)

from vt import core  # noqa: E402


def load(pid: str):
    return importlib.import_module(f'vt.checks.{pid.lower()}')


def main(argv: list[str]) -> int:
    if len(argv) >= 2 and argv[0] == '--replay':
        with open(argv[1]) as f:
            rec = json.load(f)
        mod = load(rec['property'])
        try:
            viols = mod.replay(rec['case'])
        except Exception as e:  # noqa: BLE001
            print(f'HARNESS-ERROR replay of {argv[1]}: {type(e).__name__}: {e}', file=sys.stderr)
            traceback.print_exc()
            return 2
        quiet = os.environ.get('VERIF_REPLAY_QUIET') == '1'
        want = rec.get('signature')
        hit = [v for v in viols if v['signature'] == want] or viols
        for v in hit:
            print(f'VIOLATION property={rec["property"]} replay={argv[1]}')
            print(f'  signature={v["signature"]}: {v["what"]}')
        if not hit and not quiet:
            print(f'replay of {argv[1]}: no violation')
        return 1 if hit else 0
    if len(argv) < 1:
        print(__doc__)
        return 2
    pid = argv[0].upper()
    tier = argv[1] if len(argv) > 1 else os.environ.get('VERIF_TIER', 'quick')
    seed = int(os.environ.get('VERIF_SEED', '0') or 0)
    mod = load(pid)
    ctx = core.Ctx(pid, tier, seed)
    try:
        mod.run(ctx)
    except core.HarnessError as e:
        print(f'HARNESS-ERROR {pid}: {e}', file=sys.stderr)
        traceback.print_exc()
        return 2
    except Exception as e:  # noqa: BLE001
        # the machinery itself failed (e.g. a private name it relied on is gone): that is never a verdict on the property
        print(f'HARNESS-ERROR {pid}: {type(e).__name__}: {e}', file=sys.stderr)
        traceback.print_exc()
        return 2
    return core.finish(ctx)


if __name__ == '__main__':
    sys.exit(main(sys.argv[1:]))
