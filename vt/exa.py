"""Thin adapter to the code under test (/repo/src): build real objects from text and reference bytes.

Everything here goes through ExaBGP's own entry points; nothing re-implements its logic.
"""

from __future__ import annotations

import os
import sys

REPO_SRC = os.environ.get('VERIF_REPO_SRC', '/repo/src')
if REPO_SRC not in sys.path:
    sys.path.insert(0, REPO_SRC)
os.environ.setdefault('exabgp_log_enable', 'false')

from vt.ref import wire  # noqa: E402


def reset_process_state() -> None:
    """Restore the process-wide state ExaBGP keeps on classes/modules to its import-time value."""
    from exabgp.rib import RIB

    cache = getattr(RIB, '_cache', None)
    if isinstance(cache, dict):
        cache.clear()
    else:
        # the class-level table of RIBs by neighbor name, whatever it is called
        for v in vars(RIB).values():
            if isinstance(v, dict) and all(isinstance(x, RIB) for x in v.values()):
                v.clear()
    try:
        # multi-line "group start" blocks are buffered per API process name at module level
        from exabgp.reactor.api.command import group as _group

        for v in vars(_group).values():
            # the per-process buffers of open group blocks (module-level dicts keyed by process name)
            if isinstance(v, dict) and v and all(isinstance(k, str) for k in v) and not any(callable(x) for x in v.values()):
                v.clear()
    except Exception:
        pass
    try:
        from exabgp.bgp.message.update.attribute.collection import AttributeCollection

        for name in ('cached', 'previous'):
            if hasattr(AttributeCollection, name):
                v = getattr(AttributeCollection, name)
                if isinstance(v, bytes):
                    setattr(AttributeCollection, name, b'')
                elif v is not None and not isinstance(v, (int, str)):
                    setattr(AttributeCollection, name, None)
    except Exception:
        pass


def make_processes(specs):
    """A real Processes object with helper programs started the production way (Processes.start -> _start), their
    Popen replaced by pipe-backed stand-ins.  specs: [(name, 'json' | 'text', api version 4 | 6)].  No private name of
    Processes is touched, so a renaming inside it does not break the harness."""
    from exabgp.environment import getenv
    from exabgp.reactor.api import processes as proc_mod
    from vt.world import FakeChild

    real = proc_mod.subprocess

    class _Subprocess:
        PIPE = -1
        CalledProcessError = real.CalledProcessError
        TimeoutExpired = real.TimeoutExpired

        @staticmethod
        def Popen(run, **kw):
            return FakeChild('helper')

    class _Loop:
        def add_reader(self, *a):
            pass

        def remove_reader(self, *a):
            return True

    env = getenv()
    saved_version = env.api.version
    proc_mod.subprocess = _Subprocess
    try:
        procs = proc_mod.Processes()
        procs.setup_async_readers(_Loop())
        # the process sections as the configuration parser builds them
        text = ''.join(f'process {name} {{ run /bin/cat; encoder {enc}; }}\n' for name, enc, _ in specs)
        parsed, ok = parse_config(text + 'neighbor 127.0.0.2 { router-id 1.2.3.4; local-address 127.0.0.1; local-as 65001; peer-as 65002; }\n')
        if not ok:
            raise RuntimeError(f'process sections refused: {getattr(parsed, "error", "?")}')
        cfg = {}
        for version in sorted({v for _, _, v in specs}):
            env.api.version = version
            for name, enc, v in specs:
                if v == version:
                    cfg[name] = parsed.processes[name]
            procs.start(dict(cfg))
    finally:
        proc_mod.subprocess = real
        env.api.version = saved_version
    return procs


def drop_pending_writes(procs) -> int:
    """Forget what Processes.write() queued for the helper programs (async mode); returns how many records there were.
    The queue is found by its shape ({process: deque of bytes}), whatever it is called."""
    import collections

    n = 0
    for v in vars(procs).values():
        if isinstance(v, dict) and v and all(isinstance(x, collections.deque) for x in v.values()):
            for q in v.values():
                n += len(q)
                q.clear()
    return n


def parse_config(text: str):
    """Configuration from text; returns (cfg, ok)."""
    from exabgp.configuration.configuration import Configuration

    cfg = Configuration([text], text=True)
    ok = cfg.reload()
    return cfg, ok


def neighbor_from_text(text: str):
    cfg, ok = parse_config(text)
    if not ok:
        raise RuntimeError(f'configuration refused: {getattr(cfg, "error", "?")}')
    (neighbor,) = list(cfg.neighbors.values())
    return cfg, neighbor


def our_open(neighbor):
    from exabgp.bgp.message import Open
    from exabgp.bgp.message.open.capability.capabilities import Capabilities
    from exabgp.bgp.message.open.version import Version

    return Open.make_open(
        Version(4),
        neighbor.session.local_as,
        neighbor.hold_time,
        neighbor.session.router_id,
        Capabilities().new(neighbor, False),
    )


def unpack_open(body: bytes):
    from exabgp.bgp.message import Message
    from exabgp.bgp.message.open.capability.negotiated import Negotiated

    return Message.unpack(wire.OPEN, body, Negotiated.UNSET)


def negotiated_for(neighbor, peer_open_body: bytes, direction_out: bool = True):
    """A real Negotiated: our OPEN built from the neighbor, the peer OPEN parsed from reference bytes."""
    from exabgp.bgp.message.direction import Direction
    from exabgp.bgp.message.open.capability.negotiated import Negotiated

    neg = Negotiated.make_negotiated(neighbor, Direction.OUT if direction_out else Direction.IN)
    neg.sent(our_open(neighbor))
    neg.received(unpack_open(peer_open_body))
    return neg


def peer_open_body(asn: int, families, asn4: bool = True, addpath=None, ext_nh=None, ext_msg=False, rr=True,
                   hold: int = 180, router_id: str = '9.9.9.9') -> bytes:
    caps = [wire.cap_mp(a, s) for a, s in families]
    if asn4:
        caps.append(wire.cap_asn4(asn))
    if addpath:
        caps.append(wire.cap_addpath(addpath))
    if ext_nh:
        caps.append(wire.cap_ext_nh(ext_nh))
    if ext_msg:
        caps.append((wire.CAP_EXT_MSG, b''))
    if rr:
        caps.append((wire.CAP_RR, b''))
    asn2 = asn if asn < 65536 else wire.AS_TRANS
    return wire.encode_open(asn2, hold, router_id, caps)


def split_messages(data: bytes, max_size: int = 65535):
    msgs, err, rest = wire.split_stream(data, max_size)
    if err is not None or rest:
        raise ValueError(f'emitted bytes do not frame: err={err} rest={len(rest)}')
    return msgs


def parse_config_file(path: str):
    """Configuration from a file on disk, the way the daemon reads it; returns (cfg, ok)."""
    from exabgp.configuration.configuration import Configuration

    cfg = Configuration([path])
    ok = cfg.reload()
    return cfg, ok


def reset_value_caches() -> None:
    """Forget the by-value instance cache of exabgp.protocol.resource.Resource subclasses whose instances
    carry mutable state (NetMask.maximum), so that one case cannot change what the next one parses."""
    from exabgp.protocol.ip.netmask import NetMask
    from exabgp.protocol.resource import Resource

    Resource.cache.pop(NetMask, None)


# ---- C15: a session on which every registered family (and optionally ADD-PATH for all of them) is negotiated -----
C15_NEIGHBOR = """
neighbor 127.0.0.2 {
  router-id 1.2.3.4;
  local-address 127.0.0.1;
  local-as 65001;
  peer-as 65001;
  capability { asn4 %(asn4)s; add-path %(addpath)s; aigp enable; %(nexthop)s }
  family { all; }
  %(nexthop_section)s
}
"""
C15_EXT_NH = [(1, 1, 2), (1, 2, 2), (1, 4, 2), (1, 128, 2), (2, 1, 1)]


def negotiated_all_families(families, asn4: bool = True, addpath: bool = False, direction_out: bool = True, ext_nh: bool = False):
    """A real Negotiated for `families` [(afi, safi) ints].  Our OPEN is built from a text-parsed neighbor with
    'family all'; its ADD-PATH capability is overridden the way exabgp.configuration.check._negotiated does it, so that
    families the add-path section cannot name (ipv6 multicast, ipv4 rtc) are covered too.  The peer OPEN is reference
    bytes (all capabilities in one optional parameter: 23 families do not fit one-capability-per-parameter)."""
    from exabgp.bgp.message.open.capability import Capability
    from exabgp.bgp.message.open.capability.addpath import AddPath
    from exabgp.protocol.family import AFI, SAFI

    cfg, neighbor = neighbor_from_text(C15_NEIGHBOR % dict(
        asn4='enable' if asn4 else 'disable', addpath='send/receive' if addpath else 'disable', nexthop='nexthop enable;' if ext_nh else '',
        nexthop_section='nexthop { ipv4 unicast ipv6; ipv4 multicast ipv6; ipv4 nlri-mpls ipv6; ipv4 mpls-vpn ipv6; ipv6 unicast ipv4; }' if ext_nh else ''))
    ours = our_open(neighbor)
    if addpath:
        fams = [(AFI.from_int(a), SAFI.from_int(s)) for a, s in families]
        ours.capabilities[Capability.CODE.ADD_PATH] = AddPath(fams, 3)
    caps = [wire.cap_mp(a, s) for a, s in families]
    if asn4:
        caps.append(wire.cap_asn4(65001))
    if addpath:
        caps.append(wire.cap_addpath([(a, s, 3) for a, s in families]))
    if ext_nh:
        caps.append(wire.cap_ext_nh(C15_EXT_NH))
    # RFC 9072 extended optional parameters: 23 families with ADD-PATH do not fit 255 octets
    body = wire.encode_open(65001, 180, '9.9.9.9', caps, style='extended')
    from exabgp.bgp.message.direction import Direction
    from exabgp.bgp.message.open.capability.negotiated import Negotiated

    neg = Negotiated.make_negotiated(neighbor, Direction.OUT if direction_out else Direction.IN)
    neg.sent(ours)
    neg.received(unpack_open(body))
    return neighbor, neg
