"""C10 demo: connection collision.

An outgoing connection is in OpenConfirm (both OPENs exchanged) when the same peer connects to us and
its BGP identifier wins the collision: Peer.handle_connection() drops our outgoing connection and
accepts the incoming one.

Property: "the last message it writes is a single NOTIFICATION whose code and subcode name the error
class" (cease 6/x here, RFC 4271 6.8: the dumped connection is closed "sending NOTIFICATION Cease").

What happens: the dumped connection is closed with nothing written, and the peer task, still waiting
for the KEEPALIVE of the dumped connection, later writes ITS timer NOTIFICATION (4/0, hold timer
expired) on the newly accepted connection, on which ExaBGP has not even sent an OPEN.

Real code driven: Configuration, Peer.run(), Protocol, Outgoing/Incoming over loopback TCP.
Mocked: the reactor object (API processes only).
"""

import asyncio
import socket
import struct
from unittest.mock import MagicMock

from exabgp.configuration.configuration import Configuration
from exabgp.protocol.family import AFI
from exabgp.reactor.network.incoming import Incoming
from exabgp.reactor.peer.peer import Peer
from exabgp.rib import RIB

MARKER = b'\xff' * 16


def msg(kind, body=b''):
    return MARKER + struct.pack('!HB', 19 + len(body), kind) + body


def cap(code, value=b''):
    return bytes([2, 2 + len(value), code, len(value)]) + value


def open_msg(asn=65000, hold=180, rid='2.2.2.2'):
    params = cap(1, b'\x00\x01\x00\x01') + cap(65, struct.pack('!L', asn))
    return msg(1, bytes([4]) + struct.pack('!HH', asn, hold) + socket.inet_aton(rid) + bytes([len(params)]) + params)


def neighbor(port, hold):
    RIB._cache.clear()
    text = (
        'neighbor 127.0.0.1 { router-id 1.1.1.1; local-address 127.0.0.1; local-as 65001; peer-as 65000;'
        ' hold-time %d; connect %d; family { ipv4 unicast; } }' % (hold, port)
    )
    cfg = Configuration([text], text=True)
    assert cfg.reload(), cfg.error
    return list(cfg.neighbors.values())[0]


def reactor():
    fake = MagicMock()
    fake.processes.broken.return_value = False
    return fake


class Wire:
    """the BGP speaker at the other end of a loopback TCP connection"""

    def __init__(self, sock):
        sock.setblocking(False)
        self.sock, self.buf, self.msgs, self.eof = sock, b'', [], False

    async def pump(self, seconds):
        loop = asyncio.get_event_loop()
        end = loop.time() + seconds
        while not self.eof and loop.time() < end:
            try:
                data = await asyncio.wait_for(loop.sock_recv(self.sock, 65536), max(0.01, end - loop.time()))
            except asyncio.TimeoutError:
                break
            except OSError:
                data = b''
            if not data:
                self.eof = True
            self.buf += data
            while len(self.buf) >= 19 and len(self.buf) >= struct.unpack('!H', self.buf[16:18])[0]:
                size = struct.unpack('!H', self.buf[16:18])[0]
                self.msgs.append((self.buf[18], self.buf[19:size]))
                self.buf = self.buf[size:]

    async def until(self, kind, seconds=30):
        for _ in range(int(seconds / 0.05)):
            if any(k == kind for k, _ in self.msgs) or self.eof:
                break
            await self.pump(0.05)
        return any(k == kind for k, _ in self.msgs)


async def scenario():
    listener = socket.socket()
    listener.bind(('127.0.0.1', 0))
    listener.listen(1)
    listener.setblocking(False)
    peer = Peer(neighbor(listener.getsockname()[1], hold=3), reactor())
    task = asyncio.ensure_future(peer.run())

    # our outgoing connection reaches OpenConfirm: OPENs exchanged, the peer's KEEPALIVE not sent yet
    sock, _ = await asyncio.get_event_loop().sock_accept(listener)
    first = Wire(sock)
    assert await first.until(1)
    await asyncio.get_event_loop().sock_sendall(sock, open_msg(hold=3))
    assert await first.until(4)
    assert peer.fsm.name() == 'OPENCONFIRM'

    # the peer (BGP identifier 2.2.2.2 > ours 1.1.1.1) connects to us: what the listener does with the socket
    server = socket.socket()
    server.bind(('127.0.0.1', 0))
    server.listen(1)
    client = socket.socket()
    client.connect(server.getsockname())
    accepted, _ = server.accept()
    refused = peer.handle_connection(Incoming(AFI.ipv4, '127.0.0.1', '127.0.0.1', accepted))
    assert refused is None  # the incoming connection wins the collision
    second = Wire(client)

    before = len(first.msgs)
    end = asyncio.get_event_loop().time() + 5  # longer than the 3 second hold time
    while asyncio.get_event_loop().time() < end and not second.eof:
        await first.pump(0.1)
        await second.pump(0.25)
    task.cancel()
    return first.msgs[before:], second.msgs


_RESULT = []


def result():
    if not _RESULT:
        dumped, accepted = asyncio.run(scenario())
        _RESULT.append(([(k, bytes(b[:2])) for k, b in dumped], [(k, bytes(b[:2])) for k, b in accepted]))
    return _RESULT[0]


def test_no_stale_timer_notification_on_the_accepted_connection():
    _, accepted = result()
    # nothing was received on the accepted connection, ExaBGP has not sent its OPEN on it: no timer of
    # that connection can have expired, yet it is answered "hold timer expired" and closed
    assert not [m for m in accepted if m[0] == 3], f'written on the accepted connection: {accepted}'


def test_dumped_connection_is_closed_with_a_cease():
    dumped, _ = result()
    # RFC 4271 6.8: the connection which loses the collision is closed with a Cease (6/7, RFC 4486)
    assert dumped == [(3, b'\x06\x07')], f'written on the dumped connection: {dumped}'
