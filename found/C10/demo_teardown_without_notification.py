"""C10 demo: API "teardown" which ends the session without the NOTIFICATION.

reactor/api/command/neighbor.py:71-83 accepts any string of digits and calls Peer.teardown(int(code)).
(a) "neighbor 127.0.0.1 teardown 300": Peer._main ends with raise Notify(6, 300) (peer.py:813); bytes([6, 300])
    raises ValueError, Peer._run logs an unhandled exception and closes the connection: nothing is written.
(b) "teardown 2" on a neighbor configured with graceful-restart: peer.py:806-811 closes the TCP connection
    "without sending any notification", even when the peer did not announce graceful restart itself.

Property: "the last message it writes is a single NOTIFICATION ... (... cease 6/x)", quantified over
"... plus timer expiry and API teardown".

Real code driven: Configuration, Peer.run(), Protocol, Connection over loopback TCP. Mocked: the reactor
object handed to Peer (API processes only).
"""

import asyncio
import socket
import struct
from unittest.mock import MagicMock

from exabgp.configuration.configuration import Configuration
from exabgp.reactor.peer.peer import Peer
from exabgp.reactor.api.command.neighbor import teardown
from exabgp.rib import RIB

MARKER = b'\xff' * 16
KEEPALIVE = MARKER + b'\x00\x13\x04'


def msg(kind, body=b''):
    return MARKER + struct.pack('!HB', 19 + len(body), kind) + body


def cap(code, value=b''):
    return bytes([2, 2 + len(value), code, len(value)]) + value


def open_msg(asn=65000, hold=180, rid='2.2.2.2', more=b''):
    params = cap(1, b'\x00\x01\x00\x01') + cap(65, struct.pack('!L', asn)) + more
    return msg(1, bytes([4]) + struct.pack('!HH', asn, hold) + socket.inet_aton(rid) + bytes([len(params)]) + params)


def neighbor(port, hold=180, capability=''):
    RIB._cache.clear()
    text = (
        'neighbor 127.0.0.1 { router-id 1.1.1.1; local-address 127.0.0.1; local-as 65001; peer-as 65000;'
        ' hold-time %d; connect %d; family { ipv4 unicast; } capability { %s } }' % (hold, port, capability)
    )
    cfg = Configuration([text], text=True)
    assert cfg.reload(), cfg.error
    return list(cfg.neighbors.values())[0]


def reactor():
    fake = MagicMock()  # only the API side (reactor.processes) is used by a Peer
    fake.processes.broken.return_value = False
    return fake


class Wire:
    """the BGP speaker at the other end of a loopback TCP connection"""

    def __init__(self, sock):
        sock.setblocking(False)
        self.sock, self.buf, self.msgs, self.eof = sock, b'', [], False

    async def send(self, data):
        await asyncio.get_event_loop().sock_sendall(self.sock, data)

    async def pump(self, seconds):
        loop = asyncio.get_event_loop()
        end = loop.time() + seconds
        while not self.eof and loop.time() < end:
            try:
                data = await asyncio.wait_for(loop.sock_recv(self.sock, 65536), max(0.01, end - loop.time()))
            except asyncio.TimeoutError:
                break
            except OSError:
                data = b''
            if not data:
                self.eof = True
            self.buf += data
            while len(self.buf) >= 19 and len(self.buf) >= struct.unpack('!H', self.buf[16:18])[0]:
                size = struct.unpack('!H', self.buf[16:18])[0]
                self.msgs.append((self.buf[18], bytes(self.buf[19:size])))
                self.buf = self.buf[size:]

    async def until(self, kind, seconds=30):
        for _ in range(int(seconds / 0.05)):
            if any(k == kind for k, _ in self.msgs) or self.eof:
                break
            await self.pump(0.05)
        return any(k == kind for k, _ in self.msgs)


async def connect(state='ESTABLISHED', hold=180, capability='', peer_open=None):
    """a real Peer connects to our loopback listener and is driven to the state asked for"""
    listener = socket.socket()
    listener.bind(('127.0.0.1', 0))
    listener.listen(1)
    listener.setblocking(False)
    peer = Peer(neighbor(listener.getsockname()[1], hold, capability), reactor())
    task = asyncio.ensure_future(peer.run())
    sock, _ = await asyncio.get_event_loop().sock_accept(listener)
    listener.close()
    wire = Wire(sock)
    assert await wire.until(1)  # ExaBGP's OPEN: OpenSent
    if state != 'OPENSENT':
        await wire.send(peer_open or open_msg(hold=hold))
        assert await wire.until(4)  # ExaBGP's KEEPALIVE: OpenConfirm
    if state == 'ESTABLISHED':
        await wire.send(KEEPALIVE)
        assert await wire.until(2)  # ExaBGP's End-of-RIB: Established
        await wire.pump(0.2)
    assert peer.fsm.name() == state
    return peer, task, wire


def notifications(msgs):
    return [(body[0], body[1]) for kind, body in msgs if kind == 3]


async def scenario(code, capability):
    peer, task, wire = await connect('ESTABLISHED', capability=capability)
    before = len(wire.msgs)
    stub = MagicMock()  # the reactor as the API command sees it
    stub.established_peers.return_value = ['the-peer']
    stub.teardown_peer.side_effect = lambda key, value: peer.teardown(value)  # Reactor.teardown_peer
    accepted = teardown(MagicMock(), stub, 'helper', ['the-peer'], str(code), False)  # "neighbor ... teardown <code>"
    await wire.pump(2)
    task.cancel()
    return accepted, stub.processes.answer_error_sync.called, wire.msgs[before:], wire.eof


def test_teardown_with_a_code_above_255_is_refused_or_sends_a_cease():
    accepted, error_reply, written, closed = asyncio.run(scenario(300, ''))
    if not accepted:  # refused: the helper is told, the session stays up
        assert error_reply and not closed and not written, f'refused but closed={closed} written={written}'
        return
    got = notifications(written)
    assert closed and len(got) == 1 and got[0][0] == 6 and written[-1][0] == 3, f'teardown 300 ended the session with {written}'


def test_teardown_with_graceful_restart_configured_still_sends_the_cease():
    accepted, _, written, closed = asyncio.run(scenario(2, 'graceful-restart 120;'))
    assert accepted and closed
    assert notifications(written) == [(6, 2)] and written[-1][0] == 3, f'teardown 2 ended the session with {written}'
