"""C10 demo: an incoming connection refused by the state machine never receives its Cease.

A session is Established; the same peer opens a second TCP connection.  Peer.handle_connection()
(peer.py:380-385) answers with connection.notification(6, 7, ...), which is a *generator*: nothing is
written until somebody iterates it.  Listener.new_connections() (reactor/listener.py:273-279, and 318-324 for
ranged neighbors) only tests it for truth and drops it; the socket is closed, unanswered, when the Incoming
object is garbage collected.  The same holds for the two other refusals of handle_connection(): 6/7 when
our OpenConfirm connection wins the collision (peer.py:408) and 6/5 for a peer being removed (peer.py:377).
("no session configured", 6/3, is handed to reactor.asynchronous.schedule() and is written.)

Property: "the last message it writes is a single NOTIFICATION whose code and subcode name the error class
per RFC 4271 section 6 ... cease 6/x" (RFC 4271 6.8: a connection dropped by collision resolution is closed
by sending a NOTIFICATION Cease; RFC 4486 subcode 7).

The real Listener accepts the connection; its reactor is a stub offering the four members it uses.

Real code driven: Configuration, Peer.run(), Protocol, Connection over loopback TCP. Mocked: the reactor
object handed to Peer (API processes only).
"""

import asyncio
import socket
import struct
from unittest.mock import MagicMock

from exabgp.configuration.configuration import Configuration
from exabgp.reactor.peer.peer import Peer
from exabgp.rib import RIB
from exabgp.protocol.ip import IP
from exabgp.reactor.listener import Listener

MARKER = b'\xff' * 16
KEEPALIVE = MARKER + b'\x00\x13\x04'


def msg(kind, body=b''):
    return MARKER + struct.pack('!HB', 19 + len(body), kind) + body


def cap(code, value=b''):
    return bytes([2, 2 + len(value), code, len(value)]) + value


def open_msg(asn=65000, hold=180, rid='2.2.2.2', more=b''):
    params = cap(1, b'\x00\x01\x00\x01') + cap(65, struct.pack('!L', asn)) + more
    return msg(1, bytes([4]) + struct.pack('!HH', asn, hold) + socket.inet_aton(rid) + bytes([len(params)]) + params)


def neighbor(port, hold=180, capability=''):
    RIB._cache.clear()
    text = (
        'neighbor 127.0.0.1 { router-id 1.1.1.1; local-address 127.0.0.1; local-as 65001; peer-as 65000;'
        ' hold-time %d; connect %d; family { ipv4 unicast; } capability { %s } }' % (hold, port, capability)
    )
    cfg = Configuration([text], text=True)
    assert cfg.reload(), cfg.error
    return list(cfg.neighbors.values())[0]


def reactor():
    fake = MagicMock()  # only the API side (reactor.processes) is used by a Peer
    fake.processes.broken.return_value = False
    return fake


class Wire:
    """the BGP speaker at the other end of a loopback TCP connection"""

    def __init__(self, sock):
        sock.setblocking(False)
        self.sock, self.buf, self.msgs, self.eof = sock, b'', [], False

    async def send(self, data):
        await asyncio.get_event_loop().sock_sendall(self.sock, data)

    async def pump(self, seconds):
        loop = asyncio.get_event_loop()
        end = loop.time() + seconds
        while not self.eof and loop.time() < end:
            try:
                data = await asyncio.wait_for(loop.sock_recv(self.sock, 65536), max(0.01, end - loop.time()))
            except asyncio.TimeoutError:
                break
            except OSError:
                data = b''
            if not data:
                self.eof = True
            self.buf += data
            while len(self.buf) >= 19 and len(self.buf) >= struct.unpack('!H', self.buf[16:18])[0]:
                size = struct.unpack('!H', self.buf[16:18])[0]
                self.msgs.append((self.buf[18], bytes(self.buf[19:size])))
                self.buf = self.buf[size:]

    async def until(self, kind, seconds=30):
        for _ in range(int(seconds / 0.05)):
            if any(k == kind for k, _ in self.msgs) or self.eof:
                break
            await self.pump(0.05)
        return any(k == kind for k, _ in self.msgs)


async def connect(state='ESTABLISHED', hold=180, capability='', peer_open=None):
    """a real Peer connects to our loopback listener and is driven to the state asked for"""
    listener = socket.socket()
    listener.bind(('127.0.0.1', 0))
    listener.listen(1)
    listener.setblocking(False)
    peer = Peer(neighbor(listener.getsockname()[1], hold, capability), reactor())
    task = asyncio.ensure_future(peer.run())
    sock, _ = await asyncio.get_event_loop().sock_accept(listener)
    listener.close()
    wire = Wire(sock)
    assert await wire.until(1)  # ExaBGP's OPEN: OpenSent
    if state != 'OPENSENT':
        await wire.send(peer_open or open_msg(hold=hold))
        assert await wire.until(4)  # ExaBGP's KEEPALIVE: OpenConfirm
    if state == 'ESTABLISHED':
        await wire.send(KEEPALIVE)
        assert await wire.until(2)  # ExaBGP's End-of-RIB: Established
        await wire.pump(0.2)
    assert peer.fsm.name() == state
    return peer, task, wire


def notifications(msgs):
    return [(body[0], body[1]) for kind, body in msgs if kind == 3]


class StubReactor:
    def __init__(self, peer):
        self.peer, self.scheduled = peer, []
        self.asynchronous = self

    def peers(self, service=''):
        return ['the-peer']

    def neighbor(self, key):
        return self.peer.neighbor

    def handle_connection(self, key, connection):  # Reactor.handle_connection
        return self.peer.handle_connection(connection)

    def schedule(self, uid, command, generator):  # Reactor.asynchronous.schedule
        self.scheduled.append(generator)


async def scenario():
    peer, task, wire = await connect('ESTABLISHED')
    stub = StubReactor(peer)
    listener = Listener(stub)
    probe = socket.socket()
    probe.bind(('127.0.0.1', 0))
    port = probe.getsockname()[1]
    probe.close()
    assert listener.listen_on(IP.from_string('127.0.0.1'), IP.from_string('127.0.0.1'), port, None, False, None)
    second = socket.socket()
    second.connect(('127.0.0.1', port))
    await asyncio.sleep(0.2)
    assert listener.incoming()
    for _ in listener.new_connections():  # what the reactor's scheduler runs
        pass
    for generator in stub.scheduled:  # and anything it was asked to run later
        for _ in generator:
            pass
    refused = Wire(second)
    await refused.pump(2)
    state = peer.fsm.name()
    task.cancel()
    listener.stop()
    return refused.msgs, refused.eof, state


def test_connection_refused_while_established_is_answered_with_a_cease():
    written, closed, state = asyncio.run(scenario())
    assert state == 'ESTABLISHED'  # the first session is kept: the second connection is the one refused
    assert closed and notifications(written) == [(6, 7)], f'refused connection: closed {closed}, written {written}'
