"""C10 demo: the timer which runs in OpenSent expires and is reported as 5/1 instead of 4/0.

ExaBGP has sent its OPEN and waits for the peer's (exabgp.bgp.openwait seconds, 60 by default; set to 1
here - the value is a documented environment option, no clock is mocked).  Nothing arrives.
Peer._read_open (peer.py:492-493) raises Notify(5, 1, 'waited for open too long ...').

Property: "Whenever ExaBGP ends a session because of something it received or a timer, ... (... hold
timer 4/0, message unexpected for the state 5/1-5/3 ...)"; quantified over "timer expiry".  RFC 4271
8.2.2, OpenSent, HoldTimer_Expires: "sends a NOTIFICATION message with the error code Hold Timer
Expired".  5/1 is RFC 6608 "Receive Unexpected Message in OpenSent State": no message was received.

Real code driven: Configuration, Peer.run(), Protocol, Connection over loopback TCP. Mocked: the reactor
object handed to Peer (API processes only).
"""

import asyncio
import socket
import struct
from unittest.mock import MagicMock

from exabgp.configuration.configuration import Configuration
from exabgp.reactor.peer.peer import Peer
from exabgp.rib import RIB
from exabgp.environment import getenv

MARKER = b'\xff' * 16
KEEPALIVE = MARKER + b'\x00\x13\x04'


def msg(kind, body=b''):
    return MARKER + struct.pack('!HB', 19 + len(body), kind) + body


def cap(code, value=b''):
    return bytes([2, 2 + len(value), code, len(value)]) + value


def open_msg(asn=65000, hold=180, rid='2.2.2.2', more=b''):
    params = cap(1, b'\x00\x01\x00\x01') + cap(65, struct.pack('!L', asn)) + more
    return msg(1, bytes([4]) + struct.pack('!HH', asn, hold) + socket.inet_aton(rid) + bytes([len(params)]) + params)


def neighbor(port, hold=180, capability=''):
    RIB._cache.clear()
    text = (
        'neighbor 127.0.0.1 { router-id 1.1.1.1; local-address 127.0.0.1; local-as 65001; peer-as 65000;'
        ' hold-time %d; connect %d; family { ipv4 unicast; } capability { %s } }' % (hold, port, capability)
    )
    cfg = Configuration([text], text=True)
    assert cfg.reload(), cfg.error
    return list(cfg.neighbors.values())[0]


def reactor():
    fake = MagicMock()  # only the API side (reactor.processes) is used by a Peer
    fake.processes.broken.return_value = False
    return fake


class Wire:
    """the BGP speaker at the other end of a loopback TCP connection"""

    def __init__(self, sock):
        sock.setblocking(False)
        self.sock, self.buf, self.msgs, self.eof = sock, b'', [], False

    async def send(self, data):
        await asyncio.get_event_loop().sock_sendall(self.sock, data)

    async def pump(self, seconds):
        loop = asyncio.get_event_loop()
        end = loop.time() + seconds
        while not self.eof and loop.time() < end:
            try:
                data = await asyncio.wait_for(loop.sock_recv(self.sock, 65536), max(0.01, end - loop.time()))
            except asyncio.TimeoutError:
                break
            except OSError:
                data = b''
            if not data:
                self.eof = True
            self.buf += data
            while len(self.buf) >= 19 and len(self.buf) >= struct.unpack('!H', self.buf[16:18])[0]:
                size = struct.unpack('!H', self.buf[16:18])[0]
                self.msgs.append((self.buf[18], bytes(self.buf[19:size])))
                self.buf = self.buf[size:]

    async def until(self, kind, seconds=30):
        for _ in range(int(seconds / 0.05)):
            if any(k == kind for k, _ in self.msgs) or self.eof:
                break
            await self.pump(0.05)
        return any(k == kind for k, _ in self.msgs)


async def connect(state='ESTABLISHED', hold=180, capability='', peer_open=None):
    """a real Peer connects to our loopback listener and is driven to the state asked for"""
    listener = socket.socket()
    listener.bind(('127.0.0.1', 0))
    listener.listen(1)
    listener.setblocking(False)
    peer = Peer(neighbor(listener.getsockname()[1], hold, capability), reactor())
    task = asyncio.ensure_future(peer.run())
    sock, _ = await asyncio.get_event_loop().sock_accept(listener)
    listener.close()
    wire = Wire(sock)
    assert await wire.until(1)  # ExaBGP's OPEN: OpenSent
    if state != 'OPENSENT':
        await wire.send(peer_open or open_msg(hold=hold))
        assert await wire.until(4)  # ExaBGP's KEEPALIVE: OpenConfirm
    if state == 'ESTABLISHED':
        await wire.send(KEEPALIVE)
        assert await wire.until(2)  # ExaBGP's End-of-RIB: Established
        await wire.pump(0.2)
    assert peer.fsm.name() == state
    return peer, task, wire


def notifications(msgs):
    return [(body[0], body[1]) for kind, body in msgs if kind == 3]


async def scenario():
    saved, getenv().bgp.openwait = getenv().bgp.openwait, 1
    try:
        peer, task, wire = await connect('OPENSENT')
        before = len(wire.msgs)
        await wire.pump(3)
        task.cancel()
        return wire.msgs[before:], wire.eof
    finally:
        getenv().bgp.openwait = saved


def test_timer_expiry_in_opensent_is_hold_timer_expired():
    written, closed = asyncio.run(scenario())
    assert closed and notifications(written), f'expected the session to be ended with a NOTIFICATION, got {written}'
    assert notifications(written) == [(4, 0)], f'timer expiry in OpenSent answered with {notifications(written)}'
