"""C10 demo: ROUTE-REFRESH errors are not answered as RFC 7313 section 5 says.

Enhanced route refresh is negotiated (ExaBGP announces it with route-refresh; the peer's OPEN carries
capabilities 2 and 70).

(a) a BoRR (subtype 1) whose body is 5 octets instead of 4: RFC 7313 5: "the BGP speaker MUST send a
    NOTIFICATION message with the Error Code of 'ROUTE-REFRESH Message Error' and the subcode of 'Invalid
    Message Length'" = 7/1.  ExaBGP answers 1/2: the length table in bgp/message/message.py:175
    (ROUTE_REFRESH == 23) is applied by Connection.reader_async (connection.py:442-446) before
    RouteRefresh.unpack_message, whose Notify(7, 1) (refresh.py:94) can therefore never be sent.
(b) a ROUTE-REFRESH with subtype 3: RFC 7313 5: "it MUST ignore the received ROUTE-REFRESH message".
    ExaBGP ends the session with 7/2 (refresh.py:95-96), a subcode RFC 7313 does not define.

Property: "a single NOTIFICATION whose code and subcode name the error class per RFC 4271 section 6,
RFC 6608 and RFC 7313".

Real code driven: Configuration, Peer.run(), Protocol, Connection over loopback TCP. Mocked: the reactor
object handed to Peer (API processes only).
"""

import asyncio
import socket
import struct
from unittest.mock import MagicMock

from exabgp.configuration.configuration import Configuration
from exabgp.reactor.peer.peer import Peer
from exabgp.rib import RIB
from exabgp.bgp.message.open.capability import REFRESH

MARKER = b'\xff' * 16
KEEPALIVE = MARKER + b'\x00\x13\x04'


def msg(kind, body=b''):
    return MARKER + struct.pack('!HB', 19 + len(body), kind) + body


def cap(code, value=b''):
    return bytes([2, 2 + len(value), code, len(value)]) + value


def open_msg(asn=65000, hold=180, rid='2.2.2.2', more=b''):
    params = cap(1, b'\x00\x01\x00\x01') + cap(65, struct.pack('!L', asn)) + more
    return msg(1, bytes([4]) + struct.pack('!HH', asn, hold) + socket.inet_aton(rid) + bytes([len(params)]) + params)


def neighbor(port, hold=180, capability=''):
    RIB._cache.clear()
    text = (
        'neighbor 127.0.0.1 { router-id 1.1.1.1; local-address 127.0.0.1; local-as 65001; peer-as 65000;'
        ' hold-time %d; connect %d; family { ipv4 unicast; } capability { %s } }' % (hold, port, capability)
    )
    cfg = Configuration([text], text=True)
    assert cfg.reload(), cfg.error
    return list(cfg.neighbors.values())[0]


def reactor():
    fake = MagicMock()  # only the API side (reactor.processes) is used by a Peer
    fake.processes.broken.return_value = False
    return fake


class Wire:
    """the BGP speaker at the other end of a loopback TCP connection"""

    def __init__(self, sock):
        sock.setblocking(False)
        self.sock, self.buf, self.msgs, self.eof = sock, b'', [], False

    async def send(self, data):
        await asyncio.get_event_loop().sock_sendall(self.sock, data)

    async def pump(self, seconds):
        loop = asyncio.get_event_loop()
        end = loop.time() + seconds
        while not self.eof and loop.time() < end:
            try:
                data = await asyncio.wait_for(loop.sock_recv(self.sock, 65536), max(0.01, end - loop.time()))
            except asyncio.TimeoutError:
                break
            except OSError:
                data = b''
            if not data:
                self.eof = True
            self.buf += data
            while len(self.buf) >= 19 and len(self.buf) >= struct.unpack('!H', self.buf[16:18])[0]:
                size = struct.unpack('!H', self.buf[16:18])[0]
                self.msgs.append((self.buf[18], bytes(self.buf[19:size])))
                self.buf = self.buf[size:]

    async def until(self, kind, seconds=30):
        for _ in range(int(seconds / 0.05)):
            if any(k == kind for k, _ in self.msgs) or self.eof:
                break
            await self.pump(0.05)
        return any(k == kind for k, _ in self.msgs)


async def connect(state='ESTABLISHED', hold=180, capability='', peer_open=None):
    """a real Peer connects to our loopback listener and is driven to the state asked for"""
    listener = socket.socket()
    listener.bind(('127.0.0.1', 0))
    listener.listen(1)
    listener.setblocking(False)
    peer = Peer(neighbor(listener.getsockname()[1], hold, capability), reactor())
    task = asyncio.ensure_future(peer.run())
    sock, _ = await asyncio.get_event_loop().sock_accept(listener)
    listener.close()
    wire = Wire(sock)
    assert await wire.until(1)  # ExaBGP's OPEN: OpenSent
    if state != 'OPENSENT':
        await wire.send(peer_open or open_msg(hold=hold))
        assert await wire.until(4)  # ExaBGP's KEEPALIVE: OpenConfirm
    if state == 'ESTABLISHED':
        await wire.send(KEEPALIVE)
        assert await wire.until(2)  # ExaBGP's End-of-RIB: Established
        await wire.pump(0.2)
    assert peer.fsm.name() == state
    return peer, task, wire


def notifications(msgs):
    return [(body[0], body[1]) for kind, body in msgs if kind == 3]


ENHANCED = cap(2) + cap(70)


async def scenario(refresh):
    peer, task, wire = await connect('ESTABLISHED', capability='route-refresh enable;', peer_open=open_msg(more=ENHANCED))
    assert peer.proto.negotiated.refresh == REFRESH.ENHANCED  # RFC 7313 section 5 applies
    before = len(wire.msgs)
    await wire.send(refresh)
    await wire.pump(1.5)
    task.cancel()
    return wire.msgs[before:], wire.eof


def test_borr_with_a_bad_length_is_answered_7_1():
    written, closed = asyncio.run(scenario(msg(5, b'\x00\x01\x01\x01\x00')))
    assert closed and notifications(written) == [(7, 1)], f'BoRR of 24 octets answered with {notifications(written)}'


def test_refresh_with_an_unknown_subtype_is_ignored():
    written, closed = asyncio.run(scenario(msg(5, b'\x00\x01\x03\x01')))
    assert not closed and not notifications(written), f'subtype 3 answered with {notifications(written)}'
