"""C10 demo: an OPEN error which ends the session without any NOTIFICATION.

A neighbor configured with "capability { multi-session enable; }" receives an OPEN which carries the
multi-session capability but no multiprotocol capability.  Negotiated._negotiate() compares
sent_capa[MULTIPROTOCOL] with recv_capa[MULTIPROTOCOL] (negotiated.py:221) and raises KeyError; Peer._run
catches it as an unhandled exception and resets the session with nothing written.

Property: "Whenever ExaBGP ends a session because of something it received ... the last message it
writes is a single NOTIFICATION whose code and subcode name the error class (... OPEN errors 2/x ...)".

Real code driven: Configuration, Peer.run(), Protocol, Connection over loopback TCP. Mocked: the reactor
object handed to Peer (API processes only).
"""

import asyncio
import socket
import struct
from unittest.mock import MagicMock

from exabgp.configuration.configuration import Configuration
from exabgp.reactor.peer.peer import Peer
from exabgp.rib import RIB

MARKER = b'\xff' * 16
KEEPALIVE = MARKER + b'\x00\x13\x04'


def msg(kind, body=b''):
    return MARKER + struct.pack('!HB', 19 + len(body), kind) + body


def cap(code, value=b''):
    return bytes([2, 2 + len(value), code, len(value)]) + value


def open_msg(asn=65000, hold=180, rid='2.2.2.2', more=b''):
    params = cap(1, b'\x00\x01\x00\x01') + cap(65, struct.pack('!L', asn)) + more
    return msg(1, bytes([4]) + struct.pack('!HH', asn, hold) + socket.inet_aton(rid) + bytes([len(params)]) + params)


def neighbor(port, hold=180, capability=''):
    RIB._cache.clear()
    text = (
        'neighbor 127.0.0.1 { router-id 1.1.1.1; local-address 127.0.0.1; local-as 65001; peer-as 65000;'
        ' hold-time %d; connect %d; family { ipv4 unicast; } capability { %s } }' % (hold, port, capability)
    )
    cfg = Configuration([text], text=True)
    assert cfg.reload(), cfg.error
    return list(cfg.neighbors.values())[0]


def reactor():
    fake = MagicMock()  # only the API side (reactor.processes) is used by a Peer
    fake.processes.broken.return_value = False
    return fake


class Wire:
    """the BGP speaker at the other end of a loopback TCP connection"""

    def __init__(self, sock):
        sock.setblocking(False)
        self.sock, self.buf, self.msgs, self.eof = sock, b'', [], False

    async def send(self, data):
        await asyncio.get_event_loop().sock_sendall(self.sock, data)

    async def pump(self, seconds):
        loop = asyncio.get_event_loop()
        end = loop.time() + seconds
        while not self.eof and loop.time() < end:
            try:
                data = await asyncio.wait_for(loop.sock_recv(self.sock, 65536), max(0.01, end - loop.time()))
            except asyncio.TimeoutError:
                break
            except OSError:
                data = b''
            if not data:
                self.eof = True
            self.buf += data
            while len(self.buf) >= 19 and len(self.buf) >= struct.unpack('!H', self.buf[16:18])[0]:
                size = struct.unpack('!H', self.buf[16:18])[0]
                self.msgs.append((self.buf[18], bytes(self.buf[19:size])))
                self.buf = self.buf[size:]

    async def until(self, kind, seconds=30):
        for _ in range(int(seconds / 0.05)):
            if any(k == kind for k, _ in self.msgs) or self.eof:
                break
            await self.pump(0.05)
        return any(k == kind for k, _ in self.msgs)


async def connect(state='ESTABLISHED', hold=180, capability='', peer_open=None):
    """a real Peer connects to our loopback listener and is driven to the state asked for"""
    listener = socket.socket()
    listener.bind(('127.0.0.1', 0))
    listener.listen(1)
    listener.setblocking(False)
    peer = Peer(neighbor(listener.getsockname()[1], hold, capability), reactor())
    task = asyncio.ensure_future(peer.run())
    sock, _ = await asyncio.get_event_loop().sock_accept(listener)
    listener.close()
    wire = Wire(sock)
    assert await wire.until(1)  # ExaBGP's OPEN: OpenSent
    if state != 'OPENSENT':
        await wire.send(peer_open or open_msg(hold=hold))
        assert await wire.until(4)  # ExaBGP's KEEPALIVE: OpenConfirm
    if state == 'ESTABLISHED':
        await wire.send(KEEPALIVE)
        assert await wire.until(2)  # ExaBGP's End-of-RIB: Established
        await wire.pump(0.2)
    assert peer.fsm.name() == state
    return peer, task, wire


def notifications(msgs):
    return [(body[0], body[1]) for kind, body in msgs if kind == 3]


async def scenario():
    peer, task, wire = await connect('OPENSENT', capability='multi-session enable;')
    before = len(wire.msgs)
    params = cap(65, struct.pack('!L', 65000)) + cap(0x44, b'\x00\x01')  # multi-session, no multiprotocol
    body = bytes([4]) + struct.pack('!HH', 65000, 180) + socket.inet_aton('2.2.2.2') + bytes([len(params)]) + params
    await wire.send(msg(1, body))
    await wire.pump(2)
    task.cancel()
    return wire.msgs[before:], wire.eof


def test_open_with_multisession_but_no_multiprotocol_is_answered_with_an_open_error():
    written, closed = asyncio.run(scenario())
    assert closed, 'the session was not ended: this demo is about how it is ended'
    got = notifications(written)
    assert len(got) == 1 and got[0][0] == 2, f'session ended with {written} instead of one OPEN error NOTIFICATION (2/x)'
